from matplotlib.patches import Path
