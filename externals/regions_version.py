version = '0.0'
