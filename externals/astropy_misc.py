class AstropyWarning(Warning):
    pass


class AstropyUserWarning(UserWarning, AstropyWarning):
    pass


class AstropyDeprecationWarning(AstropyWarning):
    pass
