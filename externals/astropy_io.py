import astropy.io.fits as fits
