"""A-MPL: Line2D(xdata, ydata, **kwargs) draws markers/segments at the given data points"""


class Line2D:
    def __init__(self, xdata, ydata, **kwargs):
        # A-MPL: fillstyle is one of the documented style names (a flag is refused)
        if 'fillstyle' in kwargs and not (isinstance(kwargs['fillstyle'], str) and kwargs['fillstyle'] in ('full', 'left', 'right', 'bottom', 'top', 'none')):
            raise ValueError(str(kwargs['fillstyle']) + ' is not a valid value for fillstyle')
        self.xdata = xdata
        self.ydata = ydata
        self.kwargs = dict(kwargs)
