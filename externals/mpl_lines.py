"""A-MPL: Line2D(xdata, ydata, **kwargs) draws markers/segments at the given data points"""


class Line2D:
    def __init__(self, xdata, ydata, **kwargs):
        self.xdata = xdata
        self.ydata = ydata
        self.kwargs = dict(kwargs)
