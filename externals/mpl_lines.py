"""A-MPL model (filled in for C18)"""
