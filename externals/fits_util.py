"""assumed contract of astropy.io.fits.util._is_int: True for Python / numpy integers (not bool-excluded: bool is an int)"""


def _is_int(val):
    return isinstance(val, int)
