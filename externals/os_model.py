"""A-OS: ghost file system.  files: path -> {'content': text | table, 'gz': bool};  exists(path) is an abstract boolean for
paths the contract did not create.  open(p, 'w') truncates/creates p at once (before anything is written)."""
import vprim


def files():
    g = vprim.ghost()
    if 'files' not in g:
        g['files'] = {}
    return g['files']


class _File:
    def __init__(self, path, mode, encoding=None):
        self.path = path
        self.mode = mode
        self.encoding = encoding
        self.closed = False

    def __enter__(self):
        return self

    def __exit__(self, *args):
        self.closed = True
        return False

    def close(self):
        self.closed = True

    def write(self, text):
        if 'w' not in self.mode and 'a' not in self.mode:
            raise OSError('not writable')
        if self.encoding is not None and self.encoding.lower().replace('-', '').replace('_', '') in ('ascii', 'usascii') and not vprim.text_isascii(text):
            # the encoder fails inside write(): whatever open() did to the destination has already happened
            raise UnicodeEncodeError('ascii codec cannot encode the text')
        vprim.event('fs', op='write', path=self.path)
        f = files()[self.path]
        f['content'] = f['content'] + text

    def read(self, n=None):
        f = files()[self.path]
        c = f['content']
        if f['gz']:
            c = vprim.uf_text('gzip', c)        # raw bytes of a gzip file are not its text
        if n is None:
            return c
        return c[:n]

    def readline(self):
        vprim.unsupported('readline on a plain file')

    def tell(self):
        return 0

    def seek(self, pos):
        return None


def open_(path, mode='r', *args, **kwargs):
    fs = files()
    encoding = kwargs.get('encoding', args[1] if len(args) > 1 else None)
    if 'w' in mode:
        vprim.event('fs', op='open_w', path=path)
        fs[path] = {'content': '', 'gz': False}
        return _File(path, mode, encoding)
    if path not in fs:
        raise FileNotFoundError(path)
    return _File(path, mode, encoding)
