def minversion(module, version, inclusive=True):
    return True


class lazyproperty:
    """astropy.utils.lazyproperty: computes once, then serves the value cached in the instance __dict__"""

    def __init__(self, fget, fset=None, fdel=None, doc=None):
        self.fget = fget
        self._key = fget.__name__

    def __get__(self, obj, owner=None):
        if obj is None:
            return self
        d = obj.__dict__
        if self._key in d:
            return d[self._key]
        val = self.fget(obj)
        d[self._key] = val
        return val

    def __set__(self, obj, val):
        obj.__dict__[self._key] = val

    def __delete__(self, obj):
        del obj.__dict__[self._key]


class classproperty:
    def __init__(self, fget):
        self.fget = fget

    def __get__(self, obj, owner=None):
        return self.fget(owner)
