def minversion(module, version, inclusive=True):
    return True
