"""assumed contract of astropy.table (QTable / Table / Row): a table is an ordered mapping column name -> list of row values"""
import vprim


class Row:
    def __init__(self, table, index):
        self._table = table
        self._index = index

    @property
    def colnames(self):
        return list(self._table._cols.keys())

    def __getitem__(self, name):
        return self._table._cols[name][self._index]


class Table:
    def __init__(self, data=None, **kwargs):
        self._cols = {}
        self.meta = {}

    @property
    def colnames(self):
        return list(self._cols.keys())

    def __setitem__(self, name, values):
        self._cols[name] = list(values)

    def __getitem__(self, name):
        return self._cols[name]

    def __len__(self):
        for k in self._cols:
            return len(self._cols[k])
        return 0

    def __iter__(self):
        for i in range(len(self)):
            yield Row(self, i)

    def pformat(self, **kwargs):
        return ['<table>']

    @classmethod
    def read(cls, hdu, **kwargs):
        return hdu._table


class QTable(Table):
    pass
