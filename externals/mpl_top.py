import matplotlib.patches as patches
import matplotlib.path as path
