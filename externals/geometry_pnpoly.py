"""assumed contract of the compiled kernel regions/_geometry/pnpoly.pyx::points_in_polygon:
result[k] = 1 iff (x[k], y[k]) has an odd crossing number w.r.t. the closed polygon (vx, vy) (even-odd rule),
result has the shape of x (1-D) and integer dtype.  PIP is the abstract crossing-parity function; the spec
functions use the same symbol, the kernel text itself is checked against the crossing-number definition separately."""
import vprim


def points_in_polygon(x, y, vx, vy):
    if vprim.is_selection(x) or vprim.is_selection(y):
        vprim.unsupported('kernel called on a boolean-mask selection (not modelled)')
    if not (vprim.is_array(x) and vprim.is_array(y) and vprim.is_array(vx) and vprim.is_array(vy)):
        raise TypeError('Argument has incorrect type (expected numpy.ndarray)')
    if x.ndim != 1 or y.ndim != 1 or vx.ndim != 1 or vy.ndim != 1:
        raise ValueError('Buffer has wrong number of dimensions (expected 1)')
    if vprim.dtype_of(x) != 'float' or vprim.dtype_of(y) != 'float' or vprim.dtype_of(vx) != 'float' or vprim.dtype_of(vy) != 'float':
        raise ValueError("Buffer dtype mismatch, expected 'DTYPE_t'")
    return vprim.arr_from_fn(x.shape, lambda k: vprim.ite(pip(vx, vy, x[k], y[k]), 1, 0), 'int')


def pip(vx, vy, px, py):
    return vprim.uf('pip', 'bool', vx, vy, px, py)
