"""A-UNITS: assumed contract of astropy.units -- a Quantity is (value in canonical SI, unit); units carry
(scale to SI, dimension vector (angle, pixel)).  Angles are canonical in radians, so the unit a Quantity is
expressed in never matters until `.value` is asked for."""
import vprim
import numpy as np

PI = vprim.PI


class UnitsError(ValueError):
    pass


class UnitConversionError(UnitsError):
    pass


class UnitTypeError(UnitsError, TypeError):
    pass


class UnitBase:
    pass


class Unit(UnitBase):
    """scale to SI = num * pi**pipow with concrete rational `num` and integer `pipow` (so that unit comparisons are concrete)"""

    def __init__(self, name, num=None, dims=None, pipow=0):
        if num is None and dims is None:
            other = _lookup(name)
            self.name = other.name
            self.num = other.num
            self.pipow = other.pipow
            self.dims = other.dims
        else:
            self.name = name
            self.num = num
            self.pipow = pipow
            self.dims = dims

    @property
    def scale(self):
        if self.pipow == 0:
            return self.num
        if self.pipow > 0:
            return self.num * PI ** self.pipow
        return self.num / PI ** (-self.pipow)

    @property
    def is_si(self):
        return self.num == 1 and self.pipow == 0

    @property
    def physical_type(self):
        if self.dims == (1, 0):
            return 'angle'
        if self.dims == (0, 0):
            return 'dimensionless'
        if self.dims == (2, 0):
            return 'solid angle'
        return 'unknown'

    def __repr__(self):
        return 'Unit(' + self.name + ')'

    def __str__(self):
        return self.name

    def to_string(self, *args, **kwargs):
        return self.name

    def __eq__(self, other):
        if isinstance(other, str):
            other = _lookup(other)
        if not isinstance(other, Unit):
            return False
        return self.dims == other.dims and self.num == other.num and self.pipow == other.pipow

    def __ne__(self, other):
        return not self == other

    def __hash__(self):
        return 0

    def _times(self, other, sign):
        n = len(self.dims) if len(self.dims) > len(other.dims) else len(other.dims)
        a = tuple(self.dims) + (0,) * (n - len(self.dims))
        b = tuple(other.dims) + (0,) * (n - len(other.dims))
        dims = tuple(a[i] + sign * b[i] for i in range(n))
        while len(dims) > 2 and dims[-1] == 0:
            dims = dims[:-1]
        if sign > 0:
            return Unit(self.name + ' ' + other.name, self.num * other.num, dims, self.pipow + other.pipow)
        return Unit(self.name + ' / ' + other.name, self.num / other.num, dims, self.pipow - other.pipow)

    def __mul__(self, other):
        if isinstance(other, Unit):
            return self._times(other, 1)
        if isinstance(other, Quantity):
            return Quantity._from_si(other.si * self.scale, other.unit * self)
        return Quantity(other, self)

    def __rmul__(self, other):
        if isinstance(other, Quantity):
            return Quantity._from_si(other.si * self.scale, other.unit * self)
        return Quantity(other, self)

    def __truediv__(self, other):
        if isinstance(other, Unit):
            return self._times(other, -1)
        if isinstance(other, Quantity):
            return Quantity._from_si(self.scale / other.si, self / other.unit)
        return Quantity(1 / other, self)

    def __rtruediv__(self, other):
        inv = dimensionless_unscaled._times(self, -1)
        if isinstance(other, Quantity):
            return other * inv
        return Quantity(other, inv)

    def __pow__(self, p):
        return Unit(self.name + '**' + str(p), self.num ** p, tuple(d * p for d in self.dims), self.pipow * p)

    def __rlshift__(self, other):
        return Quantity(other, self)

    def is_equivalent(self, other, equivalencies=None):
        """convertibility - which, unlike `physical_type`, honours the equivalencies enabled process-wide: under
        `u.set_enabled_equivalencies(u.dimensionless_angles())` angles (and powers of angles) count as dimensionless.  Whether that
        is in force is an arbitrary but fixed fact of the process: an uninterpreted constant"""
        if isinstance(other, str):
            other = _lookup(other)
        if self.dims == other.dims:
            return True
        if equivalencies is not None:
            vprim.unsupported('is_equivalent with explicit equivalencies')
        if len(self.dims) == 2 and len(other.dims) == 2 and self.dims[1] == 0 and other.dims[1] == 0:
            return vprim.uf('astropy_dimensionless_angles_enabled', 'bool')
        return False

    def to(self, other, value=1.0):
        other = _as_unit(other)
        if self.dims != other.dims:
            raise UnitConversionError(f'{self.name} and {other.name} are not convertible')
        return value * self.scale / other.scale


dimensionless_unscaled = Unit('', 1, (0, 0))
one = dimensionless_unscaled
rad = Unit('rad', 1, (1, 0))
radian = rad
deg = Unit('deg', 1 / 180, (1, 0), 1)
degree = deg
arcmin = Unit('arcmin', 1 / 10800, (1, 0), 1)
arcminute = arcmin
arcsec = Unit('arcsec', 1 / 648000, (1, 0), 1)
arcsecond = arcsec
hourangle = Unit('hourangle', 1 / 12, (1, 0), 1)
hour = Unit('h', 3600, (0, 0, 1))
pix = Unit('pix', 1, (0, 1))
sr = Unit('sr', 1, (2, 0))
steradian = sr
pixel = pix
mas = Unit('mas', 1 / 648000000, (1, 0), 1)
m = Unit('m', 1, (0, 0, 0, 1))
GHz = Unit('GHz', 1000000000, (0, 0, -1))
km = Unit('km', 1000, (0, 0, 0, 1))
s = Unit('s', 1, (0, 0, 1))

_UNITS = {'rad': rad, 'radian': rad, 'deg': deg, 'degree': deg, 'arcmin': arcmin, 'arcsec': arcsec, 'pix': pix,
          'pixel': pix, 'sr': sr, 'steradian': sr, '': dimensionless_unscaled, 'hourangle': hourangle, 'mas': mas, 'GHz': GHz, 'km': km, 's': s, 'm': m}


def _lookup(name):
    if isinstance(name, Unit):
        return name
    if name in _UNITS:
        return _UNITS[name]
    raise ValueError(f'{name!r} did not parse as unit')


def _as_unit(u):
    if isinstance(u, Unit):
        return u
    if isinstance(u, str):
        return _lookup(u)
    raise TypeError('not a unit')


class Quantity:
    def __init__(self, value, unit=None, dtype=None, copy=True):
        if isinstance(value, Quantity):
            if unit is None:
                self.si = value.si
                self.unit = value.unit
            else:
                unit = _as_unit(unit)
                if value.unit.dims != unit.dims:
                    raise UnitConversionError(f'{value.unit.name} and {unit.name} are not convertible')
                self.si = value.si
                self.unit = unit
            return
        if unit is None:
            unit = dimensionless_unscaled
        unit = _as_unit(unit)
        if isinstance(value, (list, tuple)):
            if len(value) > 0 and isinstance(value[0], Quantity):
                for v in value:
                    if not isinstance(v, Quantity) or v.unit.dims != value[0].unit.dims:
                        raise UnitConversionError('cannot combine quantities of different dimensions')
                self.si = np.array([v.si for v in value])
                self.unit = value[0].unit if unit is dimensionless_unscaled else unit
                return
            value = np.array(value)
        if isinstance(value, str):
            value = float(value)
        if value is None or isinstance(value, (dict,)):
            raise TypeError('The value must be a valid Python or Numpy numeric type.')
        if not np.isscalar(value) and not vprim.is_array(value):
            raise TypeError('The value must be a valid Python or Numpy numeric type.')
        if vprim.is_array(value) and vprim.dtype_of(value) == 'object':
            raise TypeError('The value must be a valid Python or Numpy numeric type.')
        if isinstance(value, bool):
            value = int(value)
        if unit.is_si or vprim.is_nonfinite(value):
            self.si = value          # nan / +-inf are unaffected by a (positive) unit scale
        else:
            self.si = value * unit.scale
        self.unit = unit

    @classmethod
    def _from_si(cls, si, unit):
        q = object.__new__(cls)
        q.si = si
        q.unit = unit
        return q

    @property
    def value(self):
        if self.unit.is_si or vprim.is_nonfinite(self.si):
            return self.si
        return self.si / self.unit.scale

    @property
    def isscalar(self):
        return not vprim.is_array(self.si)

    @property
    def shape(self):
        return vprim.shape_of(self.si)

    @property
    def ndim(self):
        return len(vprim.shape_of(self.si))

    @property
    def size(self):
        if vprim.is_array(self.si):
            return self.si.size
        return 1

    def __len__(self):
        if not vprim.is_array(self.si):
            raise TypeError('Scalar Quantity has no len()')
        return len(self.si)

    def __getitem__(self, key):
        if not vprim.is_array(self.si):
            raise TypeError('Scalar Quantity cannot be indexed')
        return self._from_si(self.si[key], self.unit)

    def __iter__(self):
        for v in self.si:
            yield self._from_si(v, self.unit)

    def to(self, unit, equivalencies=None):
        unit = _as_unit(unit)
        if self.unit.dims != unit.dims:
            raise UnitConversionError(f'{self.unit.name} and {unit.name} are not convertible')
        return self._from_si(self.si, unit)

    def to_value(self, unit=None):
        if unit is None:
            return self.value
        return self.to(unit).value

    def _same_dims(self, other, what):
        if isinstance(other, Quantity):
            if other.unit.dims != self.unit.dims:
                raise UnitConversionError(f'Can only apply {what} to quantities with compatible dimensions')
            return other.si
        if self.unit.dims == (0, 0):
            return other
        if vprim.is_array(other) or np.isscalar(other):
            if not isinstance(other, str):
                if _is_zero(other):
                    return other
                raise UnitConversionError(f'Can only apply {what} to dimensionless quantities when other argument is not a quantity')
        raise TypeError('unsupported operand')

    def __add__(self, other):
        return self._from_si(self.si + self._same_dims(other, 'add'), self.unit)

    def __radd__(self, other):
        return self._from_si(self._same_dims(other, 'add') + self.si, self.unit)

    def __sub__(self, other):
        return self._from_si(self.si - self._same_dims(other, 'subtract'), self.unit)

    def __rsub__(self, other):
        return self._from_si(self._same_dims(other, 'subtract') - self.si, self.unit)

    def __neg__(self):
        return self._from_si(-self.si, self.unit)

    def __pos__(self):
        return self

    def __abs__(self):
        return self._from_si(abs(self.si), self.unit)

    def _np_abs(self):
        return self._from_si(np.abs(self.si), self.unit)

    def __mul__(self, other):
        if isinstance(other, Unit):
            return Quantity._from_si(self.si * other.scale, self.unit * other)
        if isinstance(other, Quantity):
            return Quantity._from_si(self.si * other.si, self.unit * other.unit)
        if isinstance(other, str) or other is None:
            raise TypeError('unsupported operand type(s) for *')
        return self._from_si(self.si * other, self.unit)

    def __rmul__(self, other):
        if isinstance(other, str) or other is None:
            raise TypeError('unsupported operand type(s) for *')
        return self._from_si(other * self.si, self.unit)

    # in-place operators mutate the Quantity itself (ndarray semantics), exactly like astropy
    def __iadd__(self, other):
        self.si = self.si + self._same_dims(other, 'add')
        return self

    def __isub__(self, other):
        self.si = self.si - self._same_dims(other, 'subtract')
        return self

    def __imul__(self, other):
        if isinstance(other, (Quantity, Unit)):
            r = self.__mul__(other)
            self.si = r.si
            self.unit = r.unit
            return self
        self.si = self.si * other
        return self

    def __truediv__(self, other):
        if isinstance(other, Unit):
            return Quantity._from_si(self.si / other.scale, self.unit / other)
        if isinstance(other, Quantity):
            return Quantity._from_si(self.si / other.si, self.unit / other.unit)
        if isinstance(other, str) or other is None:
            raise TypeError('unsupported operand type(s) for /')
        return self._from_si(self.si / other, self.unit)

    def __itruediv__(self, other):
        if isinstance(other, (Quantity, Unit)):
            r = self.__truediv__(other)
            self.si = r.si
            self.unit = r.unit
            return self
        self.si = self.si / other
        return self

    def __rtruediv__(self, other):
        inv = dimensionless_unscaled._times(self.unit, -1)
        return Quantity._from_si(other / self.si, inv)

    def __pow__(self, p):
        return Quantity._from_si(self.si ** p, self.unit ** p)

    def __lshift__(self, unit):
        return self.to(unit)

    def __ilshift__(self, unit):
        unit = _as_unit(unit)
        if self.unit.dims != unit.dims:
            raise UnitConversionError(f'{self.unit.name} and {unit.name} are not convertible')
        base = self.__dict__.get('_view_of')
        if base is not None and not (unit == self.unit):
            # this object is a reshaped VIEW of `base` (np.atleast_1d of a scalar): the shared buffer is rescaled in place, so the
            # base - which keeps its own unit - now holds the rescaled numbers
            base.si = base.si * (self.unit.scale / unit.scale)
        self.unit = unit          # in place, as astropy does: every holder of this object sees the new unit
        return self

    def __eq__(self, other):
        if isinstance(other, Quantity):
            if other.unit.dims != self.unit.dims:
                return False
            return self.si == other.si
        if other is None or isinstance(other, (str, dict, list, tuple)):
            return False
        if isinstance(other, Unit):
            return False
        if self.unit.dims == (0, 0):
            return self.si == other
        if _is_zero(other):
            return self.si == other
        return False

    def __ne__(self, other):
        r = self == other
        return np.logical_not(r)

    def _cmp_other(self, other):
        if isinstance(other, Quantity):
            if other.unit.dims != self.unit.dims:
                raise UnitConversionError('Can only compare quantities with compatible dimensions')
            return other.si
        if isinstance(other, str) or other is None:
            raise TypeError('comparison not supported')
        if self.unit.dims == (0, 0) or _is_zero(other):
            return other
        raise UnitConversionError('Can only compare dimensionless quantities with plain numbers')

    def __lt__(self, other):
        return self.si < self._cmp_other(other)

    def __le__(self, other):
        return self.si <= self._cmp_other(other)

    def __gt__(self, other):
        return self.si > self._cmp_other(other)

    def __ge__(self, other):
        return self.si >= self._cmp_other(other)

    def __bool__(self):
        raise ValueError('Quantity truthiness is ambiguous')

    def __float__(self):
        if self.unit.dims != (0, 0):
            raise TypeError('only dimensionless scalar quantities can be converted to Python scalars')
        return float(self.si)

    def __hash__(self):
        return 0

    def _np_cos(self):
        if self.unit.dims != (1, 0):
            raise UnitTypeError("Can only apply 'cos' function to quantities with angle units")
        return np.cos(self.si)

    def _np_sin(self):
        if self.unit.dims != (1, 0):
            raise UnitTypeError("Can only apply 'sin' function to quantities with angle units")
        return np.sin(self.si)

    def _np_isfinite(self):
        return np.isfinite(self.si)

    def _np_pad(self, pad_width):
        return self._from_si(np.pad(self.si, pad_width, mode='constant'), self.unit)

    def _np_atleast_1d(self):
        q = self._from_si(np.atleast_1d(self.si), self.unit)
        if not vprim.is_array(self.si):
            q._view_of = self         # numpy reshapes a 0-d array into a 1-d view of the same buffer
        return q

    def _np_hypot(self, other):
        return self._from_si(np.hypot(self.si, self._same_dims(other, 'hypot')), self.unit)

    def _np_array(self):
        return self.value

    def __format__(self, spec):
        return format(self.value, spec) + ' ' + self.unit.name

    def __str__(self):
        return str(self.value) + ' ' + self.unit.name

    def __repr__(self):
        return '<Quantity ' + str(self.value) + ' ' + self.unit.name + '>'

    def to_string(self, unit=None, precision=None, format=None, decimal=False, **kwargs):
        """A-UNITS: '<value in unit with `precision` decimals> <unit name>' - in fixed-point notation, which is what numpy's
        array2string (used by astropy) produces for precision >= 1 and 1e-4 <= |value| < 1e16 or value == 0; outside that range it
        switches to scientific notation and at precision 0 it writes a bare trailing point (found by bounded/models.py): there the
        model says nothing"""
        q = self if unit is None else self.to(unit)
        if precision is None:
            return str(q.value) + ' ' + q.unit.name
        v = q.value
        vprim.model_limit('Quantity.to_string writes fixed-point notation (precision >= 1, value 0 or 1e-4 <= |value| < 1e16)',
                          precision >= 1 and (v == 0 or (abs(v) >= 0.0001 and abs(v) < 10000000000000000)))
        return vprim.rope_fmt(v, precision) + ' ' + q.unit.name

    def copy(self):
        return self._from_si(vprim.deepcopy(self.si), self.unit)

    def item(self):
        return self.value


def _is_zero(v):
    if vprim.is_array(v) or vprim.is_symbolic(v):
        return False
    if isinstance(v, (int, float)) and not isinstance(v, bool):
        return v == 0
    return False


def _attach_unit(arr, unit):
    """`ndarray <<= unit` rebinding: a Quantity over the same values"""
    return Quantity(arr, unit)


class SpecificTypeQuantity(Quantity):
    pass
