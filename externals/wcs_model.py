"""A-WCS: assumed contract of a celestial astropy WCS, as far as astropy/regions uses it.

pixel_to_world / world_to_pixel are abstract functions W, P of the WCS identity with  P(W(x, y)) = (x, y) and
W(P(lon, lat)) = (lon, lat)  (instantiated at every call), for a fixed distortion mode; origin o in {0, 1} is the
convention  pixel(origin=o) = pixel(origin=0) + o.  Nothing is assumed about the projection itself.
For C07 only, `local_linear` adds the local-similarity model of an undistorted WCS (see contracts/c07_wcs.py)."""
import vprim
import numpy as np
import astropy.units as u
from astropy.units import Quantity
from astropy.coordinates import SkyCoord


class WCS:
    def __init__(self, wid, frame='icrs'):
        self.wid = wid
        self.frame = frame

    # ---- scalar maps -------------------------------------------------------------------------------------------
    def _w(self, x, y, mode):
        lon = vprim.uf('w_lon_' + mode, 'real', self.wid, x, y)
        lat = vprim.uf('w_lat_' + mode, 'real', self.wid, x, y)
        vprim.fact(vprim.uf('p_x_' + mode, 'real', self.wid, lon, lat) == x)
        vprim.fact(vprim.uf('p_y_' + mode, 'real', self.wid, lon, lat) == y)
        return lon, lat

    def _p(self, lon, lat, mode):
        x = vprim.uf('p_x_' + mode, 'real', self.wid, lon, lat)
        y = vprim.uf('p_y_' + mode, 'real', self.wid, lon, lat)
        vprim.fact(vprim.uf('w_lon_' + mode, 'real', self.wid, x, y) == lon)
        vprim.fact(vprim.uf('w_lat_' + mode, 'real', self.wid, x, y) == lat)
        return x, y

    # ---- astropy entry points ----------------------------------------------------------------------------------
    def _pixel_to_world(self, xp, yp, origin, mode):
        if origin not in (0, 1):
            vprim.unsupported('origin other than 0 or 1')
        if mode not in ('all', 'wcs'):
            raise ValueError('mode must be all or wcs')
        if vprim.is_array(xp):
            w = self
            lon = vprim.arr_like(xp, lambda *i: w._w(vprim.arr_at(xp, *i) - origin, vprim.arr_at(yp, *i) - origin, mode)[0])
            lat = vprim.arr_like(xp, lambda *i: w._w(vprim.arr_at(xp, *i) - origin, vprim.arr_at(yp, *i) - origin, mode)[1])
        else:
            lon, lat = self._w(xp - origin, yp - origin, mode)
        return SkyCoord._make(Quantity._from_si(lon, u.deg), Quantity._from_si(lat, u.deg), self.frame)

    def _world_to_pixel(self, sky, origin, mode):
        if origin not in (0, 1):
            vprim.unsupported('origin other than 0 or 1')
        if mode not in ('all', 'wcs'):
            raise ValueError('mode must be all or wcs')
        if sky.frame.name != self.frame:
            sky = sky.transform_to(self.frame)
        lon, lat = sky.lon.si, sky.lat.si
        if vprim.is_array(lon):
            w = self
            x = vprim.arr_like(lon, lambda *i: w._p(vprim.arr_at(lon, *i), vprim.arr_at(lat, *i), mode)[0] + origin)
            y = vprim.arr_like(lon, lambda *i: w._p(vprim.arr_at(lon, *i), vprim.arr_at(lat, *i), mode)[1] + origin)
            return x, y
        x, y = self._p(lon, lat, mode)
        return x + origin, y + origin

    def pixel_to_world(self, x, y):
        return self._pixel_to_world(x, y, 0, 'all')

    def world_to_pixel(self, sky):
        return self._world_to_pixel(sky, 0, 'all')
