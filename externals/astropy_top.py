import astropy.units as units
