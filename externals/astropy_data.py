"""A-OS: get_readable_fileobj(name) yields a handle on the (ghost) file content, transparently decompressing gzip"""
import vprim


class _Handle:
    def __init__(self, content):
        self._content = content
        self._pos = 0

    def read(self, n=None):
        if n is None:
            return self._content
        return self._content[:n]

    def readline(self):
        idx = self._content.find('\n')
        if idx == -1:
            line = self._content
            self._content = ''
        else:
            line = self._content[:idx + 1]
            self._content = self._content[idx + 1:]
        return line

    def tell(self):
        return 0

    def seek(self, pos):
        return None


class _CM:
    def __init__(self, name, kwargs):
        self.name = name

    def __enter__(self):
        fs = vprim.ghost().get('files', None)
        if fs is None or self.name not in fs:
            raise FileNotFoundError(self.name)
        return _Handle(fs[self.name])

    def __exit__(self, *args):
        return False


def get_readable_fileobj(name_or_obj, encoding=None, cache=False, **kwargs):
    return _CM(name_or_obj, kwargs)
