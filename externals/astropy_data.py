"""A-OS: get_readable_fileobj(name) yields a handle on the (ghost) file content, transparently decompressing gzip"""
import vprim
from externals.os_model import files


class _Handle:
    def __init__(self, content):
        self._content = content

    def read(self, n=None):
        if n is None:
            return self._content
        return self._content[:n]

    def readline(self):
        line, rest = vprim.split_first_line(self._content)
        self._content = rest
        return line

    def tell(self):
        return 0

    def seek(self, pos):
        return None


class _CM:
    def __init__(self, name):
        self.name = name

    def __enter__(self):
        fs = files()
        if self.name not in fs:
            raise FileNotFoundError(self.name)
        c = fs[self.name]['content']
        if not vprim.is_text(c):
            return _Handle(vprim.uf_text('binary', c))       # a binary (FITS) file: bytes that are no region text
        return _Handle(c)

    def __exit__(self, *args):
        return False


def get_readable_fileobj(name_or_obj, encoding=None, cache=False, **kwargs):
    return _CM(name_or_obj)
