"""A-WCS (astropy.wcs.utils): quantities of the WCS at its *reference pixel*; nothing relates them to the local scale elsewhere
(for a tangent-plane image they differ by the projection's distortion), so code that uses them in place of the local scale cannot
establish the local-scale clauses of C07."""
import vprim
import numpy as np


def proj_plane_pixel_scales(wcs):
    sx = vprim.uf('w_refscale_x', 'real', wcs.wid)
    sy = vprim.uf('w_refscale_y', 'real', wcs.wid)
    vprim.fact(sx > 0)
    vprim.fact(sy > 0)
    return np.array([sx, sy])


def proj_plane_pixel_area(wcs):
    a = vprim.uf('w_refarea', 'real', wcs.wid)
    vprim.fact(a > 0)
    return a


def pixel_to_skycoord(xp, yp, wcs, origin=0, mode='all', cls=None):
    return wcs._pixel_to_world(xp, yp, origin, mode)


def skycoord_to_pixel(coords, wcs, origin=0, mode='all'):
    return wcs._world_to_pixel(coords, origin, mode)


def wcs_to_celestial_frame(wcs):
    """the celestial frame the WCS's world coordinates are expressed in"""
    from astropy.coordinates import frame_of
    return frame_of(wcs.frame)
