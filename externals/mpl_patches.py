"""A-MPL: assumed geometry of matplotlib patches (documented meaning of their constructor arguments).
Circle(xy, radius): disk;  Ellipse(xy, width, height, angle[deg]): ellipse with FULL axes width/height rotated anti-clockwise
about its centre xy;  Rectangle(xy, width, height, angle[deg]): rectangle with lower-left corner xy, rotated anti-clockwise
about that corner;  Polygon(xy): closed polygon through the (n, 2) vertex array;  Arrow(x, y, dx, dy): from (x, y) to (x+dx, y+dy);
PathPatch(path).  A patch's outline as a Path is an abstract vertex/code array pair (get_path / get_transform)."""
import vprim
import numpy as np


class Patch:
    def _store(self, kwargs):
        self.kwargs = dict(kwargs)

    def get_path(self):
        return Path(vprim.abstract_path_vertices(self), vprim.abstract_path_codes(self))

    def get_transform(self):
        return _Transform(self)


class _Transform:
    def __init__(self, patch):
        self.patch = patch

    def transform_path(self, path):
        """data-space outline of the patch: an abstract closed polyline (vertices (n, 2), codes (n,))"""
        return Path(vprim.abstract_outline_vertices(self.patch), vprim.abstract_outline_codes(self.patch), owner=self.patch)


class Path:
    def __init__(self, vertices, codes=None, owner=None):
        self.vertices = vertices
        self.codes = codes
        self.owner = owner


class Circle(Patch):
    def __init__(self, xy, radius=5, **kwargs):
        self.xy = xy
        self.radius = radius
        self._store(kwargs)


class Ellipse(Patch):
    def __init__(self, xy, width, height, angle=0, **kwargs):
        self.xy = xy
        self.width = width
        self.height = height
        self.angle = angle
        self._store(kwargs)


class Rectangle(Patch):
    def __init__(self, xy, width, height, angle=0.0, rotation_point='xy', **kwargs):
        self.xy = xy
        self.width = width
        self.height = height
        self.angle = angle
        self.rotation_point = rotation_point
        self._store(kwargs)


class Polygon(Patch):
    def __init__(self, xy, closed=True, **kwargs):
        self.xy = xy
        self.closed = closed
        self._store(kwargs)


class Arrow(Patch):
    def __init__(self, x, y, dx, dy, width=1.0, **kwargs):
        self.x = x
        self.y = y
        self.dx = dx
        self.dy = dy
        self.width = width
        self._store(kwargs)


class PathPatch(Patch):
    def __init__(self, path, **kwargs):
        self.path = path
        self._store(kwargs)
