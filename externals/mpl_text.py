"""A-MPL: Text(x, y, text, **kwargs) anchors the string at (x, y)"""


class Text:
    def __init__(self, x=0, y=0, text='', **kwargs):
        self.x = x
        self.y = y
        self.text = text
        self.kwargs = dict(kwargs)
