"""A-PY (functools): the memoising decorators really memoise - the same object is handed out again, for equal arguments, for the rest
of the process; that is what makes them observable (and what a check of "no dependence on history" has to see)."""


class cached_property:
    def __init__(self, func):
        self.func = func
        self._key = func.__name__

    def __set_name__(self, owner, name):
        self._key = name

    def __get__(self, obj, owner=None):
        if obj is None:
            return self
        d = obj.__dict__
        if self._key in d:
            return d[self._key]
        val = self.func(obj)
        d[self._key] = val
        return val


class _Memo:
    def __init__(self, func, maxsize):
        self.func = func
        self.table = {}
        self.__name__ = getattr(func, '__name__', 'memo')
        self.__wrapped__ = func

    def __call__(self, *args, **kwargs):
        key = (args, tuple(sorted(kwargs.items())))
        if key in self.table:
            return self.table[key]
        val = self.func(*args, **kwargs)
        self.table[key] = val
        return val

    def cache_clear(self):
        self.table.clear()


def lru_cache(maxsize=128, typed=False):
    if callable(maxsize):
        return _Memo(maxsize, 128)

    def deco(func):
        return _Memo(func, maxsize)
    return deco


def cache(func):
    return _Memo(func, None)


def wraps(wrapped):
    def deco(func):
        return func
    return deco


def partial(func, *args, **kwargs):
    def call(*more, **kw):
        merged = dict(kwargs)
        merged.update(kw)
        return func(*(args + more), **merged)
    return call


def reduce(function, iterable, *initial):
    it = list(iterable)
    if initial:
        acc = initial[0]
    else:
        acc = it[0]
        it = it[1:]
    for x in it:
        acc = function(acc, x)
    return acc
