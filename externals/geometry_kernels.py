"""assumed contracts of the compiled mask kernels regions/_geometry/*_overlap_grid (Cython; cannot be rebuilt here).
Each returns an (ny, nx) float array whose element [j, i] is the abstract per-pixel fraction FRAC of the pixel
[xmin + i*dx, xmin + (i+1)*dx] x [ymin + j*dy, ymin + (j+1)*dy] (dx = (xmax-xmin)/nx, dy = (ymax-ymin)/ny);
FRAC is the sampled membership fraction (use_exact = 0) or the exact overlap fraction (use_exact = 1).
For use_exact = 0 this contract is DISCHARGED from the kernels' .pyx text (contracts/k_kernels.py: every pixel of every grid holds
its sampled fraction; the fraction lies in [0, 1]; with one sample it is the membership of the pixel centre); exact mode stays assumed.  rectangle/polygon kernels raise NotImplementedError for use_exact = 1."""
import vprim


def _grid(kind, xmin, xmax, ymin, ymax, nx, ny, params, use_exact, subpixels):
    for v in (xmin, xmax, ymin, ymax):
        if not isinstance(v, (int, float)):
            raise TypeError('a float is required')
    if not isinstance(nx, int) or not isinstance(ny, int) or not isinstance(use_exact, int) or not isinstance(subpixels, int):
        raise TypeError('an integer is required')
    if nx < 0 or ny < 0:
        raise ValueError('negative dimensions are not allowed')
    vprim.oblige('kernel.grid spans nx x ny unit pixels', vprim.implies(nx > 0 and ny > 0, xmax - xmin == nx and ymax - ymin == ny))

    def elem(j, i):
        dx = (xmax - xmin) / nx
        dy = (ymax - ymin) / ny
        v = vprim.uf('frac_' + kind, 'real', xmin + i * dx, ymin + j * dy, dx, dy, use_exact, subpixels, *params)
        vprim.fact(0 <= v and v <= 1)                       # a fraction
        if use_exact == 0 and subpixels == 1:
            # one sample: member or not (derived from the definition of FRAC, which makes it the membership of the pixel centre:
            # contracts/k_kernels.py::lemma_one_sample_gives_zero_or_one; only the consequence needed here is stated, the full
            # definition made unrelated nonlinear proofs several times slower)
            vprim.fact(v == 0 or v == 1)
        return v
    return vprim.arr_from_fn((ny, nx), elem, 'float')


def circular_overlap_grid(xmin, xmax, ymin, ymax, nx, ny, r, use_exact, subpixels):
    return _grid('circle', xmin, xmax, ymin, ymax, nx, ny, (r,), use_exact, subpixels)


def elliptical_overlap_grid(xmin, xmax, ymin, ymax, nx, ny, rx, ry, theta, use_exact, subpixels):
    return _grid('ellipse', xmin, xmax, ymin, ymax, nx, ny, (rx, ry, vprim.cos(theta), vprim.sin(theta)), use_exact, subpixels)


def rectangular_overlap_grid(xmin, xmax, ymin, ymax, nx, ny, width, height, theta, use_exact, subpixels):
    if use_exact == 1:
        raise NotImplementedError('Exact mode has not been implemented for rectangular apertures')
    return _grid('rectangle', xmin, xmax, ymin, ymax, nx, ny, (width, height, vprim.cos(theta), vprim.sin(theta)), use_exact, subpixels)


def polygonal_overlap_grid(xmin, xmax, ymin, ymax, nx, ny, vx, vy, use_exact, subpixels):
    if use_exact == 1:
        raise NotImplementedError('Exact mode has not been implemented for polygonal apertures')
    if not (vprim.is_array(vx) and vprim.is_array(vy)) or vprim.dtype_of(vx) != 'float' or vprim.dtype_of(vy) != 'float':
        raise ValueError("Buffer dtype mismatch, expected 'DTYPE_t'")
    return _grid('polygon', xmin, xmax, ymin, ymax, nx, ny, (vx, vy), use_exact, subpixels)
