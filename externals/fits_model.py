"""A-FITS: assumed contract of astropy.io.fits used by the FITS region reader/writer"""
import vprim
import os
from externals.os_model import files


class BinTableHDU:
    def __init__(self, data=None, header=None, name=None):
        if header is not None:
            for k in header:
                v = header[k]
                # a FITS card holds an ASCII string, a number, a boolean or nothing (astropy raises ValueError otherwise)
                if not (v is None or isinstance(v, (str, int, float, bool))) or (isinstance(v, str) and not v.isascii()):
                    raise ValueError('Illegal value: ' + repr(v))
        self._table = data
        self.header = header
        self.name = 'REGION' if header is None or 'EXTNAME' not in header else header['EXTNAME']

    def writeto(self, filename, overwrite=False, **kwargs):
        """raises OSError before touching an existing file unless overwrite"""
        if os.path.exists(filename) and not overwrite:
            raise OSError('File ' + str(filename) + ' already exists.')
        vprim.event('fs', op='fits.writeto', path=filename)
        files()[filename] = {'content': self, 'gz': False}


class _HDUL:
    def __init__(self, hdus):
        self._hdus = hdus

    def __enter__(self):
        return self._hdus

    def __exit__(self, *args):
        return False


def open(filename, cache=False, **kwargs):
    fs = files()
    if filename not in fs:
        raise FileNotFoundError(filename)
    hdu = fs[filename]['content']
    if not isinstance(hdu, BinTableHDU):
        raise OSError('not a FITS file')
    return _HDUL([hdu])
