"""A-FITS: assumed contract of astropy.io.fits used by the FITS region reader/writer"""
import vprim


class BinTableHDU:
    def __init__(self, data=None, header=None, name=None):
        self._table = data
        self.header = header
        self.name = 'REGION' if header is None or 'EXTNAME' not in header else header['EXTNAME']

    def writeto(self, filename, overwrite=False, **kwargs):
        """raises OSError before touching an existing file unless overwrite"""
        vprim.event('fs', op='fits.writeto', path=filename, overwrite=overwrite, table=self._table)
        fs = vprim.ghost().setdefault('files', {})
        import os
        if os.path.exists(filename) and not overwrite:
            raise OSError('File ' + str(filename) + ' already exists.')
        fs[filename] = self


class _HDUL:
    def __init__(self, hdus):
        self._hdus = hdus

    def __enter__(self):
        return self._hdus

    def __exit__(self, *args):
        return False


def open(filename, cache=False, **kwargs):
    fs = vprim.ghost().get('files', None)
    if fs is None or filename not in fs:
        raise FileNotFoundError(filename)
    hdu = fs[filename]
    if not isinstance(hdu, BinTableHDU):
        raise OSError('not a FITS file')
    return _HDUL([hdu])
