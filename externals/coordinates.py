"""A-UNITS / A-WCS: assumed contract of astropy.coordinates (only what astropy/regions uses).
A SkyCoord is (lon, lat, frame name); lon/lat are angle Quantities (scalar or array)."""
import vprim
import numpy as np
import astropy.units as u
from astropy.units import Quantity


class Angle(Quantity):
    def __init__(self, angle, unit=None, dtype=None, copy=True):
        if isinstance(angle, Quantity):
            if unit is None:
                unit = angle.unit
            unit = u._as_unit(unit)
            if angle.unit.dims != (1, 0) or unit.dims != (1, 0):
                raise u.UnitTypeError('Angle instances require units equivalent to radian')
            self.si = angle.si
            self.unit = unit
            return
        if unit is not None and u._as_unit(unit) is u.hour:
            unit = u.hourangle          # Angle reads the time unit `hour` as the angular unit `hourangle` (documented astropy behaviour)
        if vprim.is_text(angle):
            value, unit = _parse_angle_text(angle, unit)
            Quantity.__init__(self, value, unit)
            return
        if unit is None:
            raise u.UnitsError('No unit was specified')
        unit = u._as_unit(unit)
        if unit.dims != (1, 0):
            raise u.UnitTypeError('Angle instances require units equivalent to radian')
        Quantity.__init__(self, angle, unit)

    def to_string(self, unit=None, decimal=False, sep='fromunit', precision=None, **kwargs):
        """A-UNITS: decimal rendering is '<value in unit with `precision` decimals>' without a unit suffix"""
        if not decimal:
            vprim.unsupported('sexagesimal Angle.to_string')
        q = self if unit is None else self.to(unit)
        return vprim.rope_fmt(q.value, precision)


def _parse_angle_text(text, unit):
    """A-UNITS: Angle('<number>', unit), Angle('a:b:c', unit) = sign * (a + b/60 + c/3600) unit,
    Angle('XhYmZs') in hours and Angle('XdYmZs') in degrees (unit taken from the text)"""
    pieces = vprim.fmt_pieces(text)
    if len(pieces) == 1 and isinstance(pieces[0], str):
        s = pieces[0]
        if ':' not in s and 'h' not in s and 'd' not in s:
            if unit is None:
                raise u.UnitsError('No unit was specified')
            return float(s), u._as_unit(unit)
        for name in ('deg', 'rad', 'arcmin', 'arcsec'):
            if s.endswith(name) and s[:-len(name)].replace('.', '', 1).lstrip('+-').isdigit():
                return float(s[:-len(name)]), u._as_unit(name)          # '<number><unit name>'
        vprim.unsupported('sexagesimal Angle from concrete text (use the native check)')
    sign = 1
    if isinstance(pieces[0], str):
        if pieces[0] == '-':
            sign = -1
            pieces = pieces[1:]
        elif pieces[0] == '+':
            pieces = pieces[1:]
        else:
            raise ValueError('Cannot parse angle')
    nums = [p for p in pieces if not isinstance(p, str)]
    seps = [p for p in pieces if isinstance(p, str)]
    vals = [vprim.piece_value(p) for p in nums]
    if len(nums) == 1 and seps == []:
        if unit is None:
            raise u.UnitsError('No unit was specified')
        return sign * vals[0], u._as_unit(unit)
    if len(nums) == 1 and len(seps) == 1 and len(pieces) == 2 and isinstance(pieces[1], str) and pieces[1] in ('deg', 'rad', 'arcmin', 'arcsec', 'd'):
        # '<number><unit name>': the unit is read from the text
        return sign * vals[0], u._as_unit('deg' if pieces[1] == 'd' else pieces[1])
    if len(nums) == 3 and seps == [':', ':']:
        if unit is None:
            raise u.UnitsError('No unit was specified')
        _check_sexagesimal(nums, vals, u._as_unit(unit) == u.hourangle)
        return sign * (vals[0] + vals[1] / 60 + vals[2] / 3600), u._as_unit(unit)
    if len(nums) == 3 and seps == ['h', 'm', 's']:
        _check_sexagesimal(nums, vals, True)
        return sign * (vals[0] + vals[1] / 60 + vals[2] / 3600), u.hourangle
    if len(nums) == 3 and seps == ['d', 'm', 's']:
        _check_sexagesimal(nums, vals, False)
        return sign * (vals[0] + vals[1] / 60 + vals[2] / 3600), u.deg
    raise ValueError('Cannot parse angle')


def _check_sexagesimal(nums, vals, hours):
    """astropy's field rules (found by running this model next to astropy, bounded/models.py): the first two fields are integer
    numerals; minutes and seconds above 60 and hours above 24 are refused with a ValueError (IllegalMinuteError,
    IllegalSecondError, IllegalHourError); exactly 60 / 24 is accepted (with a warning)"""
    for p in nums[:2]:
        dots = p[4] if len(p) > 4 else None
        if dots is None and p[3] == 'f':
            dots = 1 if p[2] else 0
        if dots is None:
            vprim.unsupported('sexagesimal field numeral of unknown form (integer or with a decimal point)')
        if dots:
            raise ValueError('Cannot parse angle: fractional hours/degrees or minutes field')
    if vals[1] > 60:
        raise ValueError('IllegalMinuteError')
    if vals[2] > 60:
        raise ValueError('IllegalSecondError')
    if hours and vals[0] > 24:
        raise ValueError('IllegalHourError')


class Longitude(Angle):
    pass


class Latitude(Angle):
    pass


class _Frame:
    def __init__(self, name):
        self.name = name


class _Spherical:
    def __init__(self, lon, lat):
        self.lon = lon
        self.lat = lat


class SkyCoord:
    def __init__(self, *args, frame='icrs', unit=None, **kwargs):
        if len(args) == 1 and isinstance(args[0], SkyCoord):
            self.lon = args[0].lon
            self.lat = args[0].lat
            self.frame = args[0].frame
            return
        if len(args) != 2:
            vprim.unsupported('SkyCoord constructor form')
        lon, lat = args
        if isinstance(frame, _Frame):
            frame = frame.name
        if not isinstance(lon, Quantity) or not isinstance(lat, Quantity):
            if unit is None:
                raise u.UnitTypeError('Longitude/Latitude need units')
            unit = u._as_unit(unit)
            lon = Quantity(lon, unit)
            lat = Quantity(lat, unit)
        if lon.unit.dims != (1, 0) or lat.unit.dims != (1, 0):
            raise u.UnitTypeError('SkyCoord angles need angular units')
        self.lon = lon
        self.lat = lat
        self.frame = _Frame(frame)

    @classmethod
    def _make(cls, lon, lat, framename):
        s = object.__new__(cls)
        s.lon = lon
        s.lat = lat
        s.frame = _Frame(framename)
        return s

    @property
    def isscalar(self):
        return self.lon.isscalar

    @property
    def ndim(self):
        return self.lon.ndim

    @property
    def shape(self):
        return self.lon.shape

    @property
    def name(self):
        return self.frame.name

    @property
    def spherical(self):
        return _Spherical(self.lon, self.lat)

    @property
    def ra(self):
        return self.lon

    @property
    def dec(self):
        return self.lat

    def __len__(self):
        return len(self.lon)

    def __getitem__(self, key):
        return SkyCoord._make(self.lon[key], self.lat[key], self.frame.name)

    def __eq__(self, other):
        if not isinstance(other, SkyCoord):
            return False
        if other.frame.name != self.frame.name:
            raise TypeError('cannot compare: objects must have equivalent frames')
        return (self.lon == other.lon) & (self.lat == other.lat)

    def __ne__(self, other):
        return np.logical_not(self == other)

    def __hash__(self):
        return 0

    def to_pixel(self, wcs, origin=0, mode='all'):
        return wcs._world_to_pixel(self, origin, mode)

    @classmethod
    def from_pixel(cls, xp, yp, wcs, origin=0, mode='all'):
        return wcs._pixel_to_world(xp, yp, origin, mode)

    def directional_offset_by(self, position_angle, separation):
        """A-WCS: the point `separation` away from self towards position angle (0 = local north): abstract functions of
        (lon, lat, pa, sep); the point at zero separation is self"""
        if isinstance(position_angle, Quantity):
            pa = position_angle.si
        else:
            pa = position_angle
        sep = separation.si
        lon = Quantity._from_si(vprim.uf('offset_lon', 'real', self.lon.si, self.lat.si, pa, sep), self.lon.unit)
        lat = Quantity._from_si(vprim.uf('offset_lat', 'real', self.lon.si, self.lat.si, pa, sep), self.lat.unit)
        return SkyCoord._make(lon, lat, self.frame.name)

    def transform_to(self, frame):
        name = frame.name if isinstance(frame, _Frame) else frame
        if isinstance(frame, _FrameClass):
            name = frame.name
        if name == self.frame.name:
            return self
        lon = Quantity._from_si(vprim.uf('tr_lon_' + self.frame.name + '_' + name, 'real', self.lon.si, self.lat.si), self.lon.unit)
        lat = Quantity._from_si(vprim.uf('tr_lat_' + self.frame.name + '_' + name, 'real', self.lon.si, self.lat.si), self.lat.unit)
        return SkyCoord._make(lon, lat, name)

    def to_string(self, style='decimal', precision=None, **kwargs):
        """A-UNITS: decimal style: '<lon deg> <lat deg>' with `precision` decimals (one string per coordinate)"""
        if style != 'decimal':
            vprim.unsupported('SkyCoord.to_string style')
        if self.isscalar:
            return vprim.rope_fmt(self.lon.to_value('deg'), precision) + ' ' + vprim.rope_fmt(self.lat.to_value('deg'), precision)
        return [vprim.rope_fmt(self.lon[i].to_value('deg'), precision) + ' ' + vprim.rope_fmt(self.lat[i].to_value('deg'), precision)
                for i in range(len(self.lon))]

    def copy(self):
        return SkyCoord._make(self.lon, self.lat, self.frame.name)


class _FrameClass:
    def __init__(self, name):
        self.name = name

    def __call__(self, rep):
        return SkyCoord._make(rep.lon, rep.lat, self.name)


class UnitSphericalRepresentation:
    def __init__(self, lon, lat):
        self.lon = lon
        self.lat = lat


_FRAMES = ('icrs', 'fk5', 'fk4', 'galactic', 'supergalactic', 'geocentrictrueecliptic', 'barycentricmeanecliptic',
           'fk4noeterms', 'gcrs', 'cirs', 'itrs', 'altaz', 'hcrs', 'precessedgeocentric', 'galactocentric',
           'heliocentrictrueecliptic', 'barycentrictrueecliptic', 'geocentricmeanecliptic', 'heliocentricmeanecliptic')


class _Graph:
    def lookup_name(self, name):
        if name not in _FRAMES:
            return None
        return _FrameClass(name)

    def get_names(self):
        return list(_FRAMES)


frame_transform_graph = _Graph()


def frame_of(name):
    """(model helper) the frame object with this name"""
    return _Frame(name)
