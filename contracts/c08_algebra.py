"""C08: the operators build compounds carrying exactly and/or/xor and their operands; compound membership / masks / boxes are the
operation applied to the operands (see c01, c02, c04 contracts tagged C08); the operation commutes with rotation and with
pixel<->sky conversion; annulus area = outer area - inner area; annulus answers follow later parameter assignments"""
from pyvc.api import contract
from contracts.common import (CIRCLE, ELLIPSE, RECTANGLE, CIRCLE_ANN, ELLIPSE_ANN, RECT_ANN, COMPOUND, OPS, pix, circle, circle_ok,
                              ellipse, ellipse_ok, circle_annulus, circle_annulus_ok, asym_annulus, asym_annulus_ok, anyregion,
                              compound, operator_of, mk_meta, mk_visual, query)
from contracts.c16_values import rich_meta, rich_visual
from contracts.c06_sky import sky_region, sky_wf, nondegenerate, pixcoord_of
from contracts.c17_validation import sky
from vprim import PI, implies

OPNAMES = {'and': 'and_', 'or': 'or_', 'xor': 'xor'}


def apply_op(a, b, how):
    if how == 'and':
        return a & b
    if how == 'or':
        return a | b
    if how == 'xor':
        return a ^ b
    if how == 'intersection':
        return a.intersection(b)
    if how == 'union':
        return a.union(b)
    return a.symmetric_difference(b)


EXPECT = {'and': 'and_', 'intersection': 'and_', 'or': 'or_', 'union': 'or_', 'xor': 'xor', 'symmetric_difference': 'xor'}


@contract('regions/core/core.py::Region.__and__', props=['C08'])
class set_operators_build_compounds:
    cases = {k + '-' + h: {'kind': k, 'how': h} for k in ('pixel', 'sky') for h in EXPECT}

    def setup(B, kind='pixel', how='and'):
        if kind == 'pixel':
            a, b = circle(B, 'a', 'bool'), ellipse(B, 'b', 'bool')
        else:
            a, b = sky_region(B, 'circle', 'a', simple=True), sky_region(B, 'ellipse', 'b', simple=True)
        return dict(a=a, b=b, kind=kind, how=how)
    call = lambda a, b, how: apply_op(a, b, how)
    post = {
        'compound_of_the_right_kind': lambda kind, result:
            result.__class__.__name__ == ('CompoundPixelRegion' if kind == 'pixel' else 'CompoundSkyRegion'),
        'operands_in_order': lambda a, b, result: result.region1 is a and result.region2 is b,
        'operator': lambda how, result: result.operator is operator_of(EXPECT[how]),
        'membership_not_negated_by_default': lambda a, result: dict(result.meta) == dict(a.meta),
    }


@contract(COMPOUND, props=['C08', 'C17', 'C16', 'C01'])
class compound_constructor:
    cases = {'ok': {'what': 'ok'}, 'operand_not_region': {'what': 'operand_not_region'}, 'operator_not_callable': {'what': 'operator_not_callable'},
             'sky_operand': {'what': 'sky_operand'}, 'empty_meta': {'what': 'empty_meta'}, 'default_meta': {'what': 'default_meta'}}

    def setup(B, what='ok'):
        a, b = circle(B, 'a', 'bool'), circle(B, 'b')
        if what in ('empty_meta', 'default_meta'):
            from contracts.common import META, VISUAL
            a.visual['color'] = 'red'
            # an explicitly supplied empty meta / visual is a value like any other; only None means "take region1's"
            return dict(region1=a, region2=b, operator=operator_of('or_'), meta=B.meta(META, 'm') if what == 'empty_meta' else None,
                        visual=B.meta(VISUAL, 'v') if what == 'empty_meta' else None, what=what)
        op = operator_of('and_')
        if what == 'operand_not_region':
            b = 3
        if what == 'operator_not_callable':
            op = 'and'
        if what == 'sky_operand':
            b = sky_region(B, 'circle', 'b', simple=True)
        return dict(region1=a, region2=b, operator=op, meta=rich_meta(B, 'm'), visual=rich_visual(B, 'v'), what=what)
    raises = {'ValueError': lambda what: what in ('operand_not_region', 'sky_operand'), 'TypeError': lambda what: what == 'operator_not_callable'}
    post = {'stores': lambda region1, region2, operator, meta, visual, what, result:
            result.region1 is region1 and result.region2 is region2 and result.operator is operator
            and dict(result.meta) == dict(meta if what != 'default_meta' else region1.meta)
            and dict(result.visual) == dict(visual if what != 'default_meta' else region1.visual)}


@contract(COMPOUND + '.rotate', props=['C08', 'C15', 'C13'])
class compound_rotate_commutes:
    cases = {op: {'op': op} for op in OPS}

    def setup(B, op='and_'):
        c = B.new(COMPOUND, label='c', region1=circle(B, 'r1', 'bool'), region2=ellipse(B, 'r2', 'bool'), _operator=operator_of(op),
                  meta=rich_meta(B, 'c.meta'), visual=rich_visual(B, 'c.visual'))
        return dict(self=c, center=pix(B, 'o'), angle=B.quantity('theta', 'deg'), p=pix(B, 'p'), op=op)
    pre = lambda self: circle_ok(self.region1) and ellipse_ok(self.region2)
    post = {
        'same_class_operator': lambda self, result: result.__class__ is self.__class__ and result.operator is self.operator,
        'own_meta_kept_fresh': lambda self, result:
            dict(result.meta) == dict(self.meta) and dict(result.visual) == dict(self.visual)
            and result.meta is not self.meta and result.visual is not self.visual,
        'components_rotated': lambda self, center, angle, result:
            result.region1 == self.region1.rotate(center, angle) and result.region2 == self.region2.rotate(center, angle),
        'membership_follows': lambda self, center, angle, p, result:
            bool(result.contains(p.rotate(center, angle))) == bool(self.contains(p)),
    }


@contract(COMPOUND + '.to_sky', props=['C08', 'C06', 'C13'])
class compound_conversion_commutes:
    cases = {op: {'op': op} for op in OPS}

    def setup(B, op='and_'):
        c = B.new(COMPOUND, label='c', region1=circle(B, 'r1', 'bool'), region2=circle(B, 'r2', 'bool'), _operator=operator_of(op),
                  meta=rich_meta(B, 'c.meta'), visual=rich_visual(B, 'c.visual'))
        wcs = B.wcs('w')
        nondegenerate(B, wcs, c.region1.center.x, c.region1.center.y)
        nondegenerate(B, wcs, c.region2.center.x, c.region2.center.y)
        return dict(self=c, wcs=wcs, sc=sky(B, 'q'))
    pre = lambda self: circle_ok(self.region1) and circle_ok(self.region2)
    post = {
        'sky_compound_same_operator': lambda self, result:
            result.__class__.__name__ == 'CompoundSkyRegion' and result.operator is self.operator,
        'own_meta_kept': lambda self, result: dict(result.meta) == dict(self.meta) and dict(result.visual) == dict(self.visual)
            and result.meta is not self.meta,
        'components_converted': lambda self, wcs, result:
            result.region1 == self.region1.to_sky(wcs) and result.region2 == self.region2.to_sky(wcs),
        'membership_equals_pixel_membership': lambda self, wcs, sc, result:
            bool(result.contains(sc, wcs)) == bool(self.contains(pixcoord_of(wcs, sc))),
    }


@contract(CIRCLE_ANN + '.area', props=['C08'])
class annulus_area:
    cases = {'circle': {'kind': 'circle'}, 'ellipse': {'kind': 'ellipse'}, 'rectangle': {'kind': 'rectangle'}}

    def setup(B, kind='circle'):
        r = circle_annulus(B, 'r') if kind == 'circle' else asym_annulus(B, 'r', ELLIPSE_ANN if kind == 'ellipse' else RECT_ANN)
        return dict(self=r, kind=kind)
    pre = lambda self, kind: circle_annulus_ok(self) if kind == 'circle' else asym_annulus_ok(self)
    call = lambda self: self.area
    post = {'outer_minus_inner': lambda self, kind, result: result == spec_area(self, kind)}


def spec_area(r, kind):
    if kind == 'circle':
        return PI * r.outer_radius * r.outer_radius - PI * r.inner_radius * r.inner_radius
    if kind == 'ellipse':
        return PI / 4 * r.outer_width * r.outer_height - PI / 4 * r.inner_width * r.inner_height
    return r.outer_width * r.outer_height - r.inner_width * r.inner_height


@contract(CIRCLE + '.area', props=['C08', 'C15'])
class simple_areas:
    cases = {'circle': {'kind': 'circle'}, 'ellipse': {'kind': 'ellipse'}, 'rectangle': {'kind': 'rectangle'}}

    def setup(B, kind='circle'):
        from contracts.common import rectangle
        return dict(self=circle(B, 'r') if kind == 'circle' else (ellipse(B, 'r') if kind == 'ellipse' else rectangle(B, 'r')), kind=kind)
    call = lambda self: self.area
    post = {'formula': lambda self, kind, result: result == (
        PI * self.radius * self.radius if kind == 'circle' else (PI / 4 * self.width * self.height if kind == 'ellipse' else self.width * self.height))}


def _reassign_annulus(self, p, c2, ri2, ro2):
    before = self.contains(p)
    m0 = self.to_mask()
    self.center = c2
    self.inner_radius = ri2
    self.outer_radius = ro2
    fresh = self.__class__(self.center, self.inner_radius, self.outer_radius, self.meta, self.visual)
    return (before, self.contains(p), fresh.contains(p), self.to_mask(), fresh.to_mask(), self.bounding_box)


@contract(CIRCLE_ANN + '.contains', props=['C08', 'C13', 'C02', 'C01'])
class annulus_follows_assignment:
    max_paths = 8         # three masks of two circles each: a change that makes mask code branch would otherwise multiply paths (2^6)

    def setup(B):
        return dict(self=circle_annulus(B, 'r', 'bool'), p=pix(B, 'p'), c2=pix(B, 'c2'), ri2=B.real('ri2'), ro2=B.real('ro2'))
    pre = lambda self, ri2, ro2: circle_annulus_ok(self) and 0 < ri2 and ri2 < ro2
    call = lambda self, p, c2, ri2, ro2: _reassign_annulus(self, p, c2, ri2, ro2)
    modifies = ('r',)
    forall = {'i': 'int', 'j': 'int'}
    post = {'membership_is_function_of_current_parameters': lambda result: bool(result[1]) == bool(result[2]),
            # the mask made after the assignment is the mask of the annulus as it is now: same box as a freshly built one (and as
            # bounding_box reports), same values
            'mask_is_function_of_current_parameters': lambda result, i, j:
                result[3].bbox == result[4].bbox and result[3].bbox == result[5] and (
                    (not (0 <= i and i < result[4].bbox.ixmax - result[4].bbox.ixmin and 0 <= j and j < result[4].bbox.iymax - result[4].bbox.iymin
                          and i < result[3].bbox.ixmax - result[3].bbox.ixmin and j < result[3].bbox.iymax - result[3].bbox.iymin))
                    or result[3].data[j, i] == result[4].data[j, i])}
