"""C10 (token lexers): every coordinate / size / angle token of the DS9 grammar is read with the value the DS9 conventions give
it, for all numeric values: pixel positions are 1-based, pixel sizes unshifted, bare sky numbers are degrees, suffixes " ' d r i,
sexagesimal a:b:c longitudes are hours for equatorial frames only, XhYmZs / XdYmZs; wrong-kind tokens are rejected"""
from pyvc.api import contract
from vprim import exact_number_text as N, PI

READ = 'regions/io/ds9/read.py::'
FRAMES = ('icrs', 'fk5', 'j2000', 'fk4', 'b1950', 'galactic', 'ecliptic')


def tok(B, form, hours=True):
    """(token text, the numbers it is made of).  Sexagesimal notation: the first two fields are integer numerals, the third has a
    decimal point; fields are within the ranges astropy's Angle accepts (minutes, seconds <= 60; hours <= 24 where the token is in
    hours) - the DS9 convention says nothing about malformed fields, which Angle refuses with a ValueError"""
    v, c = B.real('v'), B.real('c')
    a, b = B.int('a'), B.int('b')
    B.assume(a >= 0)
    B.assume(b >= 0)
    B.assume(c >= 0)
    if hours or form == 'hms':
        B.assume(a <= 24)
    B.assume(b <= 60)
    B.assume(c <= 60)
    if form == 'bare':
        return N(v), (v,)
    if form in ('i', 'd', 'r', 'p', '"', "'"):
        return N(v) + form, (v,)
    if form == ':':
        return N(a, 0) + ':' + N(b, 0) + ':' + N(c, 1), (a, b, c)
    if form == '-:':
        return '-' + N(a, 0) + ':' + N(b, 0) + ':' + N(c, 1), (a, b, c)
    if form == 'hms':
        return N(a, 0) + 'h' + N(b, 0) + 'm' + N(c, 1) + 's', (a, b, c)
    if form == 'dms':
        return N(a, 0) + 'd' + N(b, 0) + 'm' + N(c, 1) + 's', (a, b, c)
    raise ValueError(form)


def sexa(nums):
    return nums[0] + nums[1] / 60 + nums[2] / 3600


@contract(READ + '_parse_pixel_coord', props=['C10'])
class ds9_pixel_position_token:
    cases = {f: {'form': f} for f in ('bare', 'i', 'd', 'r', 'p', ':', 'hms', 'dms')}

    def setup(B, form='bare'):
        t, nums = tok(B, form)
        return dict(param_str=t, nums=nums, form=form)
    raises = {'DS9ParserError': lambda form: form not in ('bare', 'i')}
    post = {'one_based_to_zero_based': lambda nums, result: result == nums[0] - 1}


@contract(READ + '_parse_size', props=['C10'])
class ds9_pixel_size_token:
    cases = {f: {'form': f} for f in ('bare', 'i', 'd', 'r', 'p', '"', "'")}

    def setup(B, form='bare'):
        t, nums = tok(B, form)
        return dict(region_type='pixel', param_str=t, nums=nums, form=form)
    raises = {'DS9ParserError': lambda form: form not in ('bare', 'i')}
    post = {'not_shifted': lambda nums, result: result == nums[0]}


def angle_rad(form, nums):
    v = nums[0]
    if form in ('bare', 'd'):
        return v * PI / 180
    if form == 'r':
        return v
    if form == '"':
        return v * PI / 648000
    if form == "'":
        return v * PI / 10800
    return None


@contract(READ + '_parse_angle', props=['C10'])
class ds9_angle_and_sky_size_token:
    cases = {f: {'form': f} for f in ('bare', 'd', 'r', '"', "'", 'i', 'p')}

    def setup(B, form='bare'):
        t, nums = tok(B, form)
        return dict(param_str=t, nums=nums, form=form)
    raises = {'DS9ParserError': lambda form: form in ('i', 'p')}
    post = {'value_and_unit': lambda form, nums, result: result.unit.physical_type == 'angle' and result.to_value('rad') == angle_rad(form, nums)}


@contract(READ + '_parse_size', props=['C10'])
class ds9_sky_size_token:
    cases = {f: {'form': f} for f in ('bare', 'd', 'r', '"', "'", 'i', 'p')}

    def setup(B, form='bare'):
        t, nums = tok(B, form)
        return dict(region_type='sky', param_str=t, nums=nums, form=form)
    raises = {'DS9ParserError': lambda form: form in ('i', 'p')}
    post = {'value_and_unit': lambda form, nums, result: result.to_value('rad') == angle_rad(form, nums)}


def sky_coord_rad(form, nums, frame, index):
    if form in ('bare', 'd'):
        return nums[0] * PI / 180
    if form == 'r':
        return nums[0]
    if form in (':', '-:'):
        sign = -1 if form == '-:' else 1
        hours = index % 2 == 0 and frame not in ('galactic', 'ecliptic')      # a:b:c longitudes are hours for equatorial frames only
        return sign * sexa(nums) * (PI / 12 if hours else PI / 180)
    if form == 'hms':
        return sexa(nums) * PI / 12
    if form == 'dms':
        return sexa(nums) * PI / 180
    return None


@contract(READ + '_parse_sky_coord', props=['C10'])
class ds9_sky_position_token:
    cases = {fm + '-' + fr + '-%d' % i: {'form': fm, 'frame': fr, 'index': i}
             for fm in ('bare', 'd', 'r', ':', '-:', 'hms', 'dms', 'i', 'p') for fr in FRAMES for i in (0, 1, 2, 3)
             if fm in (':', '-:') or (fr == 'fk5' and i < 2)}

    def setup(B, form='bare', frame='fk5', index=0):
        t, nums = tok(B, form, hours=(index % 2 == 0 and frame not in ('galactic', 'ecliptic')))
        return dict(param_str=t, frame=frame, index=index, nums=nums, form=form)
    raises = {'DS9ParserError': lambda form: form in ('i', 'p')}
    post = {'value_per_ds9_conventions': lambda form, nums, frame, index, result:
            result.unit.physical_type == 'angle' and result.to_value('rad') == sky_coord_rad(form, nums, frame, index)}


@contract(READ + '_parse_coord', props=['C10'])
class ds9_coord_dispatch:
    cases = {'pixel': {'rt': 'pixel'}, 'sky': {'rt': 'sky'}}

    def setup(B, rt='pixel'):
        t, nums = tok(B, 'bare')
        return dict(region_type=rt, param_str=t, frame='fk5' if rt == 'sky' else 'image', index=0, nums=nums)
    post = {'pixel_shifted_sky_degrees': lambda region_type, nums, result:
            (result == nums[0] - 1) if region_type == 'pixel' else (result.to_value('rad') == nums[0] * PI / 180)}


# ---------------------------------------------------------------------------------------------------------------------------
# layering of the metadata that applies to one region line: global < composite < leading sign < the line's own properties
def _layer(B, name, inc, keys=('color', 'width')):
    vals = {'color': {'g': 'green', 'c': 'cyan', 'r': 'red'}, 'width': {'g': '1', 'c': '2', 'r': '3'}}
    maybe = {k: (B.bool(f'{name}.has_{k}'), vals[k][name]) for k in keys}
    if inc is not None:
        maybe['include'] = (B.bool(f'{name}.has_include'), inc)
    return B.dict(name, {}, maybe)


def _effective(key, layers):
    """value of `key` in the first layer (highest priority first) that has it, else None"""
    for d in layers:
        if key in d:
            return d[key]
    return None


def _num(v):
    return None if v is None else (v if not isinstance(v, str) else int(v))


@contract(READ + '_define_raw_metadata', props=['C10', 'C13'])
class ds9_metadata_layering:
    """per-region properties override the leading sign, which overrides composite and global properties (DS9 writes include=1 in
    its own global line: a leading '-' must still exclude); properties are otherwise inherited from the innermost layer that has
    them; the input dictionaries are left as they are"""
    cases = {f'g{g}-c{c}-s{s}-r{r}': {'g': g, 'c': c, 's': s, 'r': r} for g in ('0', '1') for c in ('0', '1') for s in (0, 1) for r in ('0', '1')}

    def setup(B, g='1', c='1', s=0, r='1'):
        return dict(global_meta=_layer(B, 'g', g), composite_meta=_layer(B, 'c', c, ('color',)), include_meta=B.dict('s', {'include': s}),
                    region_meta=_layer(B, 'r', r, ('color',)))
    post = {
        'include': lambda global_meta, composite_meta, include_meta, region_meta, result:
            result['include'] == _num(_effective('include', (region_meta, include_meta))),
        'inherited': lambda global_meta, composite_meta, include_meta, region_meta, result:
            result.get('color') == _effective('color', (region_meta, composite_meta, global_meta))
            and result.get('width') == _num(_effective('width', (region_meta, composite_meta, global_meta))),
        'nothing_else': lambda result: all(k in ('include', 'color', 'width') for k in result),
    }


def _parse_two_globals(first, second):
    from regions.io.ds9.read import _parse_raw_data
    return _parse_raw_data('global ' + first + '\nglobal ' + second + '\nimage\ncircle(1,2,3)')


@contract(READ + '_parse_raw_data', props=['C10', 'C13'])
class ds9_successive_global_lines:
    """successive global lines accumulate and a later line overrides the keys it repeats"""
    cases = {'override': {'first': 'color=green width=1', 'second': 'color=blue'},
             'add': {'first': 'color=green', 'second': 'width=4'},
             'both': {'first': 'color=green width=1 select=1', 'second': 'width=4 color=red'}}

    def setup(B, first='color=green', second='color=blue'):
        return dict(first=first, second=second)
    call = lambda first, second: _parse_two_globals(first, second)
    post = {
        'one_region': lambda result: len(result) == 1 and result[0].shape == 'circle' and result[0].frame == 'image',
        'later_global_wins': lambda first, second, result: all(
            str(result[0].raw_meta.get(kv.split('=')[0])) == kv.split('=')[1] for kv in second.split()),
        'earlier_global_kept_where_not_repeated': lambda first, second, result: all(
            str(result[0].raw_meta.get(kv.split('=')[0])) == kv.split('=')[1]
            for kv in first.split() if kv.split('=')[0] not in [x.split('=')[0] for x in second.split()]),
    }


@contract(READ + '_parse_metadata', props=['C10', 'C13'])
class ds9_property_names_are_case_insensitive:
    """property names of a region or global line are recognised in any case; the values keep theirs"""
    cases = {'lower': {'text': 'color=Red include=0 text={Ab c}'}, 'upper': {'text': 'COLOR=Red INCLUDE=0 TEXT={Ab c}'},
             'mixed': {'text': 'Color=Red Include=0 Text={Ab c}'}}

    def setup(B, text='color=Red'):
        return dict(metadata_str=text)
    post = {'keys_lower_case_values_verbatim': lambda result:
            dict(result) == {'color': 'Red', 'include': '0', 'text': 'Ab c'}}


@contract(READ + '_parse_metadata', props=['C10', 'C09'])
class ds9_delimited_values_are_kept_verbatim:
    """a value in {} "" or '' is what stands between the delimiters, character for character - quote characters and braces that
    belong to the value (at its ends or inside) included"""
    cases = {
        'quote_at_the_end_in_braces': {'text': 'text={NGC 1333 "core"}', 'want': {'text': 'NGC 1333 "core"'}},
        'arcmin_mark_at_the_end': {'text': "text={fov 5'}", 'want': {'text': "fov 5'"}},
        'quote_at_the_start': {'text': 'text={"core" of NGC 1333} color=red', 'want': {'text': '"core" of NGC 1333', 'color': 'red'}},
        'apostrophe_inside_double_quotes': {'text': 'text="it\'s"', 'want': {'text': "it's"}},
        'double_quotes_inside_single_quotes': {'text': "text='say \"hi\"'", 'want': {'text': 'say "hi"'}},
        'tag_with_quotes': {'text': 'tag={beam 12"} tag={x}', 'want': {'tag': ['beam 12"', 'x']}},
    }

    def setup(B, text='', want=None):
        return dict(metadata_str=text, want=want)
    call = lambda metadata_str: _parse_metadata_of(metadata_str)
    post = {'verbatim': lambda want, result: dict(result) == want}


def _parse_metadata_of(metadata_str):
    from regions.io.ds9.read import _parse_metadata
    return _parse_metadata(metadata_str)
