"""C10 (token lexers): every coordinate / size / angle token of the DS9 grammar is read with the value the DS9 conventions give
it, for all numeric values: pixel positions are 1-based, pixel sizes unshifted, bare sky numbers are degrees, suffixes " ' d r i,
sexagesimal a:b:c longitudes are hours for equatorial frames only, XhYmZs / XdYmZs; wrong-kind tokens are rejected"""
from pyvc.api import contract
from vprim import exact_number_text as N, PI

READ = 'regions/io/ds9/read.py::'
FRAMES = ('icrs', 'fk5', 'j2000', 'fk4', 'b1950', 'galactic', 'ecliptic')


def tok(B, form):
    """(token text, the numbers it is made of)"""
    v, a, b, c = B.real('v'), B.real('a'), B.real('b'), B.real('c')
    B.assume(a >= 0)
    B.assume(b >= 0)
    B.assume(c >= 0)
    if form == 'bare':
        return N(v), (v,)
    if form in ('i', 'd', 'r', 'p', '"', "'"):
        return N(v) + form, (v,)
    if form == ':':
        return N(a) + ':' + N(b) + ':' + N(c), (a, b, c)
    if form == '-:':
        return '-' + N(a) + ':' + N(b) + ':' + N(c), (a, b, c)
    if form == 'hms':
        return N(a) + 'h' + N(b) + 'm' + N(c) + 's', (a, b, c)
    if form == 'dms':
        return N(a) + 'd' + N(b) + 'm' + N(c) + 's', (a, b, c)
    raise ValueError(form)


def sexa(nums):
    return nums[0] + nums[1] / 60 + nums[2] / 3600


@contract(READ + '_parse_pixel_coord', props=['C10'])
class ds9_pixel_position_token:
    cases = {f: {'form': f} for f in ('bare', 'i', 'd', 'r', 'p', ':', 'hms', 'dms')}

    def setup(B, form='bare'):
        t, nums = tok(B, form)
        return dict(param_str=t, nums=nums, form=form)
    raises = {'DS9ParserError': lambda form: form not in ('bare', 'i')}
    post = {'one_based_to_zero_based': lambda nums, result: result == nums[0] - 1}


@contract(READ + '_parse_size', props=['C10'])
class ds9_pixel_size_token:
    cases = {f: {'form': f} for f in ('bare', 'i', 'd', 'r', 'p', '"', "'")}

    def setup(B, form='bare'):
        t, nums = tok(B, form)
        return dict(region_type='pixel', param_str=t, nums=nums, form=form)
    raises = {'DS9ParserError': lambda form: form not in ('bare', 'i')}
    post = {'not_shifted': lambda nums, result: result == nums[0]}


def angle_rad(form, nums):
    v = nums[0]
    if form in ('bare', 'd'):
        return v * PI / 180
    if form == 'r':
        return v
    if form == '"':
        return v * PI / 648000
    if form == "'":
        return v * PI / 10800
    return None


@contract(READ + '_parse_angle', props=['C10'])
class ds9_angle_and_sky_size_token:
    cases = {f: {'form': f} for f in ('bare', 'd', 'r', '"', "'", 'i', 'p')}

    def setup(B, form='bare'):
        t, nums = tok(B, form)
        return dict(param_str=t, nums=nums, form=form)
    raises = {'DS9ParserError': lambda form: form in ('i', 'p')}
    post = {'value_and_unit': lambda form, nums, result: result.unit.physical_type == 'angle' and result.to_value('rad') == angle_rad(form, nums)}


@contract(READ + '_parse_size', props=['C10'])
class ds9_sky_size_token:
    cases = {f: {'form': f} for f in ('bare', 'd', 'r', '"', "'", 'i', 'p')}

    def setup(B, form='bare'):
        t, nums = tok(B, form)
        return dict(region_type='sky', param_str=t, nums=nums, form=form)
    raises = {'DS9ParserError': lambda form: form in ('i', 'p')}
    post = {'value_and_unit': lambda form, nums, result: result.to_value('rad') == angle_rad(form, nums)}


def sky_coord_rad(form, nums, frame, index):
    if form in ('bare', 'd'):
        return nums[0] * PI / 180
    if form == 'r':
        return nums[0]
    if form in (':', '-:'):
        sign = -1 if form == '-:' else 1
        hours = index % 2 == 0 and frame not in ('galactic', 'ecliptic')      # a:b:c longitudes are hours for equatorial frames only
        return sign * sexa(nums) * (PI / 12 if hours else PI / 180)
    if form == 'hms':
        return sexa(nums) * PI / 12
    if form == 'dms':
        return sexa(nums) * PI / 180
    return None


@contract(READ + '_parse_sky_coord', props=['C10'])
class ds9_sky_position_token:
    cases = {fm + '-' + fr + '-%d' % i: {'form': fm, 'frame': fr, 'index': i}
             for fm in ('bare', 'd', 'r', ':', '-:', 'hms', 'dms', 'i', 'p') for fr in FRAMES for i in (0, 1, 2, 3)
             if fm in (':', '-:') or (fr == 'fk5' and i < 2)}

    def setup(B, form='bare', frame='fk5', index=0):
        t, nums = tok(B, form)
        return dict(param_str=t, frame=frame, index=index, nums=nums, form=form)
    raises = {'DS9ParserError': lambda form: form in ('i', 'p')}
    post = {'value_per_ds9_conventions': lambda form, nums, frame, index, result:
            result.unit.physical_type == 'angle' and result.to_value('rad') == sky_coord_rad(form, nums, frame, index)}


@contract(READ + '_parse_coord', props=['C10'])
class ds9_coord_dispatch:
    cases = {'pixel': {'rt': 'pixel'}, 'sky': {'rt': 'sky'}}

    def setup(B, rt='pixel'):
        t, nums = tok(B, 'bare')
        return dict(region_type=rt, param_str=t, frame='fk5' if rt == 'sky' else 'image', index=0, nums=nums)
    post = {'pixel_shifted_sky_degrees': lambda region_type, nums, result:
            (result == nums[0] - 1) if region_type == 'pixel' else (result.to_value('rad') == nums[0] * PI / 180)}
