"""C05: applying a mask to an image is exact placement at the bounding box (arrays as index functions; numpy slicing is
modelled with its real clipping/wrapping semantics, so a wrong slice shows up as a wrong pixel)"""
from pyvc.api import contract
from contracts.common import anybox
from spec.boxes import in_box, in_image, is_bbox, exists_common_pixel
from vprim import implies, arr_at, shape_of, is_array, shares_memory

MASK = 'regions/core/mask.py::RegionMask'


def mkmask(B, name='m'):
    b = anybox(B, name + '.bbox')
    data = B.array(name + '.data', (b.iymax - b.iymin, b.ixmax - b.ixmin))
    return B.new(MASK, label=name, data=data, bbox=b, _mask=B.call(eq_zero(), data))


def eq_zero():
    return lambda d: d == 0


def mask_ok(m):
    return is_bbox(m.bbox)


def image(B, name='img', dtype='float'):
    return B.array(name, (B.int(name + '.ny'), B.int(name + '.nx')), dtype)


def weight_at(m, X, Y):
    """mask weight at absolute pixel (X, Y) (only meaningful inside the box)"""
    return arr_at(m.data, Y - m.bbox.iymin, X - m.bbox.ixmin)


@contract(MASK + '.to_image', props=['C05', 'C13'])
class mask_to_image:
    def setup(B):
        return dict(self=mkmask(B), shape=(B.int('ny'), B.int('nx')))
    pre = lambda self, shape: mask_ok(self) and shape[0] >= 0 and shape[1] >= 0
    forall = {'X': 'int', 'Y': 'int'}
    post = {
        'none_exactly_when_no_overlap': lambda self, shape, result: (result is None) == (not exists_common_pixel(self.bbox, shape)),
        'shape': lambda shape, result: result is None or shape_of(result) == (shape[0], shape[1]),
        'placement': lambda self, shape, result, X, Y: result is None or (not in_image(shape, X, Y)) or (
            arr_at(result, Y, X) == (weight_at(self, X, Y) if in_box(self.bbox, X, Y) else 0)),
        # the image is a new array: editing it in place must not reach the mask's own weights (placement would then fail the next time)
        'is_a_new_array': lambda self, result: result is None or not shares_memory(result, self.data),
    }


@contract(MASK + '.to_image', props=['C05'])
class mask_to_image_bad_shape:
    def setup(B):
        return dict(self=mkmask(B), shape=(B.int('a'), B.int('b'), B.int('c')))
    pre = lambda self: mask_ok(self)
    raises = {'ValueError': lambda: True}


def fill_kind(B, kind):
    if kind == 'zero':
        return 0.0
    if kind == 'finite':
        return B.real('fill')
    if kind == 'nan':
        return float('nan')
    return float('inf')


def same_value(a, b):
    """equality that also identifies nan with nan (fill values)"""
    if (not is_array(a)) and isinstance(b, float) and b != b:
        return isinstance(a, float) and a != a
    return a == b


@contract(MASK + '.cutout', props=['C05', 'C13'])
class mask_cutout:
    cases = {f + '-' + ('copy' if c else 'view'): {'fill': f, 'copy': c} for f in ('zero', 'finite') for c in (False, True)}

    def setup(B, fill='zero', copy=False):
        return dict(self=mkmask(B), data=image(B), fill_value=fill_kind(B, fill), copy=copy)
    pre = lambda self: mask_ok(self)
    forall = {'X': 'int', 'Y': 'int'}
    post = {
        'none_exactly_when_no_overlap': lambda self, data, result: (result is None) == (not exists_common_pixel(self.bbox, shape_of(data))),
        'shape_is_mask_shape': lambda self, result: result is None or shape_of(result) == shape_of(self.data),
        'placement': lambda self, data, fill_value, result, X, Y: result is None or (not in_box(self.bbox, X, Y)) or same_value(
            arr_at(result, Y - self.bbox.iymin, X - self.bbox.ixmin),
            arr_at(data, Y, X) if in_image(shape_of(data), X, Y) else fill_value),
    }


@contract(MASK + '.cutout', props=['C05'])
class mask_cutout_bad_input:
    def setup(B):
        return dict(self=mkmask(B), data=B.array('v', (B.int('n'),)))
    pre = lambda self: mask_ok(self)
    raises = {'ValueError': lambda: True}


@contract(MASK + '.multiply', props=['C05', 'C13'])
class mask_multiply:
    cases = {f: {'fill': f} for f in ('zero', 'finite')}

    def setup(B, fill='zero'):
        return dict(self=mkmask(B), data=image(B), fill_value=fill_kind(B, fill))
    pre = lambda self: mask_ok(self)
    forall = {'X': 'int', 'Y': 'int'}
    post = {
        'none_exactly_when_no_overlap': lambda self, data, result: (result is None) == (not exists_common_pixel(self.bbox, shape_of(data))),
        'weighted_placement': lambda self, data, fill_value, result, X, Y: result is None or (not in_box(self.bbox, X, Y)) or same_value(
            arr_at(result, Y - self.bbox.iymin, X - self.bbox.ixmin),
            fill_value if (weight_at(self, X, Y) == 0 or not in_image(shape_of(data), X, Y) and fill_value != fill_value)
            else ((arr_at(data, Y, X) if in_image(shape_of(data), X, Y) else fill_value) * weight_at(self, X, Y))),
        'is_a_new_array': lambda self, data, result: result is None or not (shares_memory(result, self.data) or shares_memory(result, data)),
    }


@contract(MASK + '.get_values', props=['C05', 'C13'])
class mask_get_values:
    cases = {'nomask': {'with_mask': False}, 'mask': {'with_mask': True}}

    def setup(B, with_mask=False):
        img = image(B)
        ny, nx = shape_of(img)
        return dict(self=mkmask(B), data=img, mask=B.array('bad', (ny, nx), 'bool') if with_mask else None)
    pre = lambda self: mask_ok(self)
    forall = {'X': 'int', 'Y': 'int'}
    post = {
        'empty_exactly_when_no_overlap': lambda self, data, result:
            is_empty_array(result) == (not exists_common_pixel(self.bbox, shape_of(data))),
        # the result is the row-major selection of (image * weight) over the common pixels with weight > 0 and not user-masked
        'selected_values': lambda self, data, result, X, Y: is_empty_array(result) or (not (in_box(self.bbox, X, Y) and in_image(shape_of(data), X, Y))) or (
            sel_value(result, self, X, Y) == arr_at(data, Y, X) * weight_at(self, X, Y)),
        'selection_mask': lambda self, data, mask, result, X, Y: is_empty_array(result) or (not (in_box(self.bbox, X, Y) and in_image(shape_of(data), X, Y))) or (
            sel_mask(result, self, X, Y) == (weight_at(self, X, Y) > 0 and not (mask is not None and arr_at(mask, Y, X)))),
        'selection_window_is_the_common_pixels': lambda self, data, result: is_empty_array(result) or sel_shape(result) == (
            min(self.bbox.iymax, shape_of(data)[0]) - max(self.bbox.iymin, 0), min(self.bbox.ixmax, shape_of(data)[1]) - max(self.bbox.ixmin, 0)),
    }


def is_empty_array(r):
    from vprim import is_selection
    return (not is_selection(r)) and is_array(r) and shape_of(r) == (0,)


def sel_value(r, m, X, Y):
    from vprim import selection_parts
    vals, msk = selection_parts(r)
    return arr_at(vals, Y - max(m.bbox.iymin, 0), X - max(m.bbox.ixmin, 0))


def sel_mask(r, m, X, Y):
    from vprim import selection_parts
    vals, msk = selection_parts(r)
    return arr_at(msk, Y - max(m.bbox.iymin, 0), X - max(m.bbox.ixmin, 0))


def sel_shape(r):
    from vprim import selection_parts
    vals, msk = selection_parts(r)
    return shape_of(vals)


@contract(MASK + '.get_values', props=['C05'])
class mask_get_values_mask_shape:
    def setup(B):
        return dict(self=mkmask(B), data=B.array('img', (4, 5)), mask=B.array('bad', (5, 4), 'bool'))
    pre = lambda self: mask_ok(self)
    raises = {'ValueError': lambda: True}


@contract(MASK + '.shape', props=['C05'])
class mask_shape_and_slices:
    def setup(B):
        return dict(self=mkmask(B), shape=(B.int('ny'), B.int('nx')))
    pre = lambda self, shape: mask_ok(self) and shape[0] >= 0 and shape[1] >= 0
    call = lambda self, shape: (self.shape, self.get_overlap_slices(shape), self.bbox.get_overlap_slices(shape))
    post = {'shape_is_data_shape': lambda self, result: result[0] == shape_of(self.data),
            'slices_are_the_boxes': lambda result: result[1] == result[2]}


def _twice(self, data, mask):
    first = self.get_values(data, mask=mask)
    again = self.get_values(data)
    img = self.to_image(shape_of(data))
    cut = self.multiply(data)
    return (first, again, img, cut)


@contract(MASK + '.get_values', props=['C05', 'C13'])
class mask_operations_do_not_depend_on_history:
    """values extracted without a user mask do not depend on an earlier call with one (no state is kept between calls)"""
    def setup(B):
        img = image(B)
        ny, nx = shape_of(img)
        return dict(self=mkmask(B), data=img, mask=B.array('bad', (ny, nx), 'bool'))
    pre = lambda self: mask_ok(self)
    call = lambda self, data, mask: _twice(self, data, mask)
    forall = {'X': 'int', 'Y': 'int'}
    post = {
        'second_call_unaffected': lambda self, data, result, X, Y: is_empty_array(result[1]) or (not (in_box(self.bbox, X, Y) and in_image(shape_of(data), X, Y))) or (
            sel_mask(result[1], self, X, Y) == (weight_at(self, X, Y) > 0)),
    }
