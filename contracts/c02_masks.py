"""C02 (Python layer): to_mask hands the kernel the unit pixel grid of the bounding box, centred correctly, with the right
shape parameters; 'center' is 'subpixels' with n = 1; the mask carries the region's own box; unsupported combinations raise"""
from pyvc.api import contract
from contracts.common import (CIRCLE, ELLIPSE, RECTANGLE, POLYGON, POINT, LINE, TEXT, CIRCLE_ANN, ELLIPSE_ANN, RECT_ANN,
                              COMPOUND, UNITS, OPS, circle, circle_ok, ellipse, ellipse_ok, rectangle, point, text, line,
                              polygon, polygon_ok, circle_annulus, circle_annulus_ok, asym_annulus, asym_annulus_ok,
                              anyregion, compound, operator_of)
from spec.geometry import cs
from spec.boxes import same_box, is_bbox, in_box
from spec.masks import frac, close_exact
from vprim import implies, general, lemma, sqrt
from spec.geometry import sq

MODES = {'center': {'mode': 'center'}, 'subpixels': {'mode': 'subpixels'}, 'exact': {'mode': 'exact'}}
MODES_U = {m + '-' + u: {'mode': m, 'unit': u} for m in ('center', 'subpixels', 'exact') for u in UNITS}
MODES_NOEXACT_U = {m + '-' + u: {'mode': m, 'unit': u} for m in ('center', 'subpixels') for u in UNITS}


def n_eff(mode, subpixels):
    return 1 if mode == 'center' else subpixels


def ux(mode):
    return 1 if mode == 'exact' else 0


def in_grid(result, i, j):
    return 0 <= i and i < result.bbox.ixmax - result.bbox.ixmin and 0 <= j and j < result.bbox.iymax - result.bbox.iymin


def carries_box(self, result):
    return same_box(result.bbox, self.bounding_box) and result.data.shape == result.bbox.shape


def sub_ok(mode, subpixels):
    return mode != 'subpixels' or subpixels >= 1


@contract(CIRCLE + '.to_mask', props=['C02', 'C03', 'C13'])
class circle_to_mask:
    cases = MODES

    def setup(B, mode='center'):
        return dict(self=circle(B, 'r'), mode=mode, subpixels=B.int('n'))
    pre = lambda self, mode, subpixels: circle_ok(self) and sub_ok(mode, subpixels)
    forall = {'i': 'int', 'j': 'int'}
    post = {
        'carries_the_regions_box': lambda self, result: carries_box(self, result),
        'pixelwise': lambda self, mode, subpixels, result, i, j: (not in_grid(result, i, j)) or (close_exact(
            result.data[j, i],
            frac('circle', result.bbox.ixmin + i - 0.5 - self.center.x, result.bbox.iymin + j - 0.5 - self.center.y, 1, 1,
                 ux(mode), n_eff(mode, subpixels), self.radius), ux(mode))),
    }


@contract(CIRCLE + '.to_mask', props=['C02'])
class to_mask_bad_arguments:
    cases = {k + '-' + c: {'kind': k, 'case': c} for k in ('circle', 'ellipse', 'rectangle', 'polygon')
             for c in ('badmode', 'zero', 'negative', 'float')}

    def setup(B, kind='circle', case='badmode'):
        r = {'circle': circle, 'ellipse': ellipse, 'rectangle': rectangle, 'polygon': polygon}[kind](B, 'r')
        if case == 'badmode':
            return dict(self=r, mode='centre', subpixels=1)
        if case == 'zero':
            return dict(self=r, mode='subpixels', subpixels=0)
        if case == 'negative':
            return dict(self=r, mode='subpixels', subpixels=B.int('n'), neg=True)
        return dict(self=r, mode='subpixels', subpixels=B.real('x'))
    pre = lambda subpixels, neg=False: (not neg) or subpixels < 0
    call = lambda self, mode, subpixels: self.to_mask(mode=mode, subpixels=subpixels)
    raises = {'ValueError': lambda: True}


@contract(ELLIPSE + '.to_mask', props=['C02', 'C03', 'C13'])
class ellipse_to_mask:
    cases = MODES_U

    def setup(B, mode='center', unit='deg'):
        return dict(self=ellipse(B, 'r', 'absent', unit), mode=mode, subpixels=B.int('n'))
    pre = lambda self, mode, subpixels: ellipse_ok(self) and sub_ok(mode, subpixels)
    forall = {'i': 'int', 'j': 'int'}
    post = {
        'carries_the_regions_box': lambda self, result: carries_box(self, result),
        'pixelwise': lambda self, mode, subpixels, result, i, j: (not in_grid(result, i, j)) or (close_exact(
            result.data[j, i],
            frac('ellipse', result.bbox.ixmin + i - 0.5 - self.center.x, result.bbox.iymin + j - 0.5 - self.center.y, 1, 1,
                 ux(mode), n_eff(mode, subpixels), self.width / 2, self.height / 2, cs(self.angle)[0], cs(self.angle)[1]), ux(mode))),
    }


@contract(RECTANGLE + '.to_mask', props=['C02', 'C03', 'C13'])
class rectangle_to_mask:
    cases = MODES_NOEXACT_U

    def setup(B, mode='center', unit='deg'):
        return dict(self=rectangle(B, 'r', 'absent', unit), mode=mode, subpixels=B.int('n'))
    pre = lambda self, mode, subpixels: ellipse_ok(self) and sub_ok(mode, subpixels)
    forall = {'i': 'int', 'j': 'int'}
    post = {
        'carries_the_regions_box': lambda self, result: carries_box(self, result),
        'pixelwise': lambda self, mode, subpixels, result, i, j: (not in_grid(result, i, j)) or (close_exact(
            result.data[j, i],
            frac('rectangle', result.bbox.ixmin + i - 0.5 - self.center.x, result.bbox.iymin + j - 0.5 - self.center.y, 1, 1,
                 0, n_eff(mode, subpixels), self.width, self.height, cs(self.angle)[0], cs(self.angle)[1]), 0)),
    }


@contract(POLYGON + '.to_mask', props=['C02', 'C03', 'C13'])
class polygon_to_mask:
    cases = {'center': {'mode': 'center'}, 'subpixels': {'mode': 'subpixels'}}

    def setup(B, mode='center'):
        return dict(self=polygon(B, 'r'), mode=mode, subpixels=B.int('n'))
    pre = lambda self, mode, subpixels: polygon_ok(self) and sub_ok(mode, subpixels)
    forall = {'i': 'int', 'j': 'int'}
    post = {
        'carries_the_regions_box': lambda self, result: carries_box(self, result),
        # polygon vertices are absolute, so the kernel must be given the absolute pixel
        'pixelwise': lambda self, mode, subpixels, result, i, j: (not in_grid(result, i, j)) or (close_exact(
            result.data[j, i],
            frac('polygon', result.bbox.ixmin + i - 0.5, result.bbox.iymin + j - 0.5, 1, 1,
                 0, n_eff(mode, subpixels), self.vertices.x, self.vertices.y), 0)),
    }


@contract(RECTANGLE + '.to_mask', props=['C02'])
class exact_mode_not_offered:
    cases = {'rectangle': {'kind': 'rectangle'}, 'polygon': {'kind': 'polygon'}}

    def setup(B, kind='rectangle'):
        return dict(self=rectangle(B, 'r') if kind == 'rectangle' else polygon(B, 'r'))
    pre = lambda self: (ellipse_ok(self) if hasattr(self, 'width') else polygon_ok(self))
    call = lambda self: self.to_mask(mode='exact')
    raises = {'NotImplementedError': lambda: True}


@contract(POINT + '.to_mask', props=['C02'])
class unmaskable_shapes:
    cases = {k + '-' + m: {'kind': k, 'mode': m} for k in ('point', 'line', 'text') for m in ('center', 'subpixels', 'exact')}

    def setup(B, kind='point', mode='center'):
        return dict(self={'point': point, 'line': line, 'text': text}[kind](B, 'r'), mode=mode)
    call = lambda self, mode: self.to_mask(mode=mode)
    raises = {'NotImplementedError': lambda: True}


def at_abs(mask, X, Y):
    """value of a mask at absolute pixel (X, Y): its data inside its box, 0 outside"""
    from vprim import ite, arr_at
    b = mask.bbox
    inside = in_box(b, X, Y)
    return ite(inside, arr_at(mask.data, Y - b.iymin, X - b.ixmin), 0)


@contract(COMPOUND + '.to_mask', props=['C02', 'C08', 'C13'])
class compound_to_mask:
    """the mask of a compound is the operation applied to the operand masks - whatever the compound's own include flag says (the flag
    complements membership answers, not masks: C08)"""
    cases = {op + ('' if inc == 'absent' else '-own-include-flag'): {'op': op, 'inc': inc} for op in OPS for inc in ('absent', 'bool')}

    def setup(B, op='and_', inc='absent'):
        return dict(self=compound(B, 'c', anyregion(B, 'r1'), anyregion(B, 'r2'), op, inc), op=op)
    pre = lambda self: is_bbox(self.region1.bounding_box) and is_bbox(self.region2.bounding_box)
    call = lambda self: self.to_mask(mode='center')
    forall = {'X': 'int', 'Y': 'int'}
    post = {
        'on_union_box': lambda self, result:
            same_box(result.bbox, self.region1.bounding_box.union(self.region2.bounding_box))
            and result.data.shape == result.bbox.shape,
        'pixelwise_operation_of_operand_masks': lambda self, op, result, X, Y: implies(
            in_box(result.bbox, X, Y),
            at_abs(result, X, Y) == operator_of(op)(int(at_abs(self.region1.to_mask('center'), X, Y)),
                                                     int(at_abs(self.region2.to_mask('center'), X, Y)))),
    }


@contract(COMPOUND + '.to_mask', props=['C02', 'C08'])
class compound_to_mask_other_modes:
    cases = {'subpixels': {'mode': 'subpixels'}, 'exact': {'mode': 'exact'}}

    def setup(B, mode='subpixels'):
        return dict(self=compound(B, 'c', anyregion(B, 'r1'), anyregion(B, 'r2'), 'or_'), mode=mode)
    call = lambda self, mode: self.to_mask(mode=mode)
    raises = {'NotImplementedError': lambda: True}


# ---------------------------------------------------------------------------- annuli: mask = outer xor inner on the outer box
def pixel_frac(kind, b, X, Y, cx, cy, *params):
    """centre-mode value of a simple shape at absolute pixel (X, Y) (0 outside the shape's own box b)"""
    from vprim import ite
    return ite(in_box(b, X, Y), frac(kind, X - 0.5 - cx, Y - 0.5 - cy, 1, 1, 0, 1, *params), 0)


@contract(CIRCLE_ANN + '.to_mask', props=['C02', 'C08', 'C13'])
class circle_annulus_to_mask:
    def setup(B):
        return dict(self=circle_annulus(B, 'r'))
    pre = lambda self: circle_annulus_ok(self)
    call = lambda self: self.to_mask(mode='center')
    forall = {'X': 'int', 'Y': 'int'}
    post = {
        'carries_the_regions_box': lambda self, result: carries_box(self, result),
        'outer_xor_inner': lambda self, result, X, Y: implies(in_box(result.bbox, X, Y), at_abs(result, X, Y) == (
            int(pixel_frac('circle', self._outer_region.bounding_box, X, Y, self.center.x, self.center.y, self.outer_radius))
            ^ int(pixel_frac('circle', self._inner_region.bounding_box, X, Y, self.center.x, self.center.y, self.inner_radius)))),
    }


def nested_ellipse_extents(self):
    """proof steps: the inner ellipse's half-extents do not exceed the outer ones (so the inner box lies in the outer box)"""
    c, s = cs(self.angle)
    ai, bi, ao, bo = self.inner_width / 2, self.inner_height / 2, self.outer_width / 2, self.outer_height / 2
    sqle = lambda P, Q, T: implies(0 <= P and P <= Q, P * P * T * T <= Q * Q * T * T)
    general('sq_le', sqle, ai, ao, c)
    general('sq_le', sqle, bi, bo, s)
    general('sq_le', sqle, ai, ao, s)
    general('sq_le', sqle, bi, bo, c)
    exi, exo = sq(ai * c) + sq(bi * s), sq(ao * c) + sq(bo * s)
    eyi, eyo = sq(ai * s) + sq(bi * c), sq(ao * s) + sq(bo * c)
    lemma('radicands', exi <= exo and eyi <= eyo and 0 <= exi and 0 <= eyi)
    root = lambda S1, S2: implies(S1 >= 0 and S2 >= 0 and S1 * S1 <= S2 * S2, S1 <= S2)
    lemma('sqrt_defs', sq(sqrt(exi)) == exi and sq(sqrt(exo)) == exo and sq(sqrt(eyi)) == eyi and sq(sqrt(eyo)) == eyo
          and sqrt(exi) >= 0 and sqrt(exo) >= 0 and sqrt(eyi) >= 0 and sqrt(eyo) >= 0)
    general('root_le', root, sqrt(exi), sqrt(exo))
    general('root_le', root, sqrt(eyi), sqrt(eyo))
    lemma('extents_nested', sqrt(exi) <= sqrt(exo) and sqrt(eyi) <= sqrt(eyo))
    return True


@contract(ELLIPSE_ANN + '.to_mask', props=['C02', 'C08', 'C13', 'C04'])
class ellipse_annulus_to_mask:
    def setup(B):
        return dict(self=asym_annulus(B, 'r', ELLIPSE_ANN))
    pre = lambda self: asym_annulus_ok(self)
    call = lambda self: self.to_mask(mode='center')
    hints = lambda self: nested_ellipse_extents(self)
    forall = {'X': 'int', 'Y': 'int'}
    post = {
        'carries_the_regions_box': lambda self, result: carries_box(self, result),
        'outer_xor_inner': lambda self, result, X, Y: implies(in_box(result.bbox, X, Y), at_abs(result, X, Y) == (
            int(pixel_frac('ellipse', self._outer_region.bounding_box, X, Y, self.center.x, self.center.y,
                           self.outer_width / 2, self.outer_height / 2, cs(self.angle)[0], cs(self.angle)[1]))
            ^ int(pixel_frac('ellipse', self._inner_region.bounding_box, X, Y, self.center.x, self.center.y,
                             self.inner_width / 2, self.inner_height / 2, cs(self.angle)[0], cs(self.angle)[1])))),
    }


@contract(RECT_ANN + '.to_mask', props=['C02', 'C08', 'C13', 'C04'])
class rectangle_annulus_to_mask:
    def setup(B):
        return dict(self=asym_annulus(B, 'r', RECT_ANN))
    pre = lambda self: asym_annulus_ok(self)
    call = lambda self: self.to_mask(mode='center')
    forall = {'X': 'int', 'Y': 'int'}
    post = {
        'carries_the_regions_box': lambda self, result: carries_box(self, result),
        'outer_xor_inner': lambda self, result, X, Y: implies(in_box(result.bbox, X, Y), at_abs(result, X, Y) == (
            int(pixel_frac('rectangle', self._outer_region.bounding_box, X, Y, self.center.x, self.center.y,
                           self.outer_width, self.outer_height, cs(self.angle)[0], cs(self.angle)[1]))
            ^ int(pixel_frac('rectangle', self._inner_region.bounding_box, X, Y, self.center.x, self.center.y,
                             self.inner_width, self.inner_height, cs(self.angle)[0], cs(self.angle)[1])))),
    }


@contract(CIRCLE_ANN + '.to_mask', props=['C02', 'C08'])
class annulus_to_mask_other_modes:
    cases = {k + '-' + m: {'kind': k, 'mode': m} for k in ('circle', 'ellipse', 'rectangle') for m in ('subpixels', 'exact')}

    def setup(B, kind='circle', mode='subpixels'):
        r = circle_annulus(B, 'r') if kind == 'circle' else asym_annulus(B, 'r', ELLIPSE_ANN if kind == 'ellipse' else RECT_ANN)
        return dict(self=r, mode=mode)
    pre = lambda self: circle_annulus_ok(self) if hasattr(self, 'inner_radius') else asym_annulus_ok(self)
    call = lambda self, mode: self.to_mask(mode=mode, subpixels=3)
    raises = {'NotImplementedError': lambda: True}


# ---------------------------------------------------------------------------- masks follow later assignments (no stale state)
def _mask_after_reassignment(self, mode, subpixels, c2, r2):
    m0 = self.to_mask(mode, subpixels)
    self.center = c2
    self.radius = r2
    return (m0, self.to_mask(mode, subpixels))


@contract(CIRCLE + '.to_mask', props=['C02', 'C03', 'C13'])
class circle_mask_follows_assignment:
    cases = MODES

    def setup(B, mode='center'):
        from contracts.common import pix
        return dict(self=circle(B, 'r'), mode=mode, subpixels=B.int('n'), c2=pix(B, 'c2'), r2=B.real('r2'))
    pre = lambda self, mode, subpixels, r2: circle_ok(self) and sub_ok(mode, subpixels) and r2 > 0
    call = lambda self, mode, subpixels, c2, r2: _mask_after_reassignment(self, mode, subpixels, c2, r2)
    modifies = ('r',)
    forall = {'i': 'int', 'j': 'int'}
    post = {
        'second_mask_describes_the_current_circle': lambda self, mode, subpixels, result, i, j:
            carries_box(self, result[1]) and ((not in_grid(result[1], i, j)) or close_exact(
                result[1].data[j, i],
                frac('circle', result[1].bbox.ixmin + i - 0.5 - self.center.x, result[1].bbox.iymin + j - 0.5 - self.center.y, 1, 1,
                     ux(mode), n_eff(mode, subpixels), self.radius), ux(mode))),
        'masks_do_not_share_their_array': lambda result: result[0].data is not result[1].data,
    }


# ---------------------------------------------------------------------------- the mask grid holds every member pixel
# (the pixelwise clauses above speak about the pixels OF the mask; that no member pixel centre lies outside the mask grid - so that
# mask.to_image(shape) is the membership of every image pixel, not only of those inside the grid - is the enclosure clause of C04
# restated for the box the mask carries)
@contract(ELLIPSE + '.to_mask', props=['C02'])
class no_member_lies_outside_the_mask_grid:
    cases = {'circle': {'kind': 'circle', 'unit': 'deg'}}
    cases.update({k + '-' + un: {'kind': k, 'unit': un} for k in ('ellipse', 'rectangle') for un in ('deg', 'rad', 'arcmin')})

    def setup(B, kind='ellipse', unit='deg'):
        r = circle(B, 'r') if kind == 'circle' else (ellipse(B, 'r', 'absent', unit) if kind == 'ellipse' else rectangle(B, 'r', 'absent', unit))
        return dict(self=r, kind=kind)
    pre = lambda self, kind: circle_ok(self) if kind == 'circle' else ellipse_ok(self)
    call = lambda self: self.to_mask('center')
    forall = {'x': 'real', 'y': 'real'}
    post = {'members_are_inside_the_grid': lambda self, kind, result, x, y: _member_covered(self, kind, result.bbox, x, y)}


def _member_covered(self, kind, bb, x, y):
    from contracts.c04_bbox import covers, ellipse_enclosed
    from spec.geometry import disk_closed, rect_closed, cs
    if kind == 'circle':
        return implies(disk_closed(self.center.x, self.center.y, self.radius, x, y), covers(bb, x, y))
    if kind == 'ellipse':
        return ellipse_enclosed(self.center.x, self.center.y, self.width, self.height, self.angle, bb, x, y)
    return implies(rect_closed(self.center.x, self.center.y, self.width, self.height, cs(self.angle)[0], cs(self.angle)[1], x, y), covers(bb, x, y))
