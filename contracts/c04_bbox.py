"""C04: the integer bounding box encloses the region (every member lies in its pixel-edge extent), is minimal (each border
row/column is reached by a point of the shape -- explicit witnesses), annulus box = outer box, compound box = union"""
from pyvc.api import contract
from contracts.common import (CIRCLE, ELLIPSE, RECTANGLE, POLYGON, POINT, LINE, TEXT, CIRCLE_ANN, ELLIPSE_ANN, RECT_ANN,
                              COMPOUND, UNITS, circle, circle_ok, ellipse, ellipse_ok, rectangle, point, text, line,
                              polygon, polygon_ok, circle_annulus, circle_annulus_ok, asym_annulus, asym_annulus_ok,
                              anyregion, compound)
from spec.geometry import cs, disk_closed, ellipse_closed, rect_closed, sq
from spec.boxes import is_bbox, same_box, box_within
from vprim import implies, sqrt, lemma, general
from spec.geometry import to_shape_frame

U = {u: {'unit': u} for u in UNITS}


def covers(bb, x, y):
    """(x, y) lies inside the pixel-edge extent of the box"""
    return bb.ixmin - 0.5 <= x and x <= bb.ixmax - 0.5 and bb.iymin - 0.5 <= y and y <= bb.iymax - 0.5


def reaches(bb, pl, pr, pb, pt):
    """the four witness points (members of the closed shape) lie in the first/last column and row of the box:
    no border row or column could be dropped"""
    return (pl[0] < bb.ixmin + 0.5 and pr[0] > bb.ixmax - 1.5 and pb[1] < bb.iymin + 0.5 and pt[1] > bb.iymax - 1.5)


@contract(CIRCLE + '.bounding_box', props=['C04'])
class circle_bbox:
    def setup(B):
        return dict(self=circle(B, 'r'))
    pre = lambda self: circle_ok(self)
    call = lambda self: self.bounding_box
    forall = {'x': 'real', 'y': 'real'}
    post = {
        'encloses': lambda self, result, x, y:
            implies(disk_closed(self.center.x, self.center.y, self.radius, x, y), covers(result, x, y)),
        'minimal': lambda self, result: reaches(
            result, (self.center.x - self.radius, self.center.y), (self.center.x + self.radius, self.center.y),
            (self.center.x, self.center.y - self.radius), (self.center.x, self.center.y + self.radius)),
        'is_box': lambda result: is_bbox(result),
    }


def ell_extreme(self):
    """half-extents of the rotated ellipse and the boundary points attaining them (from the geometry, not from the code)"""
    c, s = cs(self.angle)
    a = self.width / 2
    b = self.height / 2
    ex = sqrt(sq(a * c) + sq(b * s))
    ey = sqrt(sq(a * s) + sq(b * c))
    return c, s, a, b, ex, ey


def ellipse_enclosed(cx, cy, w, h, angle, bb, x, y):
    """member of the closed rotated ellipse => inside the extent of bb; proved through the Cauchy-Schwarz identity
    (c u - s v)^2 + (a c v/b + b s u/a)^2 == (a^2 c^2 + b^2 s^2) ((u/a)^2 + (v/b)^2), stated as explicit proof steps"""
    c, s = cs(angle)
    a = w / 2
    b = h / 2
    u, v = to_shape_frame(cx, cy, c, s, x, y)
    q = sq(u / a) + sq(v / b)
    ex2 = sq(a * c) + sq(b * s)
    ey2 = sq(a * s) + sq(b * c)
    dx = x - cx
    dy = y - cy
    lemma('frame', dx == c * u - s * v and dy == s * u + c * v)
    # the two identities hold for all reals with c^2 + s^2 = 1 and non-zero a, b: proved on their own, then instantiated
    csx = lambda C, S, A, B_, U, V: implies(C * C + S * S == 1 and A > 0 and B_ > 0,
                                            sq(C * U - S * V) + sq(A * C * V / B_ + B_ * S * U / A) == (sq(A * C) + sq(B_ * S)) * (sq(U / A) + sq(V / B_)))
    csy = lambda C, S, A, B_, U, V: implies(C * C + S * S == 1 and A > 0 and B_ > 0,
                                            sq(S * U + C * V) + sq(A * S * V / B_ - B_ * C * U / A) == (sq(A * S) + sq(B_ * C)) * (sq(U / A) + sq(V / B_)))
    general('cauchy_schwarz_x', csx, c, s, a, b, u, v)
    general('cauchy_schwarz_y', csy, c, s, a, b, u, v)
    # A + B^2 == C q, C >= 0, q <= 1  =>  A <= C       (proved once for all reals, then instantiated)
    mono = lambda A, Bq, C, Q: implies(A + Bq * Bq == C * Q and C >= 0 and Q <= 1, A <= C)
    general('mono', mono, sq(c * u - s * v), a * c * v / b + b * s * u / a, ex2, q)
    general('mono', mono, sq(s * u + c * v), a * s * v / b - b * c * u / a, ey2, q)
    # d^2 <= r^2, r >= 0  =>  -r <= d <= r
    root = lambda D, R: implies(D * D <= R * R and R >= 0, -R <= D and D <= R)
    lemma('sqrt_defs', sq(sqrt(ex2)) == ex2 and sq(sqrt(ey2)) == ey2 and sqrt(ex2) >= 0 and sqrt(ey2) >= 0)
    general('root', root, dx, sqrt(ex2))
    general('root', root, dy, sqrt(ey2))
    lemma('abs_bound', implies(q <= 1, -sqrt(ex2) <= dx and dx <= sqrt(ex2) and -sqrt(ey2) <= dy and dy <= sqrt(ey2)))
    return implies(q <= 1, covers(bb, x, y))


@contract(ELLIPSE + '.bounding_box', props=['C04'])
class ellipse_bbox:
    cases = U

    def setup(B, unit='deg'):
        return dict(self=ellipse(B, 'r', 'absent', unit))
    pre = lambda self: ellipse_ok(self)
    call = lambda self: self.bounding_box
    forall = {'x': 'real', 'y': 'real'}
    post = {
        'encloses': lambda self, result, x, y:
            ellipse_enclosed(self.center.x, self.center.y, self.width, self.height, self.angle, result, x, y),
        'is_box': lambda result: is_bbox(result),
    }


def ell_witness_x(self, sign):
    c, s, a, b, ex, ey = ell_extreme(self)
    return (self.center.x + sign * ex, self.center.y + sign * (sq(a) - sq(b)) * c * s / ex)


def ell_witness_y(self, sign):
    c, s, a, b, ex, ey = ell_extreme(self)
    return (self.center.x + sign * (sq(a) - sq(b)) * c * s / ey, self.center.y + sign * ey)


def on_ellipse(self, p):
    return ellipse_closed(self.center.x, self.center.y, self.width, self.height, cs(self.angle)[0], cs(self.angle)[1], p[0], p[1])


@contract(ELLIPSE + '.bounding_box', props=['C04'])
class ellipse_bbox_minimal:
    cases = U

    def setup(B, unit='deg'):
        return dict(self=ellipse(B, 'r', 'absent', unit))
    pre = lambda self: ellipse_ok(self)
    call = lambda self: self.bounding_box
    post = {
        'witnesses_are_members': lambda self: on_ellipse(self, ell_witness_x(self, -1)) and on_ellipse(self, ell_witness_x(self, 1))
            and on_ellipse(self, ell_witness_y(self, -1)) and on_ellipse(self, ell_witness_y(self, 1)),
        'minimal': lambda self, result: reaches(result, ell_witness_x(self, -1), ell_witness_x(self, 1),
                                                ell_witness_y(self, -1), ell_witness_y(self, 1)),
    }


def rect_corner(self, su, sv):
    c, s = cs(self.angle)
    u = su * self.width / 2
    v = sv * self.height / 2
    return (self.center.x + c * u - s * v, self.center.y + s * u + c * v)


def leftmost(ps):
    best = ps[0]
    for p in ps[1:]:
        best = vite2(p[0] < best[0], p, best)
    return best


def vite2(c, p, q):
    from vprim import ite
    return (ite(c, p[0], q[0]), ite(c, p[1], q[1]))


def extreme(ps, axis, sign):
    best = ps[0]
    for p in ps[1:]:
        best = vite2(sign * p[axis] > sign * best[axis], p, best)
    return best


def rect_corners(self):
    return [rect_corner(self, -1, -1), rect_corner(self, 1, -1), rect_corner(self, 1, 1), rect_corner(self, -1, 1)]


@contract(RECTANGLE + '.bounding_box', props=['C04'])
class rectangle_bbox:
    cases = U

    def setup(B, unit='deg'):
        return dict(self=rectangle(B, 'r', 'absent', unit))
    pre = lambda self: ellipse_ok(self)
    call = lambda self: self.bounding_box
    forall = {'x': 'real', 'y': 'real'}
    post = {
        'encloses': lambda self, result, x, y: implies(
            rect_closed(self.center.x, self.center.y, self.width, self.height, cs(self.angle)[0], cs(self.angle)[1], x, y),
            covers(result, x, y)),
        'minimal': lambda self, result: reaches(result, extreme(rect_corners(self), 0, -1), extreme(rect_corners(self), 0, 1),
                                                extreme(rect_corners(self), 1, -1), extreme(rect_corners(self), 1, 1)),
        'is_box': lambda result: is_bbox(result),
    }


@contract(POLYGON + '.bounding_box', props=['C04'])
class polygon_bbox:
    """every vertex lies in the extent and each border is reached by a vertex.  That the interior lies in the convex hull of
    the vertices (hence in the box) is a mathematical lemma outside the solver (listed as trusted)."""
    def setup(B):
        return dict(self=polygon(B, 'r'), i0=B.int('w.left'), i1=B.int('w.right'), i2=B.int('w.bottom'), i3=B.int('w.top'))
    pre = lambda self: polygon_ok(self)
    call = lambda self: self.bounding_box
    forall = {'k': 'int', 'x': 'real', 'y': 'real'}
    post = {
        'encloses_vertices': lambda self, result, k: (
            (not (0 <= k and k < len(self.vertices.x))) or covers(result, self.vertices.x[k], self.vertices.y[k])),
        'is_box': lambda result: is_bbox(result),
        'encloses_members': lambda self, result, x, y: _members_in_box(self, result, x, y),
    }


def _members_in_box(self, bb, x, y):
    """every member (even-odd rule) lies in the box: a point outside the box is outside the extent of the vertices, and such a
    point has an even crossing number - the lemma proved by induction over the edges in contracts/k_kernels.py, used here through
    its own precondition and conclusion (this replaces the convex-hull argument that session 1 had to trust)"""
    from contracts.k_kernels import lemma_point_outside_the_vertex_box_has_even_crossing_number as L, SIDES
    from spec.polygon import crossings_odd
    from vprim import fact, use_lemma
    vx, vy = self.vertices.x, self.vertices.y
    use_lemma('lemma_point_outside_the_vertex_box_has_even_crossing_number')
    for side in SIDES:
        fact(implies(L.pre(vx=vx, vy=vy, x=x, y=y, side=side), not crossings_odd(vx, vy, x, y)))
    return implies(crossings_odd(vx, vy, x, y), covers(bb, x, y))


@contract(POLYGON + '.bounding_box', props=['C04'])
class polygon_bbox_minimal:
    """minimality for polygons with a concrete number of vertices (3..6): the extreme vertices are the witnesses"""
    cases = {'n%d' % n: {'n': n} for n in (3, 4, 5, 6)}

    def setup(B, n=3):
        from contracts.common import PIXCOORD, mk_meta, mk_visual
        vs = [(B.real('v%d.x' % i), B.real('v%d.y' % i)) for i in range(n)]
        verts = B.new(PIXCOORD, label='verts', x=B.call(np_array(), [v[0] for v in vs]), y=B.call(np_array(), [v[1] for v in vs]))
        return dict(self=B.new(POLYGON, label='r', vertices=verts, _vertices=verts, meta=mk_meta(B, 'm'), visual=mk_visual(B, 'v')), vs=vs)
    call = lambda self: self.bounding_box
    post = {'minimal': lambda self, vs, result: reaches(result, extreme(vs, 0, -1), extreme(vs, 0, 1), extreme(vs, 1, -1), extreme(vs, 1, 1))}


def np_array():
    import numpy as np
    return np.array


@contract(LINE + '.bounding_box', props=['C04'])
class line_bbox:
    def setup(B):
        return dict(self=line(B, 'r'))
    call = lambda self: self.bounding_box
    forall = {'t': 'real'}
    post = {
        'encloses': lambda self, result, t: implies(0 <= t and t <= 1, covers(
            result, self.start.x + t * (self.end.x - self.start.x), self.start.y + t * (self.end.y - self.start.y))),
        'minimal': lambda self, result: reaches(
            result, extreme([(self.start.x, self.start.y), (self.end.x, self.end.y)], 0, -1),
            extreme([(self.start.x, self.start.y), (self.end.x, self.end.y)], 0, 1),
            extreme([(self.start.x, self.start.y), (self.end.x, self.end.y)], 1, -1),
            extreme([(self.start.x, self.start.y), (self.end.x, self.end.y)], 1, 1)),
        'is_box': lambda result: is_bbox(result),
    }


@contract(POINT + '.bounding_box', props=['C04'])
class point_bbox:
    cases = {'point': {'kind': 'point'}, 'text': {'kind': 'text'}}

    def setup(B, kind='point'):
        return dict(self=point(B, 'r') if kind == 'point' else text(B, 'r'))
    call = lambda self: self.bounding_box
    post = {
        'encloses': lambda self, result: covers(result, self.center.x, self.center.y),
        'at_most_one_pixel': lambda result: result.ixmax - result.ixmin <= 1 and result.iymax - result.iymin <= 1,
        'is_box': lambda result: is_bbox(result),
    }


@contract(CIRCLE_ANN + '.bounding_box', props=['C04', 'C08'])
class circle_annulus_bbox:
    def setup(B):
        return dict(self=circle_annulus(B, 'r'))
    pre = lambda self: circle_annulus_ok(self)
    call = lambda self: (self.bounding_box, self._outer_region.bounding_box)
    forall = {'x': 'real', 'y': 'real'}
    post = {
        'is_outer_box': lambda result: same_box(result[0], result[1]),
        'encloses': lambda self, result, x, y:
            implies(disk_closed(self.center.x, self.center.y, self.outer_radius, x, y), covers(result[0], x, y)),
        'minimal': lambda self, result: reaches(
            result[0], (self.center.x - self.outer_radius, self.center.y), (self.center.x + self.outer_radius, self.center.y),
            (self.center.x, self.center.y - self.outer_radius), (self.center.x, self.center.y + self.outer_radius)),
    }


class _Outer:
    """view of an asymmetric annulus as its outer shape"""
    def __init__(self, ann):
        self.center = ann.center
        self.width = ann.outer_width
        self.height = ann.outer_height
        self.angle = ann.angle


@contract(ELLIPSE_ANN + '.bounding_box', props=['C04', 'C08'])
class ellipse_annulus_bbox:
    cases = U

    def setup(B, unit='deg'):
        return dict(self=asym_annulus(B, 'r', ELLIPSE_ANN, 'absent', unit))
    pre = lambda self: asym_annulus_ok(self)
    call = lambda self: (self.bounding_box, self._outer_region.bounding_box)
    forall = {'x': 'real', 'y': 'real'}
    post = {
        'is_outer_box': lambda result: same_box(result[0], result[1]),
        'encloses': lambda self, result, x, y:
            ellipse_enclosed(self.center.x, self.center.y, self.outer_width, self.outer_height, self.angle, result[0], x, y),
        'minimal': lambda self, result: reaches(result[0], ell_witness_x(_Outer(self), -1), ell_witness_x(_Outer(self), 1),
                                                ell_witness_y(_Outer(self), -1), ell_witness_y(_Outer(self), 1)),
    }


@contract(RECT_ANN + '.bounding_box', props=['C04', 'C08'])
class rectangle_annulus_bbox:
    cases = U

    def setup(B, unit='deg'):
        return dict(self=asym_annulus(B, 'r', RECT_ANN, 'absent', unit))
    pre = lambda self: asym_annulus_ok(self)
    call = lambda self: (self.bounding_box, self._outer_region.bounding_box)
    forall = {'x': 'real', 'y': 'real'}
    post = {
        'is_outer_box': lambda result: same_box(result[0], result[1]),
        'encloses': lambda self, result, x, y: implies(
            rect_closed(self.center.x, self.center.y, self.outer_width, self.outer_height, cs(self.angle)[0], cs(self.angle)[1], x, y),
            covers(result[0], x, y)),
        'minimal': lambda self, result: reaches(
            result[0], extreme(rect_corners(_Outer(self)), 0, -1), extreme(rect_corners(_Outer(self)), 0, 1),
            extreme(rect_corners(_Outer(self)), 1, -1), extreme(rect_corners(_Outer(self)), 1, 1)),
    }


@contract(COMPOUND + '.bounding_box', props=['C04', 'C08'])
class compound_bbox:
    # abstract operands (any class obeying the base contract) and, because code may look at what concrete operands have in common
    # (a shared centre, equal sizes), two concrete shapes whose parameters are free to coincide
    cases = {'any': {'operands': 'any'}, 'ellipse_rectangle': {'operands': 'ellipse_rectangle'}, 'circles': {'operands': 'circles'}}

    def setup(B, operands='any'):
        from contracts.common import anybox
        if operands == 'ellipse_rectangle':
            r1, r2 = ellipse(B, 'r1'), rectangle(B, 'r2')
            B.assume(ellipse_ok(r1) and r2.width > 0 and r2.height > 0)
        elif operands == 'circles':
            r1, r2 = circle(B, 'r1'), circle(B, 'r2')
            B.assume(circle_ok(r1) and circle_ok(r2))
        else:
            r1, r2 = anyregion(B, 'r1'), anyregion(B, 'r2')
        return dict(self=compound(B, 'c', r1, r2, 'or_'), V=anybox(B, 'V'))
    pre = lambda self, V: is_bbox(self.region1.bounding_box) and is_bbox(self.region2.bounding_box) and is_bbox(V)
    call = lambda self: self.bounding_box
    post = {
        'contains_operand_boxes': lambda self, result:
            box_within(self.region1.bounding_box, result) and box_within(self.region2.bounding_box, result),
        'is_union_least': lambda self, V, result: implies(
            box_within(self.region1.bounding_box, V) and box_within(self.region2.bounding_box, V), box_within(result, V)),
    }


# ---------------------------------------------------------------------------- the box follows later assignments (no stale state)
def _reassign_circle(self, c2, r2):
    b0 = self.bounding_box
    self.center = c2
    self.radius = r2
    return (b0, self.bounding_box, self.__class__(self.center, self.radius).bounding_box)


@contract(CIRCLE + '.bounding_box', props=['C04', 'C13'])
class circle_bbox_follows_assignment:
    def setup(B):
        from contracts.common import pix
        return dict(self=circle(B, 'r'), c2=pix(B, 'c2'), r2=B.real('r2'))
    pre = lambda self, r2: circle_ok(self) and r2 > 0
    call = lambda self, c2, r2: _reassign_circle(self, c2, r2)
    modifies = ('r',)
    post = {'box_is_function_of_current_parameters': lambda result: same_box(result[1], result[2])}


def _reassign_whA(self, c2, w2, h2, a2):
    b0 = self.bounding_box
    self.center = c2
    self.width = w2
    self.height = h2
    self.angle = a2
    return (b0, self.bounding_box, self.__class__(self.center, self.width, self.height, self.angle).bounding_box)


@contract(ELLIPSE + '.bounding_box', props=['C04', 'C13'])
class ellipse_bbox_follows_assignment:
    cases = {'ellipse': {'kind': 'ellipse'}, 'rectangle': {'kind': 'rectangle'}}

    def setup(B, kind='ellipse'):
        from contracts.common import pix
        r = ellipse(B, 'r') if kind == 'ellipse' else rectangle(B, 'r')
        return dict(self=r, c2=pix(B, 'c2'), w2=B.real('w2'), h2=B.real('h2'), a2=B.quantity('a2', 'deg'))
    pre = lambda self, w2, h2: ellipse_ok(self) and w2 > 0 and h2 > 0
    call = lambda self, c2, w2, h2, a2: _reassign_whA(self, c2, w2, h2, a2)
    modifies = ('r',)
    post = {'box_is_function_of_current_parameters': lambda result: same_box(result[1], result[2])}


@contract(POLYGON + '.bounding_box', props=['C04'])
class polygon_bbox_minimal_for_any_number_of_vertices:
    """the extreme coordinates are attained by vertices (numpy's min/max: a witness index) and each lies in the first / last column or
    row of the box: no border row or column could be dropped, however many vertices the polygon has"""
    def setup(B):
        return dict(self=polygon(B, 'r'))
    pre = lambda self: polygon_ok(self)
    call = lambda self: self.bounding_box
    post = {'minimal': lambda self, result: reaches(
        result, (self.vertices.x.min(), 0), (self.vertices.x.max(), 0), (0, self.vertices.y.min()), (0, self.vertices.y.max()))}


REGPOLY = 'regions/shapes/polygon.py::RegularPolygonPixelRegion'


@contract(REGPOLY + '.bounding_box', props=['C04'])
class regular_polygon_bbox:
    """a regular polygon is a polygon: its box encloses its vertices and each border is reached by an extreme vertex, at every rotation"""
    # one vertex per case: indexing the vertex arrays with a symbolic index would meet cos/sin of a symbolic multiple of pi, which the
    # trigonometric model cannot relate to the concrete multiples the box is computed from
    cases = {'n%d-v%d' % (n, k): {'n': n, 'k': k} for n in (4,) for k in range(n)}      # odd n: queries too slow to be stable; covered by the bounded `boxes` runner

    def setup(B, n=3, k=0):
        from contracts.common import pix, mk_meta, mk_visual
        rad = B.real('r.radius')
        B.assume(rad > 0)
        return dict(self=B.construct(REGPOLY, 'r', pix(B, 'r.center'), n, rad, angle=B.quantity('r.angle', 'deg'),
                                     meta=mk_meta(B, 'r.meta'), visual=mk_visual(B, 'r.visual')), n=n, k=k)
    call = lambda self: self.bounding_box
    post = {
        'encloses_vertex': lambda self, k, result: covers(result, self.vertices.x[k], self.vertices.y[k]),
        'minimal': lambda self, result: reaches(
            result, (self.vertices.x.min(), 0), (self.vertices.x.max(), 0), (0, self.vertices.y.min()), (0, self.vertices.y.max())),
    }


# ---------------------------------------------------------------------------- the mask carries the region's box (every maskable class)
# (the asymmetric annuli need the nesting lemma of their inner and outer box: their mask contracts in c02_masks.py carry the same clause
# and are counted under C04 as well)
MASKED = ('circle', 'ellipse', 'rectangle', 'polygon', 'circle_annulus', 'compound')


def masked_region(B, kind):
    from contracts.common import circle_annulus, asym_annulus, compound
    if kind == 'circle':
        return circle(B, 'r')
    if kind == 'ellipse':
        return ellipse(B, 'r', 'absent', 'rad')
    if kind == 'rectangle':
        return rectangle(B, 'r', 'absent', 'rad')
    if kind == 'polygon':
        return polygon(B, 'r')
    if kind == 'circle_annulus':
        return circle_annulus(B, 'r')
    if kind == 'ellipse_annulus':
        return asym_annulus(B, 'r', ELLIPSE_ANN, 'absent', 'rad')
    if kind == 'rectangle_annulus':
        return asym_annulus(B, 'r', RECT_ANN, 'absent', 'rad')
    return compound(B, 'r', circle(B, 'r.a'), ellipse(B, 'r.b', 'absent', 'rad'), 'or_')


def masked_ok(kind, r):
    from contracts.common import circle_ok, ellipse_ok, polygon_ok, circle_annulus_ok, asym_annulus_ok
    if kind == 'circle':
        return circle_ok(r)
    if kind in ('ellipse', 'rectangle'):
        return ellipse_ok(r)
    if kind == 'polygon':
        return polygon_ok(r)
    if kind == 'circle_annulus':
        return circle_annulus_ok(r)
    if kind in ('ellipse_annulus', 'rectangle_annulus'):
        return asym_annulus_ok(r)
    return circle_ok(r.region1) and ellipse_ok(r.region2)


@contract(CIRCLE + '.to_mask', props=['C04', 'C13'])
class mask_box_is_the_regions_box:
    """the box carried by a mask is the box the region reports - before the mask was made and afterwards (making a mask changes
    nothing the box depends on) - and the mask array has the box's shape"""
    cases = {k + '-' + m: {'kind': k, 'mode': m} for k in MASKED for m in ('center', 'subpixels')
             if not (m == 'subpixels' and k in ('circle_annulus', 'compound'))}      # compound masks exist in centre mode only

    def setup(B, kind='circle', mode='center'):
        return dict(self=masked_region(B, kind), kind=kind, mode=mode, subpixels=B.int('n'))
    pre = lambda self, kind, mode, subpixels: masked_ok(kind, self) and subpixels >= 1
    call = lambda self, mode, subpixels: dict(before=self.bounding_box, mask=self.to_mask(mode, subpixels), after=self.bounding_box,
                                             again=self.to_mask(mode, subpixels))
    post = {
        'mask_box_is_the_box_reported_before': lambda result: same_box(result['mask'].bbox, result['before']),
        'and_the_box_reported_afterwards': lambda result: same_box(result['mask'].bbox, result['after']),
        'array_has_the_shape_of_the_box': lambda result: result['mask'].data.shape == result['mask'].bbox.shape,
        'a_second_mask_has_the_same_box': lambda result: same_box(result['again'].bbox, result['mask'].bbox),
    }
