"""C07: under the local-similarity model of an undistorted WCS (ASSUMED: one step of angle d towards local north moves the
pixel position by (d / s) * (cos nu, sin nu), s = local scale, nu = direction of north in the image), the helper returns
scale s and north angle nu, and to_pixel gives centre = W(sky centre), lengths = angular size / s, and a width axis at
(region angle) + nu - 90 degrees, for every s > 0, nu and region angle in any unit."""
from pyvc.api import contract
from contracts.c06_sky import SKY_CLASS, sky_region, sky_wf
from contracts.c17_validation import sky
from spec.geometry import sq
from vprim import cos, sin, PI

HELPER = 'regions/_utils/wcs_helpers.py::pixel_scale_angle_at_skycoord'


def local_model(B, wcs, sc, s, nu):
    import astropy.units as u
    x, y = wcs.world_to_pixel(sc)
    off = sc.directional_offset_by(0.0, 1 * u.arcsec)
    x2, y2 = wcs.world_to_pixel(off)
    d = (1 * u.arcsec).to_value('rad')
    B.assume(s > 0)
    B.assume(x2 - x == d / s * cos(nu))
    B.assume(y2 - y == d / s * sin(nu))


def same_direction(q, ang):
    """the angular Quantity q equals the angle `ang` (radians) modulo a full turn"""
    a = q.to_value('rad')
    return cos(a) == cos(ang) and sin(a) == sin(ang)


@contract(HELPER, props=['C07', 'C06'])
class scale_and_north_angle:
    cases = {'icrs': {'frame': 'icrs'}, 'galactic': {'frame': 'galactic'}}

    def setup(B, frame='icrs'):
        wcs, sc, s, nu = B.wcs('w', frame), sky(B, 'c', frame), B.real('s'), B.real('nu')
        local_model(B, wcs, sc, s, nu)
        return dict(skycoord=sc, wcs=wcs, s=s, nu=nu)
    post = {
        'pixel_position_is_wcs_image': lambda skycoord, wcs, result:
            result[0].x == wcs.world_to_pixel(skycoord)[0] and result[0].y == wcs.world_to_pixel(skycoord)[1],
        'scale_is_local_scale_angle_per_pixel': lambda s, result:
            result[1].unit.dims == (1, -1) and result[1].si == s,
        'angle_is_direction_of_north': lambda nu, result:
            result[2].unit.physical_type == 'angle' and same_direction(result[2], nu),
    }


KINDS = ('circle', 'ellipse', 'rectangle', 'circle_annulus', 'ellipse_annulus', 'rectangle_annulus')
LENGTHS = {'circle': ('radius',), 'ellipse': ('width', 'height'), 'rectangle': ('width', 'height'),
           'circle_annulus': ('inner_radius', 'outer_radius'),
           'ellipse_annulus': ('inner_width', 'outer_width', 'inner_height', 'outer_height'),
           'rectangle_annulus': ('inner_width', 'outer_width', 'inner_height', 'outer_height')}


def region_with_angle_unit(B, kind, unit, frame='icrs'):
    r = sky_region(B, kind, 'r', frame, simple=True)
    if hasattr(r, 'angle'):
        r.__dict__['angle'] = B.quantity('r.angle', unit)
    return r


def lengths_ok(kind, self, s, result):
    ok = True
    for name in LENGTHS[kind]:
        ok = ok and getattr(result, name) * s == getattr(self, name).to_value('rad')
    return ok


@contract('regions/core/core.py::SkyRegion.to_pixel', props=['C07'])
class sky_region_pixel_image:
    cases = {k + '-' + u: {'kind': k, 'unit': u} for k in KINDS for u in ('deg', 'rad', 'arcmin') if not (k.startswith('circle') and u != 'deg')}
    # a region given in another celestial frame than the image's: sizes and orientation refer to the region's own frame
    # ("independently of ... which celestial frame it uses")
    cases.update({k + '-deg-galactic-on-icrs': {'kind': k, 'unit': 'deg', 'frame': 'galactic'} for k in KINDS})

    def setup(B, kind='circle', unit='deg', frame='icrs'):
        r = region_with_angle_unit(B, kind, unit, frame)
        wcs, s, nu = B.wcs('w'), B.real('s'), B.real('nu')
        local_model(B, wcs, r.center, s, nu)
        return dict(self=r, wcs=wcs, s=s, nu=nu, kind=kind)
    pre = lambda self, kind: sky_wf(kind, self)
    call = lambda self, wcs: self.to_pixel(wcs)
    post = {
        'pixel_class': lambda self, result: result.__class__.__name__ == self.__class__.__name__.replace('Sky', 'Pixel'),
        'centred_on_wcs_image_of_centre': lambda self, wcs, result:
            result.center.x == wcs.world_to_pixel(self.center)[0] and result.center.y == wcs.world_to_pixel(self.center)[1],
        'lengths_are_angular_size_over_scale': lambda self, s, kind, result: lengths_ok(kind, self, s, result),
        # the width axis makes the region angle with the direction 90 degrees clockwise from local north
        'orientation': lambda self, nu, result:
            (not hasattr(self, 'angle')) or same_direction(result.angle, self.angle.to_value('rad') + nu - PI / 2),
    }
