"""C11 (structural layer): the CRTF serialiser writes each region as the CASA conventions prescribe (symbolic parameters),
does not touch its inputs, and the shape decoder inverts the ellipse-axis convention"""
from pyvc.api import contract
from contracts.common import META, VISUAL
from contracts.c09_ds9 import mk
from spec.crtf import COORD, shape_text
from vprim import text_equal

KINDS = ('circle', 'ellipse', 'rectangle', 'circle_annulus', 'line', 'text', 'point')
FRAMES = ('fk5', 'fk4', 'icrs', 'galactic')


def serialize(regions, coordsys='fk5'):
    from regions.io.crtf.write import _serialize_crtf
    return _serialize_crtf(regions, coordsys=coordsys)


def region(B, kind, frame, meta=None, visual=None):
    visual = dict(visual or {})
    if kind == 'point':
        visual['symbol'] = '+'
    return mk(B, kind, 'r', frame, meta, visual)


def lines_of(text):
    from spec.ds9 import _lines, _text
    return [_text(l) for l in _lines(text)]


@contract('regions/io/crtf/write.py::_serialize_crtf', props=['C11', 'C13'])
class crtf_single_region_text:
    cases = {k + '-' + f + '-' + i: {'kind': k, 'frame': f, 'inc': i} for k in KINDS for f in FRAMES for i in ('absent', 'false', 'true')
             if f == 'fk5' or (k in ('circle', 'ellipse') and i == 'absent')}
    cases.update({k + '-fk5-' + i + '-' + t: {'kind': k, 'frame': 'fk5', 'inc': i, 'typ': t}
                  for k in ('circle', 'line') for i in ('absent', 'false', 'true') for t in ('ann', 'reg')})

    def setup(B, kind='circle', frame='fk5', inc='absent', typ=None):
        m = {} if inc == 'absent' else {'include': inc == 'true'}
        if typ is not None:
            m['type'] = typ
        return dict(r=region(B, kind, frame, m), kind=kind, frame=frame, inc=inc, typ=typ)
    call = lambda r, frame: serialize([r], frame)
    post = {
        'header_and_frame': lambda frame, result: lines_of(result)[0] == '#CRTFv0' and lines_of(result)[1] == 'global coord=' + COORD[frame],
        # exclusion is the leading '-', an annotation is marked by 'ann ' after it; neither hides the other
        'one_region_line_per_casa_conventions': lambda r, kind, inc, typ, result: len(lines_of(result)) == 3 and text_equal(
            lines_of(result)[2], ('-' if inc == 'false' else '') + ('ann ' if typ == 'ann' else '') + shape_text(kind, r)),
    }


@contract('regions/io/crtf/write.py::_serialize_crtf', props=['C11', 'C13'])
class crtf_serialising_twice_gives_the_same_text:
    """also catches any modification of the regions by the first serialisation (e.g. of their include flag)"""
    cases = {i: {'inc': i} for i in ('absent', 'false', 'true')}

    def setup(B, inc='false'):
        m = {} if inc == 'absent' else {'include': inc == 'true'}
        return dict(r=region(B, 'circle', 'fk5', m))
    call = lambda r: (serialize([r]), serialize([r]), dict(r.meta))
    post = {'same_text': lambda result: text_equal(result[0], result[1])}


def decode_ellipse(center_lon, center_lat, major, minor, pa):
    """the real shape decoder applied to parsed CRTF ellipse parameters [[x, y], [bmaj, bmin], pa]"""
    from regions.io.crtf.read import _CRTFRegionParser
    import copy
    p = object.__new__(_CRTFRegionParser)
    p.region_type = 'ellipse'
    p.coord = [center_lon, center_lat, major, minor, pa]
    p.meta = {}
    p.coordsys = 'fk5'
    p.include = True
    p.make_shape()
    return p.shape.to_region()


@contract('regions/io/crtf/read.py::_CRTFRegionParser.make_shape', props=['C11'])
class crtf_ellipse_axes_convention_is_inverted_on_read:
    def setup(B):
        return dict(r=region(B, 'ellipse', 'fk5'))
    pre = lambda r: r.width.to_value('rad') > 0 and r.height.to_value('rad') > 0
    call = lambda r: decode_ellipse(angle_of(r.center.lon), angle_of(r.center.lat), r.height / 2, r.width / 2, r.angle)
    post = {'recovers_the_region': lambda r, result: result.__class__ is r.__class__
            and result.width.to_value('rad') == r.width.to_value('rad') and result.height.to_value('rad') == r.height.to_value('rad')
            and result.angle.to_value('rad') == r.angle.to_value('rad')
            and result.center.lon.to_value('rad') == r.center.lon.to_value('rad') and result.center.lat.to_value('rad') == r.center.lat.to_value('rad')
            and result.center.frame.name == 'fk5'}


def angle_of(q):
    from astropy.coordinates import Angle
    return Angle(q)


# ---------------------------------------------------------------------------- reading: from parsed tokens to the region
# The line grammar (regular expressions: shape name, bracket groups, key=value pairs) is text processing outside the verifier and is
# covered by the bounded runner.  Everything after it is real code under contract here: `_CRTFRegionParser` is run through its real
# constructor and `parse()`, with the one regex step (`convert_coordinates`: text -> list of Angle/Quantity tokens) replaced by the
# token list itself, for symbolic token values in every unit notation.
RKINDS = ('circle', 'box', 'centerbox', 'rotbox', 'poly', 'annulus', 'ellipse', 'line', 'symbol', 'text')
RSYS = {'image': None, 'J2000': 'fk5', 'B1950': 'fk4', 'ICRS': 'icrs', 'GALACTIC': 'galactic', 'j2000': 'fk5'}
RCASES = {f'{k}-{s}-{sign or "none"}-{au}': {'kind': k, 'sys': s, 'sign': sign, 'aunit': au}
          for k in RKINDS for s in ('image', 'J2000', 'GALACTIC') for sign in ('+', '-', None) for au in ('deg', 'rad')
          if not (au == 'rad' and k not in ('rotbox', 'ellipse')) and not (sign is None and s != 'image')}
RCASES.update({f'circle-{s}-+-deg': {'kind': 'circle', 'sys': s, 'sign': '+', 'aunit': 'deg'} for s in ('B1950', 'ICRS', 'j2000')})
RCASES['circle-default-+-deg'] = {'kind': 'circle', 'sys': None, 'sign': '+', 'aunit': 'deg'}     # no coord= anywhere: image


def tokens_for(B, kind, sys, aunit):
    """what the tokeniser hands on for `kind[...]`: coordinates as Angle (celestial) or dimensionless Quantity (pix), lengths as
    Quantity in the unit written (here: arcsec / deg for celestial lengths), the position angle in `aunit`"""
    import astropy.units as u
    sky = sys not in ('image', None)

    def c(name):
        return angle_of(B.quantity(name, 'deg')) if sky else B.call(u.Quantity, B.real(name), u.dimensionless_unscaled)

    def l(name, unit='arcsec'):
        return B.quantity(name, unit) if sky else B.call(u.Quantity, B.real(name), u.dimensionless_unscaled)
    if kind == 'circle':
        return [c('x'), c('y'), l('r')]
    if kind == 'box':
        return [c('x'), c('y'), c('x2'), c('y2')]
    if kind == 'centerbox':
        return [c('x'), c('y'), l('w'), l('h', 'deg')]
    if kind == 'rotbox':
        return [c('x'), c('y'), l('w'), l('h', 'deg'), B.quantity('pa', aunit)]
    if kind == 'poly':
        return [c('x'), c('y'), c('x2'), c('y2'), c('x3'), c('y3'), c('x4'), c('y4')]
    if kind == 'annulus':
        return [c('x'), c('y'), l('r'), l('r2', 'deg')]
    if kind == 'ellipse':
        return [c('x'), c('y'), l('bmaj'), l('bmin', 'deg'), B.quantity('pa', aunit)]
    if kind in ('line',):
        return [c('x'), c('y'), c('x2'), c('y2')]
    return [c('x'), c('y')]


def tokens_wf(kind, t):
    """sizes a region accepts (what happens to the others is C17's subject)"""
    v = lambda q: q.to_value('rad') if q.unit.physical_type == 'angle' else q.value
    if kind == 'circle':
        return v(t[2]) > 0
    if kind in ('centerbox', 'rotbox', 'ellipse'):
        return v(t[2]) > 0 and v(t[3]) > 0
    if kind == 'annulus':
        return 0 < v(t[2]) and v(t[2]) < v(t[3])
    if kind == 'box':
        return v(t[0]) != v(t[2]) and v(t[1]) != v(t[3])
    return True


def decode_tokens(kind, tokens, global_meta, sign, type_):
    from regions.io.crtf.read import _CRTFRegionParser

    class TokensGiven(_CRTFRegionParser):
        def convert_coordinates(self):
            # the tokeniser's result; what it does besides for text / symbol lines is reproduced from convert_coordinates
            self.coord = list(tokens)
            if self.region_type == 'symbol':
                self.meta['symbol'] = '+'
            elif self.region_type == 'text':
                self.meta['text'] = 'some text'
    return TokensGiven(global_meta, sign, type_, kind, '', '').shape.to_region()


def same_q(a, b):
    """equal as physical quantities and written in the same unit"""
    return a.unit == b.unit and a.value == b.value


def decoded_ok(kind, sys, tokens, result):
    """the CASA reading of the tokens (statement of C11): class, position(s), sizes, angle"""
    sky = sys not in ('image', None)
    t = tokens
    name = result.__class__.__name__
    want = {'circle': 'Circle', 'box': 'Rectangle', 'centerbox': 'Rectangle', 'rotbox': 'Rectangle', 'poly': 'Polygon',
            'annulus': 'CircleAnnulus', 'ellipse': 'Ellipse', 'line': 'Line', 'symbol': 'Point', 'text': 'Text'}[kind] + ('Sky' if sky else 'Pixel') + 'Region'
    if name != want:
        return False

    def at(c, x, y, i=None):
        if sky:
            lon, lat = c.spherical.lon.to_value('rad'), c.spherical.lat.to_value('rad')
            if i is not None:
                lon, lat = lon[i], lat[i]
            return c.frame.name == RSYS[sys] and lon == x.to_value('rad') and lat == y.to_value('rad')
        cx, cy = (c.x, c.y) if i is None else (c.x[i], c.y[i])
        return cx == x.value and cy == y.value

    def size(got, tok, factor=1):
        if sky:
            return got.to_value('rad') == factor * tok.to_value('rad')
        return got == factor * tok.value
    if kind == 'circle':
        return at(result.center, t[0], t[1]) and size(result.radius, t[2])
    if kind == 'annulus':
        return at(result.center, t[0], t[1]) and size(result.inner_radius, t[2]) and size(result.outer_radius, t[3])
    if kind == 'centerbox':
        return at(result.center, t[0], t[1]) and size(result.width, t[2]) and size(result.height, t[3]) and result.angle.to_value('rad') == 0
    if kind == 'rotbox':
        return at(result.center, t[0], t[1]) and size(result.width, t[2]) and size(result.height, t[3]) and same_q(result.angle, t[4])
    if kind == 'ellipse':
        # [bmaj, bmin] are SEMI-axes; the major axis is the region's height, the minor its width
        return at(result.center, t[0], t[1]) and size(result.height, t[2], 2) and size(result.width, t[3], 2) and same_q(result.angle, t[4])
    if kind == 'box':
        if sky:
            cx, cy = (t[0].to_value('rad') + t[2].to_value('rad')) / 2, (t[1].to_value('rad') + t[3].to_value('rad')) / 2
            ok = result.center.frame.name == RSYS[sys] and result.center.spherical.lon.to_value('rad') == cx and result.center.spherical.lat.to_value('rad') == cy
            return ok and result.width.to_value('rad') == abs(t[0].to_value('rad') - t[2].to_value('rad')) \
                and result.height.to_value('rad') == abs(t[1].to_value('rad') - t[3].to_value('rad'))
        return result.center.x == (t[0].value + t[2].value) / 2 and result.center.y == (t[1].value + t[3].value) / 2 \
            and result.width == abs(t[0].value - t[2].value) and result.height == abs(t[1].value - t[3].value)
    if kind == 'poly':
        n = len(result.vertices.spherical.lon) if sky else len(result.vertices.x)
        return n == 4 and at(result.vertices, t[0], t[1], 0) and at(result.vertices, t[2], t[3], 1) \
            and at(result.vertices, t[4], t[5], 2) and at(result.vertices, t[6], t[7], 3)
    if kind == 'line':
        return at(result.start, t[0], t[1]) and at(result.end, t[2], t[3])
    if kind == 'symbol':
        return at(result.center, t[0], t[1]) and result.visual['symbol'] == '+'
    return at(result.center, t[0], t[1]) and result.text == 'some text' and result.meta['label'] == 'some text'


@contract('regions/io/crtf/read.py::_CRTFRegionParser.parse', props=['C11'])
class crtf_tokens_are_read_by_the_casa_rules:
    """global defaults (coord=, color, label-less), sign, annotation type and the token list of one region line -> the region"""
    cases = dict(RCASES)
    cases.update({k + '-ann': dict(v, type_='ann') for k, v in RCASES.items() if k in ('circle-J2000-+-deg', 'rotbox-image---deg', 'text-GALACTIC-+-deg')})

    def setup(B, kind='circle', sys='J2000', sign='+', aunit='deg', type_='reg'):
        gm = {'color': 'blue', 'linewidth': '2', 'frame': 'BARY'}
        if sys is not None:
            gm['coord'] = sys
        return dict(kind=kind, sys=sys, tokens=tokens_for(B, kind, sys, aunit), global_meta=gm, sign=sign, type_=type_)
    pre = lambda kind, tokens: tokens_wf(kind, tokens)
    call = lambda kind, tokens, global_meta, sign, type_: decode_tokens(kind, tokens, global_meta, sign, type_)
    post = {
        'geometry_by_the_casa_conventions': lambda kind, sys, tokens, result: decoded_ok(kind, sys, tokens, result),
        'a_leading_minus_excludes': lambda sign, result: result.meta['include'] == (sign != '-'),
        'annotation_type_kept': lambda type_, result: result.meta['type'] == type_,
        'global_defaults_apply': lambda result: result.visual['color'] == 'blue' and result.visual['linewidth'] == '2' and result.meta['frame'] == 'BARY'
            and 'coord' not in result.meta and 'coord' not in result.visual,
        'global_meta_not_modified': lambda sys, global_meta: global_meta == dict({'color': 'blue', 'linewidth': '2', 'frame': 'BARY'}, **({'coord': sys} if sys is not None else {})),
    }


# ---------------------------------------------------------------------------- reading: coordinate and length tokens
from vprim import exact_number_text as N, PI

CREAD = 'regions/io/crtf/read.py::_CRTFCoordinateParser.'


def ctok(B, form, dots=1):
    """(token text, the numbers it is written with); a, b >= 0 are the integer fields of a sexagesimal notation, c >= 0 its seconds
    (written with a decimal point); a plain value v is written with (dots=1) or without (dots=0) a decimal point"""
    v, c = (B.real('v') if dots else B.int('v')), B.real('c')
    a, b = B.int('a'), B.int('b')
    B.assume(a >= 0)
    B.assume(b >= 0)
    B.assume(c >= 0)
    if form in ('a:b:c', '-a:b:c', 'hms'):
        B.assume(a <= 24)        # field ranges Angle accepts (hours <= 24, minutes and seconds <= 60); beyond them it raises ValueError
    B.assume(b <= 60)
    B.assume(c <= 60)
    if form in ('pix', 'deg', 'rad', 'arcmin', 'arcsec', '"', "'"):
        return N(v, dots) + form, (v,)
    if form == 'bare':
        return N(v, dots), (v,)
    if form == 'a:b:c':
        return N(a, 0) + ':' + N(b, 0) + ':' + N(c, 1), (a, b, c)
    if form == '-a:b:c':
        return '-' + N(a, 0) + ':' + N(b, 0) + ':' + N(c, 1), (a, b, c)
    if form == 'a.b.c':
        return N(a, 0) + '.' + N(b, 0) + '.' + N(c, 1), (a, b, c)
    if form == '-a.b.c':
        return '-' + N(a, 0) + '.' + N(b, 0) + '.' + N(c, 1), (a, b, c)
    if form == 'hms':
        return N(a, 0) + 'h' + N(b, 0) + 'm' + N(c, 1) + 's', (a, b, c)
    if form == 'dms':
        return N(a, 0) + 'd' + N(b, 0) + 'm' + N(c, 1) + 's', (a, b, c)
    raise ValueError(form)


def coordinate_parser():
    from regions.io.crtf.read import _CRTFCoordinateParser
    return _CRTFCoordinateParser


def sexa(nums):
    return nums[0] + nums[1] / 60 + nums[2] / 3600


def coordinate_rad(form, nums):
    """CASA: <n>deg, <n>rad, hh:mm:ss.s is an hour angle, XhYmZs hours, XdYmZs degrees"""
    if form == 'deg':
        return nums[0] * PI / 180
    if form == 'rad':
        return nums[0]
    if form == 'a:b:c':
        return sexa(nums) * PI / 12
    if form == '-a:b:c':
        return -sexa(nums) * PI / 12
    if form == 'a.b.c':
        return sexa(nums) * PI / 180          # dd.mm.ss.s is in degrees
    if form == '-a.b.c':
        return -sexa(nums) * PI / 180
    if form == 'hms':
        return sexa(nums) * PI / 12
    if form == 'dms':
        return sexa(nums) * PI / 180
    return None


@contract(CREAD + 'parse_coordinate', props=['C11'])
class crtf_coordinate_token:
    cases = {f: {'form': f} for f in ('a:b:c', '-a:b:c', 'a.b.c', '-a.b.c', 'hms', 'dms')}
    cases.update({f + ('' if d else '-integer'): {'form': f, 'dots': d} for f in ('pix', 'deg', 'rad') for d in (1, 0)})

    def setup(B, form='deg', dots=1):
        t, nums = ctok(B, form, dots)
        return dict(string_rep=t, nums=nums, form=form)
    call = lambda string_rep: coordinate_parser().parse_coordinate(string_rep)
    post = {
        'pixel_coordinates_are_plain_numbers': lambda form, nums, result:
            form != 'pix' or (result.unit.physical_type == 'dimensionless' and result.value == nums[0]),
        'celestial_coordinates_by_the_casa_notations': lambda form, nums, result:
            form == 'pix' or (result.__class__.__name__ == 'Angle' and result.to_value('rad') == coordinate_rad(form, nums)),
    }


def length_value(form, nums):
    """(physical type, value in rad or in pixels)"""
    v = nums[0]
    return {'deg': ('angle', v * PI / 180), 'rad': ('angle', v), 'arcmin': ('angle', v * PI / 10800), "'": ('angle', v * PI / 10800),
            'arcsec': ('angle', v * PI / 648000), '"': ('angle', v * PI / 648000), 'pix': ('dimensionless', v)}[form]


@contract(CREAD + 'parse_angular_length_quantity', props=['C11'])
class crtf_length_token:
    """lengths require units: a bare number is refused; every CASA unit notation gives the quantity it denotes"""
    cases = {f + ('' if d else '-integer'): {'form': f, 'dots': d} for f in ('deg', 'rad', 'arcmin', 'arcsec', '"', "'", 'pix', 'bare') for d in (1, 0)}

    def setup(B, form='deg', dots=1):
        t, nums = ctok(B, form, dots)
        return dict(string_rep=t, nums=nums, form=form)
    call = lambda string_rep: coordinate_parser().parse_angular_length_quantity(string_rep)
    raises = {'CRTFRegionParserError': lambda form: form == 'bare'}
    post = {'value_and_unit': lambda form, nums, result:
            result.unit.physical_type == length_value(form, nums)[0]
            and (result.to_value('rad') if form != 'pix' else result.value) == length_value(form, nums)[1]}


# ---------------------------------------------------------------------------- reading: the line grammar on concrete lines
# (regular expressions run through the real `re` on concrete text: these cases are executed, not generalised - the general statements
# are the token and decoder contracts above; they pin the wiring between the grammar and those layers)
def _parse(text):
    from regions.io.crtf.read import _parse_crtf
    return _parse_crtf(text)


GRAMMAR = {
    'globals_accumulate': ('#CRTFv0\nglobal coord=GALACTIC, color=blue\nglobal linewidth=2\ncircle[[10deg, 20deg], 1deg]',
                           dict(cls='CircleSkyRegion', frame='galactic', visual={'color': 'blue', 'linewidth': '2'}, include=True, type='reg')),
    'later_global_overrides': ('#CRTFv0\nglobal coord=J2000, color=blue\nglobal color=green\ncircle[[10deg, 20deg], 1deg]',
                               dict(cls='CircleSkyRegion', frame='fk5', visual={'color': 'green'}, include=True, type='reg')),
    'inline_overrides_global': ('#CRTFv0\nglobal coord=J2000, color=blue, linewidth=2\ncircle[[10deg, 20deg], 1deg], color=red',
                                dict(cls='CircleSkyRegion', frame='fk5', visual={'color': 'red', 'linewidth': '2'}, include=True, type='reg')),
    'inline_coord_selects_the_frame': ('#CRTFv0\nglobal coord=J2000\ncircle[[10deg, 20deg], 1deg], coord=GALACTIC',
                                       dict(cls='CircleSkyRegion', frame='galactic', visual={}, include=True, type='reg')),
    'minus_excludes': ('#CRTFv0\n-circle[[10pix, 20pix], 3pix]', dict(cls='CirclePixelRegion', frame=None, visual={}, include=False, type='reg')),
    'ann_marks_annotations': ('#CRTFv0\nann circle[[10pix, 20pix], 3pix]', dict(cls='CirclePixelRegion', frame=None, visual={}, include=True, type='ann')),
    'no_coord_means_image': ('#CRTFv0\nrotbox[[10pix, 20pix], [4pix, 6pix], 0.5rad]', dict(cls='RectanglePixelRegion', frame=None, visual={}, include=True, type='reg')),
}


@contract('regions/io/crtf/read.py::_parse_crtf', props=['C11', 'C13'])
class crtf_line_grammar_cases:
    cases = {k: {'which': k} for k in GRAMMAR}

    def setup(B, which='globals_accumulate'):
        return dict(text=GRAMMAR[which][0], want=GRAMMAR[which][1])
    call = lambda text: (_parse(text), _parse(text))
    post = {
        'one_region_of_the_class': lambda want, result: len(result[0]) == 1 and result[0][0].__class__.__name__ == want['cls'],
        'frame': lambda want, result: want['frame'] is None or result[0][0].center.frame.name == want['frame'],
        'defaults_and_overrides': lambda want, result: dict(result[0][0].visual) == want['visual'],
        'sign_and_type': lambda want, result: result[0][0].meta['include'] == want['include'] and result[0][0].meta['type'] == want['type'],
        'parsing_again_gives_the_same': lambda result: result[0][0] == result[1][0] and dict(result[0][0].meta) == dict(result[1][0].meta),
    }


# ---------------------------------------------------------------------------- writing: lengths in the requested unit, whatever their type
def _serialize_with(regions, radunit, fmt):
    from regions.io.crtf.write import _serialize_crtf
    return _serialize_crtf(regions, coordsys='fk5', fmt=fmt, radunit=radunit)


def _with_sizes_as(B, r, kind, how):
    """the same region with its angular sizes given as astropy Angle objects (a Quantity subclass users do pass) or left as Quantity"""
    if how == 'quantity':
        return r
    names = {'circle': ('radius',), 'circle_annulus': ('inner_radius', 'outer_radius'), 'rectangle': ('width', 'height')}[kind]
    for n in names:
        r.__dict__[n] = angle_of(r.__dict__[n])
    return r


def _shape_text_in(kind, r, radunit, nd):
    from spec.crtf import lonlat_nd
    S = lambda q: vprim_num(q.to_value(radunit), nd) + ('"' if radunit == 'arcsec' else radunit)      # arcseconds are written with the CASA mark "
    if kind == 'circle':
        return 'circle[' + lonlat_nd(r.center, nd) + ', ' + S(r.radius) + ']'
    if kind == 'circle_annulus':
        return 'annulus[' + lonlat_nd(r.center, nd) + ', [' + S(r.inner_radius) + ', ' + S(r.outer_radius) + ']]'
    return 'rotbox[' + lonlat_nd(r.center, nd) + ', [' + S(r.width) + ', ' + S(r.height) + '], ' + vprim_num(r.angle.to_value('deg'), nd) + 'deg]'


def vprim_num(v, nd):
    from vprim import rope_fmt
    return rope_fmt(v, nd)


@contract('regions/io/crtf/write.py::_serialize_crtf', props=['C11'])
class crtf_lengths_are_written_in_the_requested_unit:
    """radunit selects the unit of every length; a length is the same physical quantity whether the region holds it as a Quantity
    or as an Angle, and in whatever unit it holds it; fmt selects the number of decimals"""
    cases = {f'{k}-{ru}-{how}-{fmt}': {'kind': k, 'radunit': ru, 'how': how, 'fmt': fmt}
             for k in ('circle', 'circle_annulus', 'rectangle') for ru in ('deg', 'arcsec', 'arcmin') for how in ('quantity', 'angle')
             for fmt in ('.6f', '.3f') if fmt == '.6f' or (k == 'circle' and how == 'quantity')}

    def setup(B, kind='circle', radunit='deg', how='quantity', fmt='.6f'):
        return dict(r=_with_sizes_as(B, region(B, kind, 'fk5'), kind, how), kind=kind, radunit=radunit, fmt=fmt)
    call = lambda r, radunit, fmt: _serialize_with([r], radunit, fmt)
    post = {'region_line': lambda r, kind, radunit, fmt, result: len(lines_of(result)) == 3 and text_equal(
        lines_of(result)[2], _shape_text_in(kind, r, radunit, int(fmt[1])))}
