"""C11 (structural layer): the CRTF serialiser writes each region as the CASA conventions prescribe (symbolic parameters),
does not touch its inputs, and the shape decoder inverts the ellipse-axis convention"""
from pyvc.api import contract
from contracts.common import META, VISUAL
from contracts.c09_ds9 import mk
from spec.crtf import COORD, shape_text
from vprim import text_equal

KINDS = ('circle', 'ellipse', 'rectangle', 'circle_annulus', 'line', 'text', 'point')
FRAMES = ('fk5', 'fk4', 'icrs', 'galactic')


def serialize(regions, coordsys='fk5'):
    from regions.io.crtf.write import _serialize_crtf
    return _serialize_crtf(regions, coordsys=coordsys)


def region(B, kind, frame, meta=None, visual=None):
    visual = dict(visual or {})
    if kind == 'point':
        visual['symbol'] = '+'
    return mk(B, kind, 'r', frame, meta, visual)


def lines_of(text):
    from spec.ds9 import _lines, _text
    return [_text(l) for l in _lines(text)]


@contract('regions/io/crtf/write.py::_serialize_crtf', props=['C11', 'C13'])
class crtf_single_region_text:
    cases = {k + '-' + f + '-' + i: {'kind': k, 'frame': f, 'inc': i} for k in KINDS for f in FRAMES for i in ('absent', 'false', 'true')
             if f == 'fk5' or (k in ('circle', 'ellipse') and i == 'absent')}
    cases.update({k + '-fk5-' + i + '-' + t: {'kind': k, 'frame': 'fk5', 'inc': i, 'typ': t}
                  for k in ('circle', 'line') for i in ('absent', 'false', 'true') for t in ('ann', 'reg')})

    def setup(B, kind='circle', frame='fk5', inc='absent', typ=None):
        m = {} if inc == 'absent' else {'include': inc == 'true'}
        if typ is not None:
            m['type'] = typ
        return dict(r=region(B, kind, frame, m), kind=kind, frame=frame, inc=inc, typ=typ)
    call = lambda r, frame: serialize([r], frame)
    post = {
        'header_and_frame': lambda frame, result: lines_of(result)[0] == '#CRTFv0' and lines_of(result)[1] == 'global coord=' + COORD[frame],
        # exclusion is the leading '-', an annotation is marked by 'ann ' after it; neither hides the other
        'one_region_line_per_casa_conventions': lambda r, kind, inc, typ, result: len(lines_of(result)) == 3 and text_equal(
            lines_of(result)[2], ('-' if inc == 'false' else '') + ('ann ' if typ == 'ann' else '') + shape_text(kind, r)),
    }


@contract('regions/io/crtf/write.py::_serialize_crtf', props=['C11', 'C13'])
class crtf_serialising_twice_gives_the_same_text:
    """also catches any modification of the regions by the first serialisation (e.g. of their include flag)"""
    cases = {i: {'inc': i} for i in ('absent', 'false', 'true')}

    def setup(B, inc='false'):
        m = {} if inc == 'absent' else {'include': inc == 'true'}
        return dict(r=region(B, 'circle', 'fk5', m))
    call = lambda r: (serialize([r]), serialize([r]), dict(r.meta))
    post = {'same_text': lambda result: text_equal(result[0], result[1])}


def decode_ellipse(center_lon, center_lat, major, minor, pa):
    """the real shape decoder applied to parsed CRTF ellipse parameters [[x, y], [bmaj, bmin], pa]"""
    from regions.io.crtf.read import _CRTFRegionParser
    import copy
    p = object.__new__(_CRTFRegionParser)
    p.region_type = 'ellipse'
    p.coord = [center_lon, center_lat, major, minor, pa]
    p.meta = {}
    p.coordsys = 'fk5'
    p.include = True
    p.make_shape()
    return p.shape.to_region()


@contract('regions/io/crtf/read.py::_CRTFRegionParser.make_shape', props=['C11'])
class crtf_ellipse_axes_convention_is_inverted_on_read:
    def setup(B):
        return dict(r=region(B, 'ellipse', 'fk5'))
    pre = lambda r: r.width.to_value('rad') > 0 and r.height.to_value('rad') > 0
    call = lambda r: decode_ellipse(angle_of(r.center.lon), angle_of(r.center.lat), r.height / 2, r.width / 2, r.angle)
    post = {'recovers_the_region': lambda r, result: result.__class__ is r.__class__
            and result.width.to_value('rad') == r.width.to_value('rad') and result.height.to_value('rad') == r.height.to_value('rad')
            and result.angle.to_value('rad') == r.angle.to_value('rad')
            and result.center.lon.to_value('rad') == r.center.lon.to_value('rad') and result.center.lat.to_value('rad') == r.center.lat.to_value('rad')
            and result.center.frame.name == 'fk5'}


def angle_of(q):
    from astropy.coordinates import Angle
    return Angle(q)
