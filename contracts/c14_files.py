"""C14: writing never clobbers or half-writes (ghost file system: every effect on the destination is an event, and the order
of effects on every normal and exceptional path is what is verified); the format is identified from the extension tables or
the content signature; reading hands the file content to the parser."""
from pyvc.api import contract
from contracts.c09_ds9 import mk, compound_of
from vprim import text_equal, stub

DEST = 'out.dat'
WRITERS = {'ds9': 'regions/io/ds9/write.py::_write_ds9', 'crtf': 'regions/io/crtf/write.py::_write_crtf',
           'fits': 'regions/io/fits/write.py::_write_fits'}
FAILS = ('none', 'bad_region_first', 'bad_region_last', 'bad_option', 'late_failing_region', 'late_failing_option')
NOT_A_FAILURE = ('none', 'empty_list', 'all_skipped')      # lists that serialise to (nearly) nothing are written like any other


def preexisting(path, content='OLD CONTENT'):
    from externals.os_model import files
    files()[path] = {'content': content, 'gz': False}


def content_of(path):
    from externals.os_model import files
    f = files()
    return f[path]['content'] if path in f else None


def regions_for(B, fmt, fail):
    """two good regions, optionally with an element the serialiser of that format cannot handle"""
    frame = 'image' if fmt == 'fits' else 'fk5'
    # a label outside ASCII is ordinary text (region files are written in the platform's text encoding, UTF-8 here)
    good = [mk(B, 'circle', 'g0', frame, {'text': '\u03b1 Cen'}), mk(B, 'ellipse', 'g1', frame)]
    if fail == 'empty_list':
        return []
    if fail == 'all_skipped':
        return [compound_of(B, 'skipped')] if fmt == 'ds9' else []
    if fail == 'bad_region_first':
        return [bad_region(B, fmt)] + good
    if fail == 'bad_region_last':
        return good + [bad_region(B, fmt)]
    if fail == 'late_failing_region':
        # an element that passes the first serialisation stage and fails in the last one
        # (CRTF: a pixel region in a file written in a celestial frame)
        return good + [mk(B, 'circle', 'late', 'image')]
    return good


def bad_region(B, fmt):
    if fmt == 'crtf':
        return compound_of(B, 'bad')                 # CRTF cannot express compound regions: the serialiser raises
    if fmt == 'ds9':
        # a region whose parameter is not formattable makes the DS9 serialiser raise
        r = mk(B, 'circle', 'bad', 'image')
        r.__dict__['radius'] = None
        return r
    r = mk(B, 'circle', 'bad', 'image')
    r.__dict__['radius'] = 'not a number'
    return r


def write(fmt, regions, filename, overwrite, fail):
    if fmt == 'ds9':
        from regions.io.ds9.write import _write_ds9
        return _write_ds9(regions, filename, precision=('x' if fail == 'bad_option' else 8), overwrite=overwrite)
    if fmt == 'crtf':
        from regions.io.crtf.write import _write_crtf
        if fail == 'late_failing_option':
            return _write_crtf(regions, filename, coordsys='image', radunit='arcsec', overwrite=overwrite)
        return _write_crtf(regions, filename, coordsys=('nosuchframe' if fail == 'bad_option' else 'fk5'), overwrite=overwrite)
    from regions.io.fits.write import _write_fits
    if fail == 'bad_option':
        return _write_fits(regions, filename, header={'EXTNAME': 'REGION', 'OBSERVER': 'Andr\u00e9'}, overwrite=overwrite)
    if fail == 'late_failing_option':
        return _write_fits(regions, filename, header={'EXTNAME': 'REGION', 'WHAT': [1, 2]}, overwrite=overwrite)
    return _write_fits(regions, filename, overwrite=overwrite)


def serialize(fmt, regions):
    if fmt == 'ds9':
        from regions.io.ds9.write import _serialize_ds9
        return _serialize_ds9(regions, precision=8)
    if fmt == 'crtf':
        from regions.io.crtf.write import _serialize_crtf
        return _serialize_crtf(regions, coordsys='fk5')
    from regions.io.fits.write import _serialize_fits
    return _serialize_fits(regions)


def attempt(fmt, regions, filename, overwrite, fail):
    try:
        write(fmt, regions, filename, overwrite, fail)
    except OSError:
        return 'OSError'
    except Exception:
        return 'error'
    return 'ok'


def destination_events(events):
    return [e for e in events.of('fs') if e['op'] in ('open_w', 'write', 'fits.writeto', 'remove')]


def existed(events, exists):
    """did the destination exist when the writer asked? (pre-created by the contract, or the abstract answer of lexists/exists)"""
    if exists:
        return True
    from vprim import fs_initially
    return fs_initially('lexists', DEST)      # a dangling symbolic link counts (exists() would say no)


@contract('regions/io/ds9/write.py::_write_ds9', props=['C14', 'C13'])
class write_never_clobbers_or_half_writes:
    cases = {f + '-' + ('existing' if ex else 'unknown') + '-' + ('overwrite' if ow else 'keep') + '-' + fl:
             {'fmt': f, 'exists': ex, 'overwrite': ow, 'fail': fl}
             for f in ('ds9', 'crtf', 'fits') for ex in (True, False) for ow in (False, True) for fl in FAILS + ('empty_list', 'all_skipped')
             if not (f == 'ds9' and fl.startswith('late_')) and not (f == 'fits' and fl == 'late_failing_region')
             and not (fl in ('empty_list', 'all_skipped') and f == 'fits') and not (fl == 'all_skipped' and f != 'ds9')}

    def setup(B, fmt='ds9', exists=True, overwrite=False, fail='none'):
        if exists:
            preexisting(DEST)
        regs = regions_for(B, fmt, fail)
        size = lambda v: v.to_value('rad') if hasattr(v, 'to_value') else v
        for r in regs:
            if r.__class__.__name__.startswith('Circle') and r.radius is not None and not isinstance(r.radius, str):
                B.assume(size(r.radius) > 0)
            if r.__class__.__name__.startswith('Ellipse'):
                B.assume(size(r.width) > 0)
                B.assume(size(r.height) > 0)
        return dict(regions=regs, fmt=fmt, exists=exists, overwrite=overwrite, fail=fail)
    call = lambda fmt, regions, overwrite, fail: attempt(fmt, regions, DEST, overwrite, fail)
    post = {
        'existing_destination_without_overwrite_is_refused': lambda exists, overwrite, events, result:
            (not (existed(events, exists) and not overwrite)) or result == 'OSError',
        'refused_or_failed_write_leaves_destination_untouched': lambda events, result:
            result == 'ok' or len(destination_events(events)) == 0,
        'existing_content_kept_when_not_written': lambda exists, result: result == 'ok' or (not exists) or content_of(DEST) == 'OLD CONTENT',
        'a_failing_element_or_option_fails_the_write': lambda fail, result: fail in NOT_A_FAILURE or result != 'ok',
        'success_writes_exactly_the_serialisation': lambda fmt, regions, result:
            result != 'ok' or (text_equal(content_of(DEST), serialize(fmt, regions)) if fmt != 'fits' else fits_same(content_of(DEST), regions)),
        'good_input_and_free_destination_succeeds': lambda exists, overwrite, fail, events, result:
            fail not in NOT_A_FAILURE or (existed(events, exists) and not overwrite) or result == 'ok',
    }


def fits_same(hdu, regions):
    from regions.io.fits.read import parse_table
    a, b = parse_table(hdu._table), parse_table(serialize('fits', regions))
    return len(a) == len(b) and all(a[i] == b[i] for i in range(len(a)))


# ---------------------------------------------------------------------------- format identification
EXT = {
    'ds9': {'write': ('.ds9', '.reg'), 'read': ('.ds9', '.reg', '.ds9.gz', '.reg.gz')},
    'crtf': {'write': ('.crtf',), 'read': ('.crtf', '.crtf.gz')},
    'fits': {'write': ('.fits', '.fit', '.fts'), 'read': ('.fits', '.fit', '.fts', '.fits.gz', '.fit.gz', '.fts.gz')},
}
ALL_EXT = ('.ds9', '.reg', '.ds9.gz', '.reg.gz', '.crtf', '.crtf.gz', '.fits', '.fit', '.fts', '.fits.gz', '.fit.gz', '.fts.gz', '.txt', '.dat', '')


def identify(method, filename):
    from regions.core.registry import RegionsRegistry
    from regions.core.regions import Regions
    from regions.io.ds9.connect import is_ds9        # noqa: importing registers the identifiers
    from regions.io.crtf.connect import is_crtf      # noqa
    from regions.io.fits.connect import is_fits      # noqa
    try:
        return RegionsRegistry.identify_format(filename, Regions, method)
    except Exception as e:
        return 'error:' + e.__class__.__name__


def expected_format(method, ext):
    for f in ('ds9', 'crtf', 'fits'):
        if ext in EXT[f][method]:
            return f
    return None


@contract('regions/core/registry.py::RegionsRegistry.identify_format', props=['C14'])
class format_identified_from_extension:
    cases = {m + ':' + (e or 'none') + (':upper' if up else ''): {'method': m, 'ext': e, 'upper': up}
             for m in ('write', 'read') for e in ALL_EXT for up in (False, True) if not (up and e in ('', '.txt', '.dat'))}

    def setup(B, method='write', ext='.reg', upper=False):
        name = 'myregions' + (ext.upper() if upper else ext)
        if method == 'read':
            # the file exists; its content carries no DS9 / CRTF signature unless its extension says so
            fmt = expected_format('read', ext)
            if fmt == 'fits':
                from externals.os_model import files
                from astropy.io import fits
                files()[name] = {'content': fits.BinTableHDU(data=None), 'gz': False}
            else:
                preexisting(name, {'ds9': '# Region file format: DS9 astropy/regions\n', 'crtf': '#CRTFv0\n'}.get(fmt, 'no known signature here'))
        return dict(method=method, ext=ext, name=name)
    call = lambda method, name: identify(method, name)
    post = {'format': lambda method, ext, result:
            result == expected_format(method, ext) if expected_format(method, ext) is not None else result == 'error:IORegistryError'}


@contract('regions/core/registry.py::RegionsRegistry.identify_format', props=['C14'])
class format_identified_from_content_signature:
    """a renamed or gzip-compressed copy of a written DS9 / CRTF file is recognised by its first bytes"""
    cases = {f + ('-gz' if gz else ''): {'fmt': f, 'gz': gz} for f in ('ds9', 'crtf') for gz in (False, True)}

    def setup(B, fmt='ds9', gz=False):
        from externals.os_model import files
        regs = [mk(B, 'circle', 'r', 'fk5')]
        files()['copy.dat'] = {'content': serialize(fmt, regs), 'gz': gz}
        return dict(fmt=fmt)
    call = lambda: identify('read', 'copy.dat')
    post = {'identified': lambda fmt, result: result == fmt}


def identify_before_and_after(first, second, gz):
    from externals.os_model import files
    files()['copy.dat'] = {'content': first, 'gz': gz}
    a = identify('read', 'copy.dat')
    files()['copy.dat'] = {'content': second, 'gz': False}        # the same path, rewritten in the other format
    return (a, identify('read', 'copy.dat'))


@contract('regions/core/registry.py::RegionsRegistry.identify_format', props=['C14', 'C13'])
class format_is_identified_from_the_current_content:
    """what a path held when it was identified earlier does not matter: the format is that of the content it holds now"""
    cases = {a + '-then-' + b + ('-gz' if gz else ''): {'first': a, 'second': b, 'gz': gz}
             for a in ('ds9', 'crtf') for b in ('ds9', 'crtf') if a != b for gz in (False, True)}

    def setup(B, first='ds9', second='crtf', gz=False):
        regs = [mk(B, 'circle', 'r', 'fk5')]
        return dict(first=first, second=second, t1=serialize(first, regs), t2=serialize(second, regs), gz=gz)
    call = lambda t1, t2, gz: identify_before_and_after(t1, t2, gz)
    post = {'each_time_the_format_of_the_content': lambda first, second, result: result[0] == first and result[1] == second}


# ---------------------------------------------------------------------------- reading hands the content to the parser
def read_with_stubbed_parser(fmt, path):
    if fmt == 'ds9':
        stub('regions/io/ds9/read.py::_parse_ds9', lambda region_str: ('PARSED', region_str))
        from regions.io.ds9.read import _read_ds9
        return _read_ds9(path)
    stub('regions/io/crtf/read.py::_parse_crtf', lambda region_string, errors='strict': ('PARSED', region_string))
    from regions.io.crtf.read import _read_crtf
    return _read_crtf(path)


@contract('regions/io/ds9/read.py::_read_ds9', props=['C14'])
class read_parses_exactly_the_file_content:
    cases = {f + ('-gz' if gz else ''): {'fmt': f, 'gz': gz} for f in ('ds9', 'crtf') for gz in (False, True)}

    def setup(B, fmt='ds9', gz=False):
        from externals.os_model import files
        regs = [mk(B, 'circle', 'r', 'fk5'), mk(B, 'ellipse', 'e', 'fk5')]
        text = serialize(fmt, regs)
        files()['f.dat'] = {'content': text, 'gz': gz}
        return dict(fmt=fmt, text=text)
    call = lambda fmt: read_with_stubbed_parser(fmt, 'f.dat')
    post = {'parser_receives_the_written_text': lambda fmt, text, result: result[0] == 'PARSED' and (
        text_equal(result[1], text) if fmt == 'ds9' else text_equal('#CRTFv0\n' + result[1], text))}


# ---------------------------------------------------------------------------- the writers hand their options to the serialisers
OPTION_CASES = {
    'crtf-radunit': ('crtf', {'coordsys': 'fk5', 'fmt': '.6f', 'radunit': 'arcsec'}),
    'crtf-fmt': ('crtf', {'coordsys': 'fk5', 'fmt': '.3f', 'radunit': 'deg'}),
    'crtf-frame': ('crtf', {'coordsys': 'galactic', 'fmt': '.6f', 'radunit': 'arcmin'}),
    'ds9-precision': ('ds9', {'precision': 3}),
}


def write_with(fmt, regions, filename, opts):
    if fmt == 'ds9':
        from regions.io.ds9.write import _write_ds9
        return _write_ds9(regions, filename, overwrite=True, **opts)
    from regions.io.crtf.write import _write_crtf
    return _write_crtf(regions, filename, overwrite=True, **opts)


def serialize_with(fmt, regions, opts):
    if fmt == 'ds9':
        from regions.io.ds9.write import _serialize_ds9
        return _serialize_ds9(regions, **opts)
    from regions.io.crtf.write import _serialize_crtf
    return _serialize_crtf(regions, **opts)


@contract('regions/io/crtf/write.py::_write_crtf', props=['C14', 'C11', 'C09'])
class written_file_is_the_serialisation_with_the_same_options:
    """frame, number format and length unit asked of write() are the ones the file is written with"""
    cases = {k: {'fmt': v[0], 'opts': v[1]} for k, v in OPTION_CASES.items()}

    def setup(B, fmt='crtf', opts=None):
        regs = [mk(B, 'circle', 'g0', 'fk5', {'text': 'a'}), mk(B, 'ellipse', 'g1', 'fk5')]
        size = lambda v: v.to_value('rad')
        B.assume(size(regs[0].radius) > 0)
        B.assume(size(regs[1].width) > 0)
        B.assume(size(regs[1].height) > 0)
        return dict(regions=regs, fmt=fmt, opts=opts)
    call = lambda fmt, regions, opts: write_with(fmt, regions, DEST, opts)
    post = {'content': lambda fmt, regions, opts: text_equal(content_of(DEST), serialize_with(fmt, regions, opts))}


# ---------------------------------------------------------------------------- the public front doors hand everything on
# Region.write / Region.serialize / Regions.write / Regions.serialize / Regions.read / Regions.parse go through the registry; what
# they produce must be what the format's own function produces for the same regions and the same options.
def _import_io():
    from regions.io.ds9 import connect as _c1          # noqa: F401  (importing registers readers, writers and identifiers)
    from regions.io.crtf import connect as _c2         # noqa: F401
    from regions.io.fits import connect as _c3         # noqa: F401
    from regions.io.ds9 import read as _r1, write as _w1     # noqa: F401
    from regions.io.crtf import read as _r2, write as _w2    # noqa: F401
    from regions.io.fits import read as _r3, write as _w3    # noqa: F401


def front_serialize(kind, regs, fmt, opts):
    _import_io()
    from regions.core.regions import Regions
    if kind == 'region':
        return regs[0].serialize(format=fmt, **opts)
    return Regions(regs).serialize(format=fmt, **opts)


def front_write(kind, regs, fmt, opts, how):
    _import_io()
    from regions.core.regions import Regions
    name = DEST if how == 'format' else 'out' + {'ds9': '.reg', 'crtf': '.crtf'}[fmt]
    kw = dict(opts)
    if how == 'format':
        kw['format'] = fmt
    if kind == 'region':
        regs[0].write(name, overwrite=True, **kw)
    else:
        Regions(regs).write(name, overwrite=True, **kw)
    return content_of(name)


FRONT = {'ds9': {'precision': 3}, 'crtf': {'coordsys': 'galactic', 'fmt': '.3f', 'radunit': 'arcmin'}}


@contract('regions/core/core.py::Region.serialize', props=['C14', 'C09', 'C11', 'C13'])
class front_doors_serialize_like_the_format_function:
    cases = {k + '-' + f: {'kind': k, 'fmt': f} for k in ('region', 'regions') for f in ('ds9', 'crtf')}

    def setup(B, kind='region', fmt='ds9'):
        regs = [mk(B, 'circle', 'g0', 'fk5', {'text': 'a'})] + ([mk(B, 'ellipse', 'g1', 'fk5')] if kind == 'regions' else [])
        for r in regs:
            for nm in ('radius', 'width', 'height'):
                if hasattr(r, nm):
                    B.assume(getattr(r, nm).to_value('rad') > 0)
        return dict(kind=kind, regs=regs, fmt=fmt, opts=FRONT[fmt])
    call = lambda kind, regs, fmt, opts: front_serialize(kind, regs, fmt, opts)
    post = {'same_text_as_the_serialiser_with_the_same_options': lambda regs, fmt, opts, result: text_equal(result, serialize_with(fmt, regs, opts))}


@contract('regions/core/core.py::Region.write', props=['C14', 'C09', 'C11'])
class front_doors_write_like_the_format_function:
    """with the format given, or inferred from the file name: the file holds the serialisation with the caller's options"""
    cases = {k + '-' + f + '-' + h: {'kind': k, 'fmt': f, 'how': h} for k in ('region', 'regions') for f in ('ds9', 'crtf') for h in ('format', 'extension')}

    def setup(B, kind='region', fmt='ds9', how='format'):
        regs = [mk(B, 'circle', 'g0', 'fk5', {'text': 'a'})] + ([mk(B, 'ellipse', 'g1', 'fk5')] if kind == 'regions' else [])
        for r in regs:
            for nm in ('radius', 'width', 'height'):
                if hasattr(r, nm):
                    B.assume(getattr(r, nm).to_value('rad') > 0)
        return dict(kind=kind, regs=regs, fmt=fmt, opts=FRONT[fmt], how=how)
    call = lambda kind, regs, fmt, opts, how: front_write(kind, regs, fmt, opts, how)
    post = {'file_is_the_serialisation_with_the_same_options': lambda regs, fmt, opts, result: text_equal(result, serialize_with(fmt, regs, opts))}


def front_parse(fmt, text, how):
    _import_io()
    from regions.core.regions import Regions
    mod = {'ds9': 'regions/io/ds9/read.py::_parse_ds9', 'crtf': 'regions/io/crtf/read.py::_parse_crtf'}[fmt]
    stub(mod, lambda region_string, **kw: ('PARSED', region_string, sorted(kw.items())))
    if how == 'parse':
        return Regions.parse(text, format=fmt)
    name = 'in' + {'ds9': '.reg', 'crtf': '.crtf'}[fmt]
    preexisting(name, text)
    return Regions.read(name) if how == 'read-extension' else Regions.read(name, format=fmt)


@contract('regions/core/regions.py::Regions.parse', props=['C14', 'C10'])
class front_doors_read_with_the_format_function:
    """Regions.parse / Regions.read hand the text (of the file) to the parser of the format, given or inferred from the extension"""
    cases = {f + '-' + h: {'fmt': f, 'how': h} for f in ('ds9', 'crtf') for h in ('parse', 'read-format', 'read-extension')}

    def setup(B, fmt='ds9', how='parse'):
        text = {'ds9': '# Region file format: DS9 astropy/regions\nimage\ncircle(1,2,3)\n', 'crtf': '#CRTFv0\ncircle[[1pix, 2pix], 3pix], coord=image\n'}[fmt]
        return dict(fmt=fmt, text=text, how=how)
    call = lambda fmt, text, how: front_parse(fmt, text, how)
    # the CRTF file reader checks the '#CRTF' signature line itself and hands the remainder to the parser
    post = {'parser_received_the_text': lambda fmt, how, text, result: result[0] == 'PARSED' and result[1] == (
        text[text.index('\n') + 1:] if (fmt == 'crtf' and how != 'parse') else text)}
