"""C01: point membership equals the geometric definition; result has the shape/type of the query; include=False complements"""
from pyvc.api import contract
from contracts.common import (CIRCLE, ELLIPSE, RECTANGLE, POINT, LINE, TEXT, INCS, QUERIES, UNITS, circle, circle_ok, ellipse,
                              ellipse_ok, rectangle, point, text, line, query, meta_ok)
from spec.geometry import (between, cs, disk_closed, disk_open, ellipse_closed, ellipse_open, included, rect_closed,
                           rect_open)
from spec.arrays import bool_like, elem, idx_ok
from vprim import implies, is_array, shape_of

QI = {q + '-' + i: {'q': q, 'inc': i} for q in QUERIES for i in INCS}
QIU = {q + '-' + i + '-' + un: {'q': q, 'inc': i, 'unit': un} for q in QUERIES for i in INCS for un in UNITS}
# angles in further units (arcmin, hourangle) for a scalar query: code that special-cases deg / rad is wrong exactly there
QIU.update({'scalar-absent-' + un: {'q': 'scalar', 'inc': 'absent', 'unit': un} for un in ('arcmin', 'hourangle')})


def agrees(region, pixcoord, result, k, l, is_open, is_closed):
    """element (k, l) of the answer is the (boundary-agnostic) geometric membership, complemented when excluded"""
    x = elem(pixcoord.x, k, l)
    y = elem(pixcoord.y, k, l)
    ans = bool(elem(result, k, l))
    if included(region):
        return between(is_open(x, y), ans, is_closed(x, y))
    return between(is_open(x, y), not ans, is_closed(x, y))


@contract(CIRCLE + '.contains', props=['C01', 'C08', 'C13'])
class circle_contains:
    cases = QI

    def setup(B, q='scalar', inc='absent'):
        return dict(self=circle(B, 'r', inc), pixcoord=query(B, q))
    pre = lambda self: circle_ok(self)
    forall = {'k': 'int', 'l': 'int'}
    post = {
        'member': lambda self, pixcoord, result, k, l: implies(idx_ok(pixcoord.x, k, l), agrees(
            self, pixcoord, result, k, l,
            lambda x, y: disk_open(self.center.x, self.center.y, self.radius, x, y),
            lambda x, y: disk_closed(self.center.x, self.center.y, self.radius, x, y))),
        'shape_and_type': lambda self, pixcoord, result: bool_like(result, pixcoord.x),
    }


@contract(ELLIPSE + '.contains', props=['C01', 'C08', 'C13'])
class ellipse_contains:
    cases = QIU

    def setup(B, q='scalar', inc='absent', unit='deg'):
        return dict(self=ellipse(B, 'r', inc, unit), pixcoord=query(B, q))
    pre = lambda self: ellipse_ok(self)
    forall = {'k': 'int', 'l': 'int'}
    post = {
        'member': lambda self, pixcoord, result, k, l: implies(idx_ok(pixcoord.x, k, l), agrees(
            self, pixcoord, result, k, l,
            lambda x, y: ellipse_open(self.center.x, self.center.y, self.width, self.height, cs(self.angle)[0], cs(self.angle)[1], x, y),
            lambda x, y: ellipse_closed(self.center.x, self.center.y, self.width, self.height, cs(self.angle)[0], cs(self.angle)[1], x, y))),
        'shape_and_type': lambda self, pixcoord, result: bool_like(result, pixcoord.x),
    }


@contract(RECTANGLE + '.contains', props=['C01', 'C08', 'C13'])
class rectangle_contains:
    cases = QIU

    def setup(B, q='scalar', inc='absent', unit='deg'):
        return dict(self=rectangle(B, 'r', inc, unit), pixcoord=query(B, q))
    pre = lambda self: ellipse_ok(self)
    forall = {'k': 'int', 'l': 'int'}
    post = {
        'member': lambda self, pixcoord, result, k, l: implies(idx_ok(pixcoord.x, k, l), agrees(
            self, pixcoord, result, k, l,
            lambda x, y: rect_open(self.center.x, self.center.y, self.width, self.height, cs(self.angle)[0], cs(self.angle)[1], x, y),
            lambda x, y: rect_closed(self.center.x, self.center.y, self.width, self.height, cs(self.angle)[0], cs(self.angle)[1], x, y))),
        'shape_and_type': lambda self, pixcoord, result: bool_like(result, pixcoord.x),
    }


def nothing(x, y):
    return False


@contract(POINT + '.contains', props=['C01', 'C13'])
class point_contains:
    cases = QI

    def setup(B, q='scalar', inc='absent'):
        return dict(self=point(B, 'r', inc), pixcoord=query(B, q))
    pre = lambda self: meta_ok(self)
    forall = {'k': 'int', 'l': 'int'}
    post = {
        'member': lambda self, pixcoord, result, k, l: implies(idx_ok(pixcoord.x, k, l), agrees(
            self, pixcoord, result, k, l, nothing, nothing)),
        'shape_and_type': lambda self, pixcoord, result: bool_like(result, pixcoord.x),
    }


@contract(TEXT + '.contains', props=['C01', 'C13'])
class text_contains:
    cases = QI

    def setup(B, q='scalar', inc='absent'):
        return dict(self=text(B, 'r', inc), pixcoord=query(B, q))
    pre = lambda self: meta_ok(self)
    forall = {'k': 'int', 'l': 'int'}
    post = {
        'member': lambda self, pixcoord, result, k, l: implies(idx_ok(pixcoord.x, k, l), agrees(
            self, pixcoord, result, k, l, nothing, nothing)),
        'shape_and_type': lambda self, pixcoord, result: bool_like(result, pixcoord.x),
    }


@contract(LINE + '.contains', props=['C01', 'C13'])
class line_contains:
    cases = QI

    def setup(B, q='scalar', inc='absent'):
        return dict(self=line(B, 'r', inc), pixcoord=query(B, q))
    pre = lambda self: meta_ok(self)
    forall = {'k': 'int', 'l': 'int'}
    post = {
        'member': lambda self, pixcoord, result, k, l: implies(idx_ok(pixcoord.x, k, l), agrees(
            self, pixcoord, result, k, l, nothing, nothing)),
        'shape_and_type': lambda self, pixcoord, result: bool_like(result, pixcoord.x),
    }


# ---------------------------------------------------------------------------- polygon, annuli, compound, `in`
from contracts.common import (POLYGON, CIRCLE_ANN, ELLIPSE_ANN, RECT_ANN, COMPOUND, polygon, polygon_ok, circle_annulus,
                              circle_annulus_ok, asym_annulus, asym_annulus_ok, mk_meta, mk_visual)
from spec.polygon import crossings_odd


@contract(POLYGON + '.contains', props=['C01', 'C13'])
class polygon_contains:
    cases = QI

    def setup(B, q='scalar', inc='absent'):
        return dict(self=polygon(B, 'r', inc), pixcoord=query(B, q))
    pre = lambda self: polygon_ok(self)
    forall = {'k': 'int', 'l': 'int'}
    post = {
        'member': lambda self, pixcoord, result, k, l: implies(
            idx_ok(pixcoord.x, k, l) and idx_ok(result, k, l),
            bool(elem(result, k, l)) == (crossings_odd(self.vertices.x, self.vertices.y, float(elem(pixcoord.x, k, l)),
                                                       float(elem(pixcoord.y, k, l))) == included(self))),
        'shape_and_type': lambda self, pixcoord, result: bool_like(result, pixcoord.x),
    }


def ann_open(inner_closed, outer_open):
    return lambda x, y: outer_open(x, y) and not inner_closed(x, y)


def ann_closed(inner_open, outer_closed):
    return lambda x, y: outer_closed(x, y) and not inner_open(x, y)


@contract(CIRCLE_ANN + '.contains', props=['C01', 'C08', 'C13'])
class circle_annulus_contains:
    cases = QI

    def setup(B, q='scalar', inc='absent'):
        return dict(self=circle_annulus(B, 'r', inc), pixcoord=query(B, q))
    pre = lambda self: circle_annulus_ok(self)
    forall = {'k': 'int', 'l': 'int'}
    post = {
        'member': lambda self, pixcoord, result, k, l: implies(idx_ok(pixcoord.x, k, l), agrees(
            self, pixcoord, result, k, l,
            ann_open(lambda x, y: disk_closed(self.center.x, self.center.y, self.inner_radius, x, y),
                     lambda x, y: disk_open(self.center.x, self.center.y, self.outer_radius, x, y)),
            ann_closed(lambda x, y: disk_open(self.center.x, self.center.y, self.inner_radius, x, y),
                       lambda x, y: disk_closed(self.center.x, self.center.y, self.outer_radius, x, y)))),
        'shape_and_type': lambda self, pixcoord, result: bool_like(result, pixcoord.x),
    }


def _shape(fn, r, w, h):
    return lambda x, y: fn(r.center.x, r.center.y, w, h, cs(r.angle)[0], cs(r.angle)[1], x, y)


def annulus_modular(self, pixcoord, result, k, l):
    """(1) the annulus answers  inner.contains xor outer.contains  of its two component regions, negated once more when excluded
    (each component, sharing the annulus' meta, already answers its own complement then)"""
    a = bool(elem(self._inner_region.contains(pixcoord), k, l))
    b = bool(elem(self._outer_region.contains(pixcoord), k, l))
    x = (a != b)
    return bool(elem(result, k, l)) == (x if included(self) else not x)


def components_ok(self, cls_name):
    """(2) the components are the inner and the outer shape: same centre and angle, inner / outer sizes, the annulus' own meta"""
    i, o = self._inner_region, self._outer_region
    return (i.__class__.__name__ == cls_name and o.__class__.__name__ == cls_name
            and i.center.x == self.center.x and i.center.y == self.center.y and o.center.x == self.center.x and o.center.y == self.center.y
            and i.width == self.inner_width and i.height == self.inner_height and o.width == self.outer_width and o.height == self.outer_height
            and i.angle.to_value('rad') == self.angle.to_value('rad') and o.angle.to_value('rad') == self.angle.to_value('rad')
            and dict(i.meta) == dict(self.meta) and dict(o.meta) == dict(self.meta))


def nested(spec_closed, spec_open, self, x, y):
    """(3) spec-level lemma: a point of the closed inner shape lies in the open outer shape (inner sizes < outer sizes)"""
    c, s = cs(self.angle)
    if spec_closed is ellipse_closed:
        # the nonlinear step, proved for all reals on its own and used at the point's coordinates in the shape's frame
        from vprim import general
        from spec.geometry import to_shape_frame
        u, v = to_shape_frame(self.center.x, self.center.y, c, s, x, y)
        general('nested_ellipses', _nested_ellipses, u, v, self.inner_width / 2, self.inner_height / 2, self.outer_width / 2, self.outer_height / 2)
    return implies(spec_closed(self.center.x, self.center.y, self.inner_width, self.inner_height, c, s, x, y),
                   spec_open(self.center.x, self.center.y, self.outer_width, self.outer_height, c, s, x, y))


def _nested_ellipses(u, v, a, b, A, B):
    return (not (0 < a and a < A and 0 < b and b < B and (u / a) * (u / a) + (v / b) * (v / b) <= 1)) or (u / A) * (u / A) + (v / B) * (v / B) < 1


@contract(ELLIPSE_ANN + '.contains', props=['C01', 'C08', 'C13'])
class ellipse_annulus_contains:
    """modular: (1) xor of the component answers, (2) the components are the inner/outer ellipses, (3) inner lies in outer;
    with ellipse_contains (the component contract) this gives membership = outer and not inner, boundary excepted"""
    cases = QIU

    def setup(B, q='scalar', inc='absent', unit='deg'):
        return dict(self=asym_annulus(B, 'r', ELLIPSE_ANN, inc, unit), pixcoord=query(B, q))
    pre = lambda self: asym_annulus_ok(self)
    forall = {'k': 'int', 'l': 'int', 'x': 'real', 'y': 'real'}
    post = {
        'xor_of_components': lambda self, pixcoord, result, k, l: implies(idx_ok(pixcoord.x, k, l), annulus_modular(self, pixcoord, result, k, l)),
        'components_are_inner_and_outer': lambda self: components_ok(self, 'EllipsePixelRegion'),
        'inner_lies_in_outer': lambda self, x, y: nested(ellipse_closed, ellipse_open, self, x, y),
        'shape_and_type': lambda self, pixcoord, result: bool_like(result, pixcoord.x),
    }


@contract(RECT_ANN + '.contains', props=['C01', 'C08', 'C13'])
class rectangle_annulus_contains:
    cases = QIU

    def setup(B, q='scalar', inc='absent', unit='deg'):
        return dict(self=asym_annulus(B, 'r', RECT_ANN, inc, unit), pixcoord=query(B, q))
    pre = lambda self: asym_annulus_ok(self)
    forall = {'k': 'int', 'l': 'int', 'x': 'real', 'y': 'real'}
    post = {
        'xor_of_components': lambda self, pixcoord, result, k, l: implies(idx_ok(pixcoord.x, k, l), annulus_modular(self, pixcoord, result, k, l)),
        'components_are_inner_and_outer': lambda self: components_ok(self, 'RectanglePixelRegion'),
        'inner_lies_in_outer': lambda self, x, y: nested(rect_closed, rect_open, self, x, y),
        'shape_and_type': lambda self, pixcoord, result: bool_like(result, pixcoord.x),
    }


from contracts.common import ANY, OPS, anyregion, compound, operator_of

QOI = {q + '-' + op + '-' + i: {'q': q, 'op': op, 'inc': i} for q in QUERIES for op in OPS for i in INCS}


@contract(COMPOUND + '.contains', props=['C01', 'C08', 'C13'])
class compound_contains:
    """operands are arbitrary regions obeying the base contract => holds for every operand class and nesting depth"""
    cases = QOI

    def setup(B, q='scalar', op='and_', inc='absent'):
        return dict(self=compound(B, 'c', anyregion(B, 'r1'), anyregion(B, 'r2'), op, inc), pixcoord=query(B, q), op=op)
    pre = lambda self: meta_ok(self)
    forall = {'k': 'int', 'l': 'int'}
    post = {
        'member': lambda self, pixcoord, op, result, k, l: implies(
            idx_ok(pixcoord.x, k, l),
            bool(elem(result, k, l)) == (bool(operator_of(op)(bool(elem(self.region1.contains(pixcoord), k, l)),
                                                               bool(elem(self.region2.contains(pixcoord), k, l)))) == included(self))),
        'shape_and_type': lambda self, pixcoord, result: bool_like(result, pixcoord.x),
    }


@contract('regions/core/core.py::PixelRegion.__contains__', props=['C01', 'C08'])
class region_in_operator:
    cases = {q: {'q': q} for q in QUERIES}

    def setup(B, q='scalar'):
        return dict(self=anyregion(B, 'r'), coord=query(B, q))
    raises = {'ValueError': lambda coord: not coord.isscalar}
    post = {'same_as_contains': lambda self, coord, result: bool(result) == bool(self.contains(coord))}


def _contains_of_new_coordinates(region, xs, ys):
    from regions.core.pixcoord import PixCoord
    return region.contains(PixCoord(xs, ys))


@contract(CIRCLE + '.contains', props=['C01', 'C20'])
class answer_has_the_shape_of_the_coordinate_arrays_given:
    """the coordinates go through the real PixCoord constructor: a one-element array is still an array"""
    cases = {'1d': {'rank': 1}, '2d': {'rank': 2}}

    def setup(B, rank=1):
        n, m = B.int('n'), B.int('m')
        shape = (n,) if rank == 1 else (n, m)
        return dict(region=circle(B, 'r', 'bool'), xs=B.array('xs', shape), ys=B.array('ys', shape))
    pre = lambda region: circle_ok(region)
    call = lambda region, xs, ys: _contains_of_new_coordinates(region, xs, ys)
    post = {'array_of_the_same_shape': lambda xs, result: is_array(result) and shape_of(result) == shape_of(xs)}


# ---------------------------------------------------------------------------- answers follow in-place updates of a parameter
def _ask_update_in_place_ask(self, p, d, how):
    """membership, bounding box and area are asked, the angle Quantity is then changed IN PLACE (augmented assignment, or through a
    reference the caller kept), and everything is asked again; `fresh` is a region built anew from the current parameter values"""
    before = (self.contains(p), self.bounding_box)
    if how == 'augmented':
        self.angle += d
    else:
        held = self.angle
        held += d
    fresh = self.__class__(self.center, self.width, self.height, self.angle, self.meta, self.visual)
    return (self.contains(p), fresh.contains(p), self.bounding_box, fresh.bounding_box, before)


@contract(ELLIPSE + '.contains', props=['C01', 'C13', 'C04'])
class membership_follows_in_place_updates:
    """the answer is a function of the region's CURRENT parameters: nothing derived from the angle may be remembered across an in-place
    change of it (the Quantity object stays the same, its value does not)"""
    cases = {k + '-' + h: {'kind': k, 'how': h} for k in ('ellipse', 'rectangle') for h in ('augmented', 'held_reference')}
    # the same for one concrete shape and turn (a 4 x 2 shape at the origin turned from 0 to 90 deg), any position: a stale answer is
    # then a matter of two fixed quadratic inequalities, which the solver refutes at once
    cases.update({k + '-' + h + '-quarter-turn': {'kind': k, 'how': h, 'concrete': True}
                  for k in ('ellipse', 'rectangle') for h in ('augmented', 'held_reference')})

    def setup(B, kind='ellipse', how='augmented', concrete=False):
        r = ellipse(B, 'r', 'bool', 'deg') if kind == 'ellipse' else rectangle(B, 'r', 'bool', 'deg')
        d = B.quantity('d', 'deg')
        if concrete:
            import astropy.units as u
            from contracts.common import PIXCOORD
            r.__dict__['center'] = B.new(PIXCOORD, label='r.center', x=0.0, y=0.0)
            r.__dict__['width'] = 4.0
            r.__dict__['height'] = 2.0
            r.__dict__['angle'] = B.call(u.Quantity, 0.0, u.deg)
            d = B.call(u.Quantity, 90.0, u.deg)
        return dict(self=r, p=query(B, 'scalar'), d=d, how=how)
    pre = lambda self: ellipse_ok(self)
    call = lambda self, p, d, how: _ask_update_in_place_ask(self, p, d, how)
    modifies = ('r',)
    post = {'membership_of_the_current_parameters': lambda result: bool(result[0]) == bool(result[1]),
            'box_of_the_current_parameters': lambda result: result[2] == result[3]}
