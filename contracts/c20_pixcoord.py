"""C20: PixCoord holds the broadcast (x, y); len/iter/index agree with the arrays; + and - are component-wise inverses;
separation is Euclidean; rotation is an isometry fixing the centre and composing additively (see also c15: pixcoord_rotate)"""
from pyvc.api import contract
from contracts.common import PIXCOORD, pix, query
from spec.geometry import cs, sq
from spec.arrays import elem, idx_ok, same_shape
from vprim import implies, is_array, shape_of

SHAPES = ('ss', 's1', '1s', '11', '22', '12', 'int_s', '1x1', 's1int', '1ints', 'mismatch', 'mismatch2')


def xy_pair(B, kind):
    """x and y of the given (broadcastable or not) shapes"""
    n, m = B.int('n'), B.int('m')
    if kind == 'ss':
        return B.real('x'), B.real('y')
    if kind == 'int_s':
        return B.int('ix'), B.real('y')
    if kind == 's1':
        return B.real('x'), B.array('ys', (n,))
    if kind == '1s':
        return B.array('xs', (n,)), B.real('y')
    if kind == 's1int':
        return B.real('x'), B.array('iys', (n,), 'int')
    if kind == '1ints':
        return B.array('ixs', (n,), 'int'), B.real('y')
    if kind == '11':
        return B.array('xs', (n,)), B.array('ys', (n,))
    if kind == '22':
        return B.array('xs', (n, m)), B.array('ys', (n, m))
    if kind == '12':
        return B.array('xs', (1, m)), B.array('ys', (n, 1))
    if kind == '1x1':
        return B.array('xs', (1,)), B.real('y')
    if kind == 'mismatch':
        return B.array('xs', (3,)), B.array('ys', (4,))
    if kind == 'mismatch2':
        return B.array('xs', (2, 3)), B.array('ys', (3, 2))
    raise ValueError(kind)


def bshape(x, y):
    """the broadcast shape, from numpy's rule: align trailing dimensions; equal, or one of them 1"""
    sx, sy = shape_of(x), shape_of(y)
    if len(sx) == 0:
        return sy
    if len(sy) == 0:
        return sx
    if len(sx) == 2 and len(sy) == 2 and sx[0] == 1 and sy[1] == 1:
        return (sy[0], sx[1])
    return sx


def bval(v, k, l, shape):
    """element (k, l) of v broadcast to `shape`"""
    from vprim import arr_at
    sv = shape_of(v)
    if len(sv) == 0:
        return arr_at(v)
    if len(sv) == 1:
        return arr_at(v, 0 if sv[0] == 1 and shape[0] != 1 else k)
    return arr_at(v, 0 if (sv[0] == 1 and shape[0] != 1) else k, 0 if (sv[1] == 1 and shape[1] != 1) else l)


@contract(PIXCOORD, props=['C20'])
class pixcoord_constructor:
    cases = {s: {'kind': s} for s in SHAPES}

    def setup(B, kind='ss'):
        x, y = xy_pair(B, kind)
        return dict(x=x, y=y, kind=kind)
    forall = {'k': 'int', 'l': 'int'}
    raises = {'ValueError': lambda kind: kind in ('mismatch', 'mismatch2')}
    post = {
        'scalar_pair_stays_scalar': lambda x, y, result:
            (is_array(x) or is_array(y)) or (not is_array(result.x) and not is_array(result.y) and result.isscalar),
        'broadcast_shape': lambda x, y, result: shape_of(result.x) == bshape(x, y) and shape_of(result.y) == bshape(x, y),
        'broadcast_values': lambda x, y, result, k, l: implies(
            idx_ok(result.x, k, l),
            elem(result.x, k, l) == bval(x, k, l, bshape(x, y)) and elem(result.y, k, l) == bval(y, k, l, bshape(x, y))),
        'isscalar_iff_scalar': lambda x, y, result: result.isscalar == (not is_array(x) and not is_array(y)),
    }


@contract(PIXCOORD + '.__len__', props=['C20'])
class pixcoord_len_index_iter:
    cases = {'arr1': {'q': 'arr1'}, 'arr2': {'q': 'arr2'}}

    def setup(B, q='arr1'):
        return dict(self=query(B, q), i=B.int('i'))
    pre = lambda self, i: 0 <= i and i < len(self.x)
    call = lambda self, i: dict(n=len(self), item=self[i], neg=self[i - len(self.x)], sl=self[0:i])
    forall = {'k': 'int', 'l': 'int'}
    post = {
        'len_is_first_axis': lambda self, result: result['n'] == len(self.x),
        'item_is_elementwise': lambda self, i, result, l: implies(
            len(shape_of(self.x)) == 1 or (0 <= l and l < shape_of(self.x)[1]),
            elem(result['item'].x, l, 0) == (elem(self.x, i, l)) and elem(result['item'].y, l, 0) == (elem(self.y, i, l))),
        'negative_index_wraps': lambda self, i, result, l: implies(
            len(shape_of(self.x)) == 1 or (0 <= l and l < shape_of(self.x)[1]),
            elem(result['neg'].x, l, 0) == elem(result['item'].x, l, 0) and elem(result['neg'].y, l, 0) == elem(result['item'].y, l, 0)),
        'slice_is_elementwise': lambda self, i, result, k, l: implies(
            0 <= k and k < i and (len(shape_of(self.x)) == 1 or (0 <= l and l < shape_of(self.x)[1])),
            elem(result['sl'].x, k, l) == elem(self.x, k, l) and elem(result['sl'].y, k, l) == elem(self.y, k, l)),
        'slice_length': lambda self, i, result: len(result['sl'].x) == i,
        'item_type': lambda self, result: result['item'].__class__ is self.__class__ and result['sl'].__class__ is self.__class__,
    }


@contract(PIXCOORD + '.__len__', props=['C20'])
class scalar_pixcoord_has_no_len_or_items:
    """len, indexing, slicing and iteration of a scalar coordinate fail the way they do on its scalar x and y"""
    cases = {'len': {'op': 'len'}, 'index': {'op': 'index'}, 'slice': {'op': 'slice'}, 'iter': {'op': 'iter'}}

    def setup(B, op='len'):
        return dict(self=pix(B, 'p'), op=op)
    call = lambda self, op: len(self) if op == 'len' else (self[0] if op == 'index' else (self[0:1] if op == 'slice' else [p for p in self]))
    raises = {'TypeError': lambda op: op == 'len' or op == 'iter', 'IndexError': lambda op: op == 'index' or op == 'slice'}


@contract(PIXCOORD + '.__iter__', props=['C20'])
class pixcoord_iteration:
    """iteration over a coordinate array of concrete length 3 yields the element pairs in order"""
    def setup(B):
        return dict(self=B.new(PIXCOORD, label='q', x=B.call(np_array(), [B.real('x0'), B.real('x1'), B.real('x2')]),
                               y=B.call(np_array(), [B.real('y0'), B.real('y1'), B.real('y2')])))
    call = lambda self: [p for p in self]
    post = {'pairs_in_order': lambda self, result: len(result) == 3 and all(
        result[i].x == self.x[i] and result[i].y == self.y[i] and result[i].isscalar for i in range(3))}


def np_array():
    import numpy as np
    return np.array


@contract(PIXCOORD + '.__add__', props=['C20'])
class pixcoord_add_sub:
    cases = {a + '+' + b: {'qa': a, 'qb': b} for a in ('scalar', 'arr1') for b in ('scalar', 'arr1')}

    def setup(B, qa='scalar', qb='scalar'):
        n = B.int('n')
        a = pix(B, 'a') if qa == 'scalar' else B.new(PIXCOORD, label='a', x=B.array('a.xs', (n,)), y=B.array('a.ys', (n,)))
        b = pix(B, 'b') if qb == 'scalar' else B.new(PIXCOORD, label='b', x=B.array('b.xs', (n,)), y=B.array('b.ys', (n,)))
        return dict(a=a, b=b)
    call = lambda a, b: dict(s=a + b, d=a - b, back=(a + b) - b)
    forall = {'k': 'int'}
    post = {
        'add_componentwise': lambda a, b, result, k: implies(idx_ok(result['s'].x, k, 0),
            elem(result['s'].x, k, 0) == elem(a.x, k, 0) + elem(b.x, k, 0) and elem(result['s'].y, k, 0) == elem(a.y, k, 0) + elem(b.y, k, 0)),
        'sub_componentwise': lambda a, b, result, k: implies(idx_ok(result['d'].x, k, 0),
            elem(result['d'].x, k, 0) == elem(a.x, k, 0) - elem(b.x, k, 0) and elem(result['d'].y, k, 0) == elem(a.y, k, 0) - elem(b.y, k, 0)),
        'sub_inverts_add': lambda a, b, result, k: implies(idx_ok(result['back'].x, k, 0) and idx_ok(a.x, k, 0),
            elem(result['back'].x, k, 0) == elem(a.x, k, 0) and elem(result['back'].y, k, 0) == elem(a.y, k, 0)),
        'result_type': lambda a, result: result['s'].__class__ is a.__class__ and result['d'].__class__ is a.__class__,
    }


@contract(PIXCOORD + '.__add__', props=['C20'])
class pixcoord_add_sub_type_error:
    cases = {'add': {'op': 'add'}, 'sub': {'op': 'sub'}}

    def setup(B, op='add'):
        return dict(a=pix(B, 'a'), op=op, other=B.real('v'))
    call = lambda a, op, other: (a + other) if op == 'add' else (a - other)
    raises = {'TypeError': lambda: True}


@contract(PIXCOORD + '.separation', props=['C20', 'C01'])
class pixcoord_separation:
    cases = {'scalar': {'q': 'scalar'}, 'arr1': {'q': 'arr1'}}

    def setup(B, q='scalar'):
        return dict(self=pix(B, 'a'), other=query(B, q))
    forall = {'k': 'int'}
    post = {
        'euclidean': lambda self, other, result, k: implies(
            idx_ok(other.x, k, 0), elem(result, k, 0) >= 0
            and sq(elem(result, k, 0)) == sq(elem(other.x, k, 0) - self.x) + sq(elem(other.y, k, 0) - self.y)),
        'shape': lambda other, result: same_shape(result, other.x),
    }


@contract(PIXCOORD + '.rotate', props=['C20', 'C15'])
class pixcoord_rotation_laws:
    def setup(B):
        return dict(p=pix(B, 'p'), q=pix(B, 'q'), c=pix(B, 'c'), t1=B.quantity('t1', 'deg'), t2=B.quantity('t2', 'rad'))
    call = lambda p, q, c, t1, t2: dict(p1=p.rotate(c, t1), q1=q.rotate(c, t1), c1=c.rotate(c, t1),
                                       p12=p.rotate(c, t1).rotate(c, t2), psum=p.rotate(c, t1 + t2))
    post = {
        'isometry': lambda p, q, result:
            sq(result['p1'].x - result['q1'].x) + sq(result['p1'].y - result['q1'].y) == sq(p.x - q.x) + sq(p.y - q.y),
        'fixes_the_centre': lambda c, result: result['c1'].x == c.x and result['c1'].y == c.y,
        'composes_additively': lambda result: result['p12'].x == result['psum'].x and result['p12'].y == result['psum'].y,
    }


@contract(PIXCOORD + '.xy', props=['C20'])
class pixcoord_xy:
    def setup(B):
        return dict(self=pix(B, 'p'))
    call = lambda self: self.xy
    post = {'pair': lambda self, result: result[0] is self.x and result[1] is self.y}


@contract(PIXCOORD + '.to_sky', props=['C20', 'C06'])
class pixcoord_sky_roundtrip:
    cases = {q + '-o%d-' % o + m: {'q': q, 'origin': o, 'mode': m} for q in ('scalar', 'arr1') for o in (0, 1) for m in ('all', 'wcs')}

    def setup(B, q='scalar', origin=0, mode='all'):
        return dict(self=query(B, q), wcs=B.wcs('w'), origin=origin, mode=mode)
    call = lambda self, wcs, origin, mode: self.__class__.from_sky(self.to_sky(wcs, origin=origin, mode=mode), wcs, origin=origin, mode=mode)
    forall = {'k': 'int'}
    post = {
        'returns_the_starting_coordinates': lambda self, result, k: implies(
            idx_ok(self.x, k, 0), elem(result.x, k, 0) == elem(self.x, k, 0) and elem(result.y, k, 0) == elem(self.y, k, 0)),
        'same_shape': lambda self, result: same_shape(result.x, self.x),
    }


@contract(PIXCOORD + '.to_sky', props=['C20', 'C06'])
class pixcoord_sky_default_convention:
    """the defaults are origin 0 / mode 'all', the same convention pixel regions use through wcs.pixel_to_world"""
    def setup(B):
        return dict(self=pix(B, 'p'), wcs=B.wcs('w'))
    call = lambda self, wcs: (self.to_sky(wcs), wcs.pixel_to_world(self.x, self.y), self.__class__.from_sky(wcs.pixel_to_world(self.x, self.y), wcs))
    post = {
        'to_sky_is_pixel_to_world': lambda result: result[0].lon.to_value('rad') == result[1].lon.to_value('rad')
            and result[0].lat.to_value('rad') == result[1].lat.to_value('rad'),
        'from_sky_inverts': lambda self, result: result[2].x == self.x and result[2].y == self.y,
    }
