"""C19 (and the box parts of C04/C05): RegionBoundingBox is exact integer rectangle algebra"""
from pyvc.api import contract
from spec.boxes import (box_within, exists_common_pixel, in_box, in_image, in_window, is_bbox, is_none_pair,
                        opt_in_box, same_box)

BBOX = 'regions/core/bounding_box.py::RegionBoundingBox'


def mkbox(B, name):
    return B.new(BBOX, label=name, ixmin=B.int(name + '.ixmin'), ixmax=B.int(name + '.ixmax'),
                 iymin=B.int(name + '.iymin'), iymax=B.int(name + '.iymax'))


@contract(BBOX, props=['C19', 'C17'])
class bbox_init:
    def setup(B):
        return dict(ixmin=B.int('ixmin'), ixmax=B.int('ixmax'), iymin=B.int('iymin'), iymax=B.int('iymax'))
    raises = {'ValueError': lambda ixmin, ixmax, iymin, iymax: ixmin > ixmax or iymin > iymax}
    post = {'stores': lambda ixmin, ixmax, iymin, iymax, result:
            result.ixmin == ixmin and result.ixmax == ixmax and result.iymin == iymin and result.iymax == iymax,
            'invariant': lambda result: is_bbox(result)}


@contract(BBOX, props=['C19', 'C17'])
class bbox_init_nonint:
    cases = {'ixmin': {'which': 0}, 'ixmax': {'which': 1}, 'iymin': {'which': 2}, 'iymax': {'which': 3}}

    def setup(B, which=0):
        v = [B.int('a0'), B.int('a1'), B.int('a2'), B.int('a3')]
        v[which] = B.real('x')
        return dict(ixmin=v[0], ixmax=v[1], iymin=v[2], iymax=v[3])
    raises = {'TypeError': lambda: True}


@contract(BBOX + '.union', props=['C19', 'C04', 'C08'])
class bbox_union:
    def setup(B):
        return dict(self=mkbox(B, 'a'), other=mkbox(B, 'b'), U=mkbox(B, 'U'))
    pre = lambda self, other, U: is_bbox(self) and is_bbox(other) and is_bbox(U)
    call = lambda self, other: self.union(other)
    forall = {'X': 'int', 'Y': 'int'}
    post = {
        'contains_both_pixelsets': lambda self, other, result, X, Y:
            (not (in_box(self, X, Y) or in_box(other, X, Y))) or in_box(result, X, Y),
        'contains_both_boxes': lambda self, other, result: box_within(self, result) and box_within(other, result),
        'least': lambda self, other, U, result:
            (not (box_within(self, U) and box_within(other, U))) or box_within(result, U),
        'invariant': lambda result: is_bbox(result),
    }


@contract(BBOX + '.__or__', props=['C19', 'C08'])
class bbox_or:
    def setup(B):
        return dict(self=mkbox(B, 'a'), other=mkbox(B, 'b'))
    pre = lambda self, other: is_bbox(self) and is_bbox(other)
    call = lambda self, other: (self | other, self.union(other))
    post = {'is_union': lambda result: same_box(result[0], result[1])}


@contract(BBOX + '.intersection', props=['C19'])
class bbox_intersection:
    def setup(B):
        return dict(self=mkbox(B, 'a'), other=mkbox(B, 'b'))
    pre = lambda self, other: is_bbox(self) and is_bbox(other)
    forall = {'X': 'int', 'Y': 'int'}
    post = {
        'pixels': lambda self, other, result, X, Y:
            result is None or (in_box(result, X, Y) == (in_box(self, X, Y) and in_box(other, X, Y))),
        'none_only_if_disjoint': lambda self, other, result, X, Y:
            result is not None or not (in_box(self, X, Y) and in_box(other, X, Y)),
        'gap_gives_none': lambda self, other, result:
            (not (self.ixmax < other.ixmin or other.ixmax < self.ixmin
                  or self.iymax < other.iymin or other.iymax < self.iymin)) or result is None,
        'invariant': lambda result: result is None or is_bbox(result),
    }


@contract(BBOX + '.__and__', props=['C19'])
class bbox_and:
    def setup(B):
        return dict(self=mkbox(B, 'a'), other=mkbox(B, 'b'))
    pre = lambda self, other: is_bbox(self) and is_bbox(other)
    call = lambda self, other: (self & other, self.intersection(other))
    forall = {'X': 'int', 'Y': 'int'}
    post = {'is_intersection': lambda result, X, Y: opt_in_box(result[0], X, Y) == opt_in_box(result[1], X, Y),
            'same_noneness': lambda result: (result[0] is None) == (result[1] is None)}


@contract(BBOX + '.union', props=['C19'])
class bbox_union_type:
    def setup(B):
        return dict(self=mkbox(B, 'a'), other=B.int('n'))
    raises = {'TypeError': lambda: True}


@contract(BBOX + '.intersection', props=['C19'])
class bbox_intersection_type:
    def setup(B):
        return dict(self=mkbox(B, 'a'), other=B.int('n'))
    raises = {'TypeError': lambda: True}


def _inter(a, b):
    if a is None or b is None:
        return None
    return a.intersection(b)


@contract(BBOX + '.union', props=['C19'])
class bbox_algebra_laws:
    """commutativity and associativity, as lemmas over the real methods"""
    def setup(B):
        return dict(a=mkbox(B, 'a'), b=mkbox(B, 'b'), c=mkbox(B, 'c'))
    pre = lambda a, b, c: is_bbox(a) and is_bbox(b) and is_bbox(c)
    call = lambda a, b, c: dict(ab=a.union(b), ba=b.union(a), ab_c=a.union(b).union(c), a_bc=a.union(b.union(c)),
                                iab=a.intersection(b), iba=b.intersection(a),
                                iab_c=_inter(_inter(a, b), c), ia_bc=_inter(a, _inter(b, c)))
    forall = {'X': 'int', 'Y': 'int'}
    post = {
        'union_commutes': lambda result: same_box(result['ab'], result['ba']),
        'union_associates': lambda result: same_box(result['ab_c'], result['a_bc']),
        'intersection_commutes': lambda result, X, Y:
            opt_in_box(result['iab'], X, Y) == opt_in_box(result['iba'], X, Y),
        'intersection_associates': lambda result, X, Y:
            opt_in_box(result['iab_c'], X, Y) == opt_in_box(result['ia_bc'], X, Y),
    }


@contract(BBOX + '.__eq__', props=['C19', 'C16'])
class bbox_eq:
    def setup(B):
        return dict(self=mkbox(B, 'a'), other=mkbox(B, 'b'))
    post = {'iff_same_corners': lambda self, other, result: result == same_box(self, other)}


@contract(BBOX + '.__eq__', props=['C19'])
class bbox_eq_type:
    def setup(B):
        return dict(self=mkbox(B, 'a'), other=B.int('n'))
    raises = {'TypeError': lambda: True}


@contract(BBOX + '.shape', props=['C19', 'C02', 'C05'])
class bbox_shape_center_extent:
    def setup(B):
        return dict(self=mkbox(B, 'a'))
    pre = lambda self: is_bbox(self)
    call = lambda self: dict(shape=self.shape, center=self.center, extent=self.extent)
    forall = {'X': 'int', 'Y': 'int'}
    post = {
        'shape_is_rows_cols': lambda self, result:
            result['shape'][0] == self.iymax - self.iymin and result['shape'][1] == self.ixmax - self.ixmin,
        # a pixel (X, Y) occupies the unit square centred on it; it is in the box iff that square is inside the extent
        'extent_is_pixel_edges': lambda self, result, X, Y:
            in_box(self, X, Y) == (result['extent'][0] <= X - 0.5 and X + 0.5 <= result['extent'][1]
                                   and result['extent'][2] <= Y - 0.5 and Y + 0.5 <= result['extent'][3]),
        'extent_tight': lambda self, result:
            result['extent'][1] - result['extent'][0] == self.ixmax - self.ixmin
            and result['extent'][3] - result['extent'][2] == self.iymax - self.iymin,
        'center_is_midpoint_yx': lambda self, result:
            result['center'][1] - result['extent'][0] == result['extent'][1] - result['center'][1]
            and result['center'][0] - result['extent'][2] == result['extent'][3] - result['center'][0],
    }


@contract(BBOX + '.from_float', props=['C19', 'C04'])
class bbox_from_float:
    def setup(B):
        return dict(xmin=B.real('xmin'), xmax=B.real('xmax'), ymin=B.real('ymin'), ymax=B.real('ymax'), U=mkbox(B, 'U'))
    pre = lambda xmin, xmax, ymin, ymax, U: xmin <= xmax and ymin <= ymax and is_bbox(U)
    call = lambda xmin, xmax, ymin, ymax: BBOX_CLASS().from_float(xmin, xmax, ymin, ymax)
    post = {
        'extent_covers': lambda xmin, xmax, ymin, ymax, result:
            result.ixmin - 0.5 <= xmin and xmax <= result.ixmax - 0.5
            and result.iymin - 0.5 <= ymin and ymax <= result.iymax - 0.5,
        'smallest': lambda xmin, xmax, ymin, ymax, U, result:
            (not (U.ixmin - 0.5 <= xmin and xmax <= U.ixmax - 0.5 and U.iymin - 0.5 <= ymin and ymax <= U.iymax - 0.5))
            or box_within(result, U),
        'invariant': lambda result: is_bbox(result),
    }


def BBOX_CLASS():
    from regions.core.bounding_box import RegionBoundingBox
    return RegionBoundingBox


@contract(BBOX + '.get_overlap_slices', props=['C19', 'C05'])
class bbox_overlap_slices:
    def setup(B):
        return dict(self=mkbox(B, 'a'), shape=(B.int('ny'), B.int('nx')))
    pre = lambda self, shape: is_bbox(self) and shape[0] >= 0 and shape[1] >= 0
    forall = {'X': 'int', 'Y': 'int'}
    post = {
        'none_means_disjoint': lambda self, shape, result, X, Y:
            (not is_none_pair(result)) or not (in_box(self, X, Y) and in_image(shape, X, Y)),
        'none_exactly_when_no_common_pixel': lambda self, shape, result:
            is_none_pair(result) == (not exists_common_pixel(self, shape)),
        'in_range_no_wraparound': lambda self, shape, result:
            is_none_pair(result) or (
                0 <= result[0][0].start and result[0][0].start <= result[0][0].stop and result[0][0].stop <= shape[0]
                and 0 <= result[0][1].start and result[0][1].start <= result[0][1].stop and result[0][1].stop <= shape[1]
                and 0 <= result[1][0].start and result[1][0].start <= result[1][0].stop
                and result[1][0].stop <= self.iymax - self.iymin
                and 0 <= result[1][1].start and result[1][1].start <= result[1][1].stop
                and result[1][1].stop <= self.ixmax - self.ixmin),
        'large_is_common': lambda self, shape, result, X, Y:
            is_none_pair(result) or (in_window(result[0], X, Y) == (in_box(self, X, Y) and in_image(shape, X, Y))),
        'small_is_large_shifted': lambda self, shape, result:
            is_none_pair(result) or (
                result[1][0].start == result[0][0].start - self.iymin and result[1][0].stop == result[0][0].stop - self.iymin
                and result[1][1].start == result[0][1].start - self.ixmin and result[1][1].stop == result[0][1].stop - self.ixmin),
        'plain_slices': lambda result:
            is_none_pair(result) or (result[0][0].step is None and result[0][1].step is None
                                     and result[1][0].step is None and result[1][1].step is None),
    }


@contract(BBOX + '.get_overlap_slices', props=['C19', 'C05'])
class bbox_overlap_slices_badshape:
    cases = {'len1': {'n': 1}, 'len3': {'n': 3}}

    def setup(B, n=1):
        return dict(self=mkbox(B, 'a'), shape=tuple(B.int('d%d' % i) for i in range(n)))
    raises = {'ValueError': lambda: True}


@contract(BBOX + '.to_region', props=['C19', 'C04'])
class bbox_as_a_rectangle_region_covers_exactly_its_pixels:
    """the rectangle region made from a box has the box's extent: centred on the box centre (x, y), shape[1] wide and shape[0] high,
    axis-parallel - so its own bounding box is the box again"""
    def setup(B):
        return dict(self=mkbox(B, 'b'))
    pre = lambda self: is_bbox(self) and self.ixmax > self.ixmin and self.iymax > self.iymin
    post = {
        'is_rectangle': lambda result: result.__class__.__name__ == 'RectanglePixelRegion',
        'extent': lambda self, result:
            result.center.x - result.width / 2 == self.ixmin - 0.5 and result.center.x + result.width / 2 == self.ixmax - 0.5
            and result.center.y - result.height / 2 == self.iymin - 0.5 and result.center.y + result.height / 2 == self.iymax - 0.5,
        'axis_parallel': lambda result: result.angle.to_value('rad') == 0,
        'round_trip': lambda self, result: result.bounding_box == self,
    }
