"""C16: copies are equal and independent; copy(**changes) differs in exactly the named fields; == sees class, every parameter,
meta and visual (pixel positions with the documented 1e-5 relative tolerance); region lists slice/copy into fresh lists"""
from pyvc.api import contract
from contracts.common import (PIXCOORD, META, VISUAL, CIRCLE, ELLIPSE, RECTANGLE, POLYGON, POINT, LINE, TEXT, CIRCLE_ANN,
                              ELLIPSE_ANN, RECT_ANN, COMPOUND, pix, mk_visual, operator_of)
from contracts.c17_validation import sky, CIRCLE_SKY, REGIONS
from vprim import implies

KINDS = ('circle', 'ellipse', 'rectangle', 'polygon', 'point', 'line', 'text', 'circle_annulus', 'ellipse_annulus',
         'rectangle_annulus', 'compound', 'circle_sky')
PARAMS = {
    'circle': ('center', 'radius'), 'ellipse': ('center', 'width', 'height', 'angle'),
    'rectangle': ('center', 'width', 'height', 'angle'), 'polygon': ('vertices',), 'point': ('center',),
    'line': ('start', 'end'), 'text': ('center', 'text'), 'circle_annulus': ('center', 'inner_radius', 'outer_radius'),
    'ellipse_annulus': ('center', 'inner_width', 'outer_width', 'inner_height', 'outer_height', 'angle'),
    'rectangle_annulus': ('center', 'inner_width', 'outer_width', 'inner_height', 'outer_height', 'angle'),
    'compound': ('region1', 'region2', 'operator'), 'circle_sky': ('center', 'radius'),
}
CLS = {'circle': CIRCLE, 'ellipse': ELLIPSE, 'rectangle': RECTANGLE, 'polygon': POLYGON, 'point': POINT, 'line': LINE, 'text': TEXT,
       'circle_annulus': CIRCLE_ANN, 'ellipse_annulus': ELLIPSE_ANN, 'rectangle_annulus': RECT_ANN, 'compound': COMPOUND,
       'circle_sky': CIRCLE_SKY}


def rich_meta(B, name):
    """meta with an optional include flag, a label and a (mutable) list-valued tag entry"""
    return B.meta(META, name, {'tag': B.list(name + '.tag', ['t1', 't2']), 'label': B.int(name + '.label')},
                  {'include': (B.bool(name + '.has_include'), B.bool(name + '.include'))})


def rich_visual(B, name):
    return B.meta(VISUAL, name, {'dashes': B.list(name + '.dashes', [1, 2]), 'linewidth': B.real(name + '.lw')})


def region(B, kind, name, unit='deg'):
    m, v = rich_meta(B, name + '.meta'), rich_visual(B, name + '.visual')
    c = pix(B, name + '.center')
    if kind == 'circle':
        return B.new(CIRCLE, label=name, center=c, radius=B.real(name + '.radius'), meta=m, visual=v)
    if kind in ('ellipse', 'rectangle'):
        return B.new(CLS[kind], label=name, center=c, width=B.real(name + '.width'), height=B.real(name + '.height'),
                     angle=B.quantity(name + '.angle', unit), meta=m, visual=v)
    if kind == 'polygon':
        n = B.int('n')       # both polygons of a pair have the same number of vertices
        raw = B.new(PIXCOORD, label=name + '.raw', x=B.array(name + '.vx', (n,)), y=B.array(name + '.vy', (n,)))
        return B.construct(POLYGON, name, raw, meta=m, visual=v, origin=pix(B, name + '.origin'))
    if kind == 'point':
        return B.new(POINT, label=name, center=c, meta=m, visual=v)
    if kind == 'text':
        v = B.meta(VISUAL, name + '.visual', {'dashes': B.list(name + '.visual.dashes', [1, 2]), 'linewidth': B.real(name + '.visual.lw')},
                   {'rotation': (B.bool(name + '.visual.has_rotation'), B.real(name + '.visual.rotation'))})
        return B.new(TEXT, label=name, center=c, text='hello', meta=m, visual=v)
    if kind == 'line':
        return B.new(LINE, label=name, start=pix(B, name + '.start'), end=pix(B, name + '.end'), meta=m, visual=v)
    if kind == 'circle_annulus':
        return B.new(CIRCLE_ANN, label=name, center=c, inner_radius=B.real(name + '.ri'), outer_radius=B.real(name + '.ro'), meta=m, visual=v)
    if kind in ('ellipse_annulus', 'rectangle_annulus'):
        return B.new(CLS[kind], label=name, center=c, inner_width=B.real(name + '.iw'), outer_width=B.real(name + '.ow'),
                     inner_height=B.real(name + '.ih'), outer_height=B.real(name + '.oh'), angle=B.quantity(name + '.angle', unit),
                     meta=m, visual=v)
    if kind == 'compound':
        r1 = B.new(CIRCLE, label=name + '.r1', center=pix(B, name + '.r1.center'), radius=B.real(name + '.r1.radius'),
                   meta=B.meta(META, name + '.r1.meta'), visual=mk_visual(B, name + '.r1.visual'))
        r2 = B.new(CIRCLE, label=name + '.r2', center=pix(B, name + '.r2.center'), radius=B.real(name + '.r2.radius'),
                   meta=B.meta(META, name + '.r2.meta'), visual=mk_visual(B, name + '.r2.visual'))
        return B.new(COMPOUND, label=name, region1=r1, region2=r2, _operator=operator_of('or_'), meta=m, visual=v)
    if kind == 'circle_sky':
        return B.new(CIRCLE_SKY, label=name, center=sky(B, name + '.center'), radius=B.quantity(name + '.radius', unit), meta=m, visual=v)
    raise ValueError(kind)


def wf(kind, r):
    if kind == 'circle':
        return r.radius > 0
    if kind in ('ellipse', 'rectangle'):
        return r.width > 0 and r.height > 0
    if kind == 'circle_annulus':
        return 0 < r.inner_radius and r.inner_radius < r.outer_radius
    if kind in ('ellipse_annulus', 'rectangle_annulus'):
        return 0 < r.inner_width and r.inner_width < r.outer_width and 0 < r.inner_height and r.inner_height < r.outer_height
    if kind == 'compound':
        return r.region1.radius > 0 and r.region2.radius > 0
    if kind == 'circle_sky':
        return r.radius.to_value('rad') > 0
    if kind == 'polygon':
        return len(r.vertices.x) >= 3
    return True


# ---- spec equality (from the statement): positions within 1e-5 relative, everything else exactly
def near(a, b):
    """definitely equal under the documented relative tolerance"""
    d = abs(a - b)
    return d <= 0.00001 * abs(a) and d <= 0.00001 * abs(b)


def far(a, b):
    """definitely different: beyond the tolerance (with the 1e-8 absolute floor of the implementation's comparison)"""
    d = abs(a - b)
    return d > 0.00000001 + 0.00001 * abs(a) and d > 0.00000001 + 0.00001 * abs(b)


def pos_cmp(p, q, rel):
    from vprim import is_array, arr_at
    if is_array(p.x):
        return True       # array positions (polygon vertices): judged element-wise by the caller
    return rel(p.x, q.x) and rel(p.y, q.y)


def field_exact_equal(kind, name, a, b):
    va, vb = getattr(a, name), getattr(b, name)
    if name in ('radius', 'width', 'height', 'inner_radius', 'outer_radius', 'inner_width', 'outer_width', 'inner_height',
                'outer_height') and kind != 'circle_sky':
        return va == vb
    if name == 'angle' or (kind == 'circle_sky' and name == 'radius'):
        return va.to_value('rad') == vb.to_value('rad')
    if name == 'text':
        return va == vb
    if name == 'operator':
        return va is vb
    if kind == 'circle_sky' and name == 'center':
        return va.frame.name == vb.frame.name and va.lon.to_value('rad') == vb.lon.to_value('rad') and \
            va.lat.to_value('rad') == vb.lat.to_value('rad')
    return None


def spec_equal(kind, a, b, mode):
    """mode 'must': conditions under which == must be True; 'mustnot': conditions under which it must be False"""
    if a.__class__ is not b.__class__:
        return mode == 'mustnot'
    same_mv = dict(a.meta) == dict(b.meta) and dict(a.visual) == dict(b.visual)
    exact = True
    posnear = True
    anyfar = False
    for name in PARAMS[kind]:
        e = field_exact_equal(kind, name, a, b)
        if e is not None:
            exact = exact and e
        elif name in ('region1', 'region2'):
            sub_a, sub_b = getattr(a, name), getattr(b, name)
            exact = exact and sub_a.radius == sub_b.radius and dict(sub_a.meta) == dict(sub_b.meta) and dict(sub_a.visual) == dict(sub_b.visual)
            posnear = posnear and pos_cmp(sub_a.center, sub_b.center, near)
            anyfar = anyfar or not pos_cmp(sub_a.center, sub_b.center, lambda x, y: not far(x, y))
        elif name == 'vertices':
            pass
        else:
            posnear = posnear and pos_cmp(getattr(a, name), getattr(b, name), near)
            anyfar = anyfar or not pos_cmp(getattr(a, name), getattr(b, name), lambda x, y: not far(x, y))
    if mode == 'must':
        return same_mv and exact and posnear
    return (not same_mv) or (not exact) or anyfar


@contract('regions/core/core.py::Region.__eq__', props=['C16'])
class region_equality:
    cases = {k: {'kind': k} for k in KINDS if k != 'polygon'}

    def setup(B, kind='circle'):
        return dict(a=region(B, kind, 'a', 'deg'), b=region(B, kind, 'b', 'rad'), kind=kind)
    pre = lambda a, b, kind: wf(kind, a) and wf(kind, b)
    call = lambda a, b: dict(ab=(a == b), ba=(b == a), aa=(a == a), ne=(a != b))
    post = {
        'true_when_all_fields_agree': lambda a, b, kind, result: implies(spec_equal(kind, a, b, 'must'), result['ab']),
        'false_when_any_field_differs': lambda a, b, kind, result: implies(spec_equal(kind, a, b, 'mustnot'), not result['ab']),
        'reflexive': lambda result: result['aa'],
        'ne_is_not_eq': lambda result: result['ne'] == (not result['ab']),
        'symmetric': lambda result: result['ab'] == result['ba'],
    }
    findings = {'F14': lambda a, b, kind: in_tolerance_band(kind, a, b)}


def in_tolerance_band(kind, a, b):
    """some pixel position pair is neither definitely equal nor definitely different (np.allclose is asymmetric there)"""
    band = False
    for name in PARAMS[kind]:
        if name in ('center', 'start', 'end') and kind != 'circle_sky':
            p, q = getattr(a, name), getattr(b, name)
            band = band or not (near(p.x, q.x) or far(p.x, q.x)) or not (near(p.y, q.y) or far(p.y, q.y))
        if name in ('region1', 'region2'):
            p, q = getattr(a, name).center, getattr(b, name).center
            band = band or not (near(p.x, q.x) or far(p.x, q.x)) or not (near(p.y, q.y) or far(p.y, q.y))
    return band


@contract('regions/core/core.py::Region.__eq__', props=['C16'])
class region_equality_other_types:
    """a region never equals a value of another class - not even a region of another class whose parameter names and values,
    meta and visual are all the same (ellipse / rectangle, ellipse annulus / rectangle annulus), in either order"""
    cases = {'other_class': {'what': 'other_class'}, 'number': {'what': 'number'}, 'none': {'what': 'none'},
             'same_fields_ellipse_rectangle': {'what': 'twin'}, 'same_fields_annuli': {'what': 'twin_annulus'}}

    def setup(B, what='other_class'):
        if what == 'twin':
            return dict(a=region(B, 'ellipse', 'a'), other=region(B, 'rectangle', 'a'))
        if what == 'twin_annulus':
            return dict(a=region(B, 'ellipse_annulus', 'a'), other=region(B, 'rectangle_annulus', 'a'))
        a = region(B, 'circle', 'a')
        other = region(B, 'point', 'b') if what == 'other_class' else (3 if what == 'number' else None)
        return dict(a=a, other=other)
    call = lambda a, other: (a == other, a != other, other == a, other != a)
    post = {'unequal': lambda result: (not result[0]) and result[1],
            'unequal_in_the_other_order': lambda result: (not result[2]) and result[3]}


def fresh_and_equal(kind, self, result):
    ok = result.__class__ is self.__class__ and result is not self
    ok = ok and result.meta is not self.meta and result.visual is not self.visual
    ok = ok and dict(result.meta) == dict(self.meta) and dict(result.visual) == dict(self.visual)
    # nested mutable entries must not be shared either
    ok = ok and result.meta['tag'] is not self.meta['tag'] and result.visual['dashes'] is not self.visual['dashes']
    for name in PARAMS[kind]:
        va, vb = getattr(self, name), getattr(result, name)
        if name in ('center', 'start', 'end', 'vertices', 'region1', 'region2'):
            ok = ok and va is not vb
        elif hasattr(va, 'unit'):
            # a Quantity is mutable in place (q *= 2, q += ..., q <<= unit): the copy must hold its own
            ok = ok and va is not vb
    return ok


@contract('regions/core/core.py::Region.copy', props=['C16', 'C13'])
class region_copy:
    cases = {k: {'kind': k} for k in KINDS}

    def setup(B, kind='circle'):
        return dict(self=region(B, kind, 'a'), kind=kind)
    pre = lambda self, kind: wf(kind, self)
    call = lambda self: (self.copy(), self.copy() == self)
    post = {
        'equal_to_original': lambda result: result[1],
        'fresh_components': lambda self, kind, result: fresh_and_equal(kind, self, result[0]),
    }


@contract('regions/core/core.py::Region.copy', props=['C16'])
class region_copy_with_changes:
    def setup(B):
        return dict(self=region(B, 'ellipse', 'a'), w2=B.real('w2'), c2=pix(B, 'c2'))
    pre = lambda self, w2: wf('ellipse', self) and w2 > 0
    call = lambda self, w2, c2: self.copy(width=w2, center=c2)
    post = {
        'named_fields_changed': lambda w2, c2, result: result.width is w2 and result.center is c2,
        'other_fields_equal': lambda self, result: result.height == self.height
            and result.angle.to_value('rad') == self.angle.to_value('rad')
            and dict(result.meta) == dict(self.meta) and dict(result.visual) == dict(self.visual),
        'original_untouched': lambda self, w2, result: self.width is not w2,
    }


@contract(PIXCOORD + '.__eq__', props=['C16', 'C20'])
class pixcoord_equality:
    def setup(B):
        return dict(a=pix(B, 'a'), b=pix(B, 'b'))
    call = lambda a, b: dict(ab=(a == b), ba=(b == a), aa=(a == a), other=(a == 3))
    post = {
        'true_within_tolerance': lambda a, b, result: implies(near(a.x, b.x) and near(a.y, b.y), result['ab']),
        'false_beyond_tolerance': lambda a, b, result: implies(far(a.x, b.x) or far(a.y, b.y), not result['ab']),
        'reflexive': lambda result: result['aa'],
        'not_equal_to_other_types': lambda result: not result['other'],
        'symmetric': lambda result: result['ab'] == result['ba'],
    }
    findings = {'F14': lambda a, b: not (near(a.x, b.x) or far(a.x, b.x)) or not (near(a.y, b.y) or far(a.y, b.y))}


@contract(PIXCOORD + '.copy', props=['C16', 'C20', 'C13'])
class pixcoord_copy:
    cases = {'scalar': {'q': 'scalar'}, 'arr1': {'q': 'arr1'}, 'arr2': {'q': 'arr2'}}

    def setup(B, q='scalar'):
        from contracts.common import query
        return dict(self=query(B, q))
    forall = {'k': 'int', 'l': 'int'}
    post = {
        'equal_values': lambda self, result, k, l: implies(
            idx_ok(self.x, k, l), elem(result.x, k, l) == elem(self.x, k, l) and elem(result.y, k, l) == elem(self.y, k, l)),
        'same_shape': lambda self, result: same_shape(result.x, self.x),
        'independent': lambda self, result: result is not self and (not is_array(self.x) or (result.x is not self.x and result.y is not self.y)),
    }


from spec.arrays import elem, idx_ok, same_shape
from vprim import is_array


# ---------------------------------------------------------------------------- region lists
def mklist(B, name, n=3):
    from contracts.common import circle
    items = [circle(B, name + '.r%d' % i) for i in range(n)]
    return B.construct(REGIONS, name, B.list(name + '.list', items)), items


@contract(REGIONS + '.__getitem__', props=['C16', 'C13'])
class regions_slice_and_copy_are_fresh_lists:
    cases = {'slice_all': {'op': 'slice_all'}, 'slice_head': {'op': 'slice_head'}, 'copy': {'op': 'copy'}}

    def setup(B, op='slice_all'):
        rs, items = mklist(B, 'rs')
        from contracts.common import circle
        return dict(rs=rs, op=op, extra=circle(B, 'extra'))
    call = lambda rs, op, extra: slice_then_edit(rs, op, extra)
    post = {
        'fresh_list': lambda rs, result: result[0].regions is not rs.regions and result[0].__class__ is rs.__class__,
        'same_members_before_edit': lambda op, result: result[1] == (2 if op == 'slice_head' else 3),
        'source_unchanged_by_later_edits': lambda rs, result: len(rs.regions) == 3 and result[2] == list(rs.regions),
    }


def slice_then_edit(rs, op, extra):
    before = list(rs.regions)
    new = rs[:] if op == 'slice_all' else (rs[0:2] if op == 'slice_head' else rs.copy())
    n = len(new)
    new.append(extra)
    new.reverse()
    new.pop(0)
    new.insert(0, extra)
    new.extend([extra])
    return (new, n, before)


@contract(REGIONS + '.__getitem__', props=['C16'])
class regions_integer_index_returns_member:
    def setup(B):
        rs, items = mklist(B, 'rs')
        return dict(rs=rs, first=items[0], last=items[2])
    call = lambda rs: (rs[0], rs[-1], len(rs))
    post = {'members': lambda first, last, result: result[0] is first and result[1] is last and result[2] == 3}


def _two_polygons_and_a_copy(v1, v2):
    from regions.shapes.polygon import PolygonPixelRegion
    a, b = PolygonPixelRegion(v1), PolygonPixelRegion(v2)
    return (a, b, a.copy())


@contract('regions/shapes/polygon.py::PolygonPixelRegion', props=['C16', 'C13'])
class polygons_share_no_mutable_default:
    """every polygon owns its origin: two polygons built separately, and a polygon and its copy, have distinct origin objects
    (an in-place edit of one would otherwise move the others)"""
    def setup(B):
        from contracts.common import PIXCOORD
        mkv = lambda nm: B.construct(PIXCOORD, nm, B.array(nm + '.x', (3,)), B.array(nm + '.y', (3,)))
        return dict(v1=mkv('v1'), v2=mkv('v2'))
    call = lambda v1, v2: _two_polygons_and_a_copy(v1, v2)
    post = {'distinct_origins': lambda result: result[0].origin is not result[1].origin and result[2].origin is not result[0].origin
            and result[2].origin is not result[1].origin,
            'origin_is_the_pixel_origin': lambda result: result[0].origin.x == 0 and result[0].origin.y == 0 and result[2].origin.x == 0}


# ---------------------------------------------------------------------------- meta / visual entries: the KEY sets matter, not only the values
ENTRY_CASES = {
    # (which dictionary, entries of a, entries of b): same number of entries, different keys
    'visual_none_valued_key_vs_other_key': ('visual', {'color': 'red', 'default_style': None}, {'color': 'red', 'linewidth': 2}),
    'meta_none_valued_key_vs_other_key': ('meta', {'label': 'x', 'comment': None}, {'label': 'x', 'frame': 'icrs'}),
    'visual_zero_valued_key_vs_other_key': ('visual', {'linewidth': 0}, {'fontsize': 0}),
    'meta_false_valued_key_vs_absent': ('meta', {'include': False}, {}),
    'meta_none_valued_key_vs_absent': ('meta', {'comment': None}, {}),
    'visual_same_key_none_vs_value': ('visual', {'default_style': None}, {'default_style': 'ds9'}),
}


@contract('regions/core/core.py::Region.__eq__', props=['C16'])
class region_equality_sees_every_meta_and_visual_key:
    """two regions with equal shape parameters whose meta / visual differ in which keys they hold are different regions, in both orders -
    also when an entry's value is None, 0 or False (values that a careless `.get()` comparison confuses with absence)"""
    cases = {k: {'which': k} for k in ENTRY_CASES}

    def setup(B, which='visual_none_valued_key_vs_other_key'):
        what, ea, eb = ENTRY_CASES[which]
        c, rad = pix(B, 'c'), B.real('rad')
        ma, mb = B.meta(META, 'a.meta', ea if what == 'meta' else {}), B.meta(META, 'b.meta', eb if what == 'meta' else {})
        va, vb = B.meta(VISUAL, 'a.visual', ea if what == 'visual' else {}), B.meta(VISUAL, 'b.visual', eb if what == 'visual' else {})
        return dict(a=B.new(CIRCLE, label='a', center=c, radius=rad, meta=ma, visual=va),
                    b=B.new(CIRCLE, label='b', center=c, radius=rad, meta=mb, visual=vb))
    pre = lambda a: a.radius > 0
    call = lambda a, b: (a == b, b == a, a != b, b != a, a == a)
    post = {'unequal_in_both_orders': lambda result: (not result[0]) and (not result[1]) and result[2] and result[3],
            'reflexive': lambda result: result[4]}
