"""The compiled kernels, verified from their .pyx text (the Python subset is extracted mechanically on every run, pyvc/pyx.py,
and the report of what the extraction dropped goes into the evidence): loops carry inductive invariants (`loops`), so the
obligations hold for every number of vertices / sub-samples / pixels.  What remains assumed is listed in contracts/index.py
(A-CYTHON: compilation preserves the meaning of the extracted subset; C doubles as reals, C ints as integers)."""
from pyvc.api import contract
from spec.polygon import crossings, crossings_odd, odd_crossings

PNPOLY = 'regions/_geometry/pnpoly.pyx::'


@contract(PNPOLY + 'point_in_polygon', props=['C01', 'C02'])
class kernel_point_in_polygon:
    """the even-odd rule: 1 iff an odd number of edges cross the rightward ray from the point"""
    def setup(B):
        n = B.int('n')
        return dict(x=B.real('x'), y=B.real('y'), vx=B.array('vx', (n,)), vy=B.array('vy', (n,)))
    loops = {'point_in_polygon#0': lambda i, result, x, y, vx, vy: result >= 0 and (result % 2 == 1) == odd_crossings(vx, vy, x, y, i)}
    post = {
        'even_odd_rule': lambda x, y, vx, vy, result: (result == 1) == crossings_odd(vx, vy, x, y),
        'zero_or_one': lambda result: result == 0 or result == 1,
    }


@contract(PNPOLY + 'points_in_polygon', props=['C01'])
class kernel_points_in_polygon:
    """element k of the result answers for point k; the result has one entry per point"""
    def setup(B):
        n, m = B.int('n'), B.int('m')
        return dict(x=B.array('x', (m,)), y=B.array('y', (m,)), vx=B.array('vx', (n,)), vy=B.array('vy', (n,)))
    forall = {'K': 'int'}
    loops = {
        'points_in_polygon#0': lambda i, result, x, y, vx, vy, K: (not (0 <= K and K < i)) or ((result[K] == 1) == crossings_odd(vx, vy, x[K], y[K])),
        'point_in_polygon#0': lambda i, result, x, y, vx, vy: result >= 0 and (result % 2 == 1) == odd_crossings(vx, vy, x, y, i),
    }
    post = {
        'one_answer_per_point': lambda x, result: len(result) == len(x),
        'pointwise': lambda x, y, vx, vy, result, K: (not (0 <= K and K < len(x))) or ((result[K] == 1) == crossings_odd(vx, vy, x[K], y[K])),
    }


# ---------------------------------------------------------------------------------------------------------------------------
# sub-pixel sampling: every *_overlap_single_subpixel returns the fraction of the n x n regularly spaced sample centres that are
# members of the shape (the definition behind FRAC for use_exact = 0; spec/masks.py::sampled_fraction)
from spec.masks import col_count, tot_count, sampled_fraction
from vprim import cos, sin

RECT = 'regions/_geometry/rectangular_overlap.pyx::'
ELL = 'regions/_geometry/elliptical_overlap.pyx::'
CIRC = 'regions/_geometry/circular_overlap.pyx::'
POLY = 'regions/_geometry/polygonal_overlap.pyx::'


def _outer(kind, params, i, frac, x, x0, y0, x1, y1, dx, dy, subpixels):
    return x == x0 - 0.5 * dx + i * dx and frac == tot_count(kind, params, x0, y0, x1 - x0, y1 - y0, subpixels, i)


def _running(lo, hi, step, v, k, n):
    """after k + 1 increments from lo - step/2 the running coordinate is the centre of sub-cell k"""
    return (not (n >= 1 and step == (hi - lo) / n and v == lo - 0.5 * step + (k + 1) * step)) or v == lo + (k + 0.5) * (hi - lo) / n


def _sq_quot(u, r):
    return r == 0 or (u / r) * (u / r) == u * u * (1 / (r * r))


def _inner(kind, params, i, j, frac, x, y, x0, y0, x1, y1, dx, dy, subpixels):
    from vprim import lemma
    from spec.masks import sample_point
    # proof steps: the running coordinates are the sample centres of the definition (products of the counters with the step)
    if not (isinstance(j, int) and j == 0):
        p = sample_point(x0, y0, x1 - x0, y1 - y0, subpixels, i, j - 1)
        from vprim import general
        general('running_coordinate_is_the_sample_centre', _running, x0, x1, dx, x, i, subpixels)
        general('running_coordinate_is_the_sample_centre', _running, y0, y1, dy, y, j - 1, subpixels)
        if kind == 'ellipse':
            # the kernel multiplies by precomputed 1/r^2, the definition divides by r: equal for every real (general lemma),
            # then the two membership tests are the same test, step by step
            from vprim import general
            from spec.geometry import to_shape_frame, sq
            from spec.masks import sample_inside
            rx, ry, c, s = params
            us, vs = to_shape_frame(0.0, 0.0, c, s, p[0], p[1])
            xt, yt = y * s + x * c, y * c - x * s
            general('square_of_quotient', _sq_quot, us, rx)
            general('square_of_quotient', _sq_quot, vs, ry)
            here = j >= 1 and x == x0 - 0.5 * dx + (i + 1) * dx and y == y0 - 0.5 * dy + j * dy      # the state the invariant describes
            lemma('rotated_abscissa', (not here) or xt == us)
            lemma('rotated_ordinate', (not here) or yt == vs)
            lemma('x_term', (not here) or sq(us / (2 * rx / 2)) == xt * xt * (1 / (rx * rx)))
            lemma('y_term', (not here) or sq(vs / (2 * ry / 2)) == yt * yt * (1 / (ry * ry)))
            lemma('same_test', (not here) or
                  (xt * xt * (1 / (rx * rx)) + yt * yt * (1 / (ry * ry)) < 1) == sample_inside(kind, params, x0, y0, x1 - x0, y1 - y0, subpixels, i, j - 1))
    return (y == y0 - 0.5 * dy + j * dy and x == x0 - 0.5 * dx + (i + 1) * dx and 0 <= i and i < subpixels
            and frac == tot_count(kind, params, x0, y0, x1 - x0, y1 - y0, subpixels, i) + col_count(kind, params, x0, y0, x1 - x0, y1 - y0, subpixels, i, j))


@contract(RECT + 'rectangular_overlap_single_subpixel', props=['C02'])
class kernel_rectangle_subpixel:
    def setup(B):
        return dict(x0=B.real('x0'), y0=B.real('y0'), x1=B.real('x1'), y1=B.real('y1'), width=B.real('w'), height=B.real('h'),
                    theta=B.real('theta'), subpixels=B.int('n'))
    pre = lambda subpixels: subpixels >= 1
    loops = {
        'rectangular_overlap_single_subpixel#0': lambda i, frac, x, x0, y0, x1, y1, dx, dy, subpixels, width, height, theta:
            _outer('rectangle', (width, height, cos(theta), sin(theta)), i, frac, x, x0, y0, x1, y1, dx, dy, subpixels),
        'rectangular_overlap_single_subpixel#1': lambda j, i, frac, x, y, x0, y0, x1, y1, dx, dy, subpixels, width, height, theta:
            _inner('rectangle', (width, height, cos(theta), sin(theta)), i, j, frac, x, y, x0, y0, x1, y1, dx, dy, subpixels),
    }
    post = {'sampled_fraction': lambda x0, y0, x1, y1, width, height, theta, subpixels, result:
            result == sampled_fraction('rectangle', (width, height, cos(theta), sin(theta)), x0, y0, x1 - x0, y1 - y0, subpixels)}


@contract(ELL + 'elliptical_overlap_single_subpixel', props=['C02'])
class kernel_ellipse_subpixel:
    def setup(B):
        return dict(x0=B.real('x0'), y0=B.real('y0'), x1=B.real('x1'), y1=B.real('y1'), rx=B.real('rx'), ry=B.real('ry'),
                    theta=B.real('theta'), subpixels=B.int('n'))
    pre = lambda subpixels, rx, ry: subpixels >= 1 and rx > 0 and ry > 0
    loops = {
        'elliptical_overlap_single_subpixel#0': lambda i, frac, x, x0, y0, x1, y1, dx, dy, subpixels, rx, ry, theta:
            _outer('ellipse', (rx, ry, cos(theta), sin(theta)), i, frac, x, x0, y0, x1, y1, dx, dy, subpixels),
        'elliptical_overlap_single_subpixel#1': lambda j, i, frac, x, y, x0, y0, x1, y1, dx, dy, subpixels, rx, ry, theta:
            _inner('ellipse', (rx, ry, cos(theta), sin(theta)), i, j, frac, x, y, x0, y0, x1, y1, dx, dy, subpixels),
    }
    post = {'sampled_fraction': lambda x0, y0, x1, y1, rx, ry, theta, subpixels, result:
            result == sampled_fraction('ellipse', (rx, ry, cos(theta), sin(theta)), x0, y0, x1 - x0, y1 - y0, subpixels)}


@contract(CIRC + 'circular_overlap_single_subpixel', props=['C02'])
class kernel_circle_subpixel:
    def setup(B):
        return dict(x0=B.real('x0'), y0=B.real('y0'), x1=B.real('x1'), y1=B.real('y1'), r=B.real('r'), subpixels=B.int('n'))
    pre = lambda subpixels, r: subpixels >= 1 and r > 0
    loops = {
        'circular_overlap_single_subpixel#0': lambda i, frac, x, x0, y0, x1, y1, dx, dy, subpixels, r:
            _outer('circle', (r,), i, frac, x, x0, y0, x1, y1, dx, dy, subpixels),
        'circular_overlap_single_subpixel#1': lambda j, i, frac, x, y, x0, y0, x1, y1, dx, dy, subpixels, r:
            _inner('circle', (r,), i, j, frac, x, y, x0, y0, x1, y1, dx, dy, subpixels),
    }
    post = {'sampled_fraction': lambda x0, y0, x1, y1, r, subpixels, result:
            result == sampled_fraction('circle', (r,), x0, y0, x1 - x0, y1 - y0, subpixels)}


@contract(POLY + 'polygonal_overlap_single_subpixel', props=['C02'])
class kernel_polygon_subpixel:
    """uses point_in_polygon, verified above against the even-odd rule (its loop carries its own invariant)"""
    def setup(B):
        m = B.int('m')
        return dict(x0=B.real('x0'), y0=B.real('y0'), x1=B.real('x1'), y1=B.real('y1'), vx=B.array('vx', (m,)), vy=B.array('vy', (m,)),
                    subpixels=B.int('n'))
    pre = lambda subpixels: subpixels >= 1
    loops = {
        'polygonal_overlap_single_subpixel#0': lambda i, frac, x, x0, y0, x1, y1, dx, dy, subpixels, vx, vy:
            _outer('polygon', (vx, vy), i, frac, x, x0, y0, x1, y1, dx, dy, subpixels),
        'polygonal_overlap_single_subpixel#1': lambda j, i, frac, x, y, x0, y0, x1, y1, dx, dy, subpixels, vx, vy:
            _inner('polygon', (vx, vy), i, j, frac, x, y, x0, y0, x1, y1, dx, dy, subpixels),
        'point_in_polygon#0': lambda i, result, x, y, vx, vy: result >= 0 and (result % 2 == 1) == odd_crossings(vx, vy, x, y, i),
    }
    post = {'sampled_fraction': lambda x0, y0, x1, y1, vx, vy, subpixels, result:
            result == sampled_fraction('polygon', (vx, vy), x0, y0, x1 - x0, y1 - y0, subpixels)}


# ---------------------------------------------------------------------------------------------------------------------------
# the grid functions: element [J, I] of the result is the per-pixel value of pixel (I, J) of the grid.  The per-pixel function is
# used through its contract (modular: it is verified above), by stubbing it with the function it was proved to compute.
from vprim import stub


def _pixel(xmin, xmax, ymin, ymax, nx, ny, I, J):
    """(x0, y0, x1, y1) of grid pixel (I, J) as the kernels compute them"""
    dx = (xmax - xmin) / nx
    dy = (ymax - ymin) / ny
    x0 = xmin + I * dx
    y0 = ymin + J * dy
    return x0, y0, x0 + dx, y0 + dy


def _frac_of(kind, params, px, n):
    return sampled_fraction(kind, params, px[0], px[1], px[2] - px[0], px[3] - px[1], n)


def _grid_inner(kind, params, i, j, frac, xmin, xmax, ymin, ymax, nx, ny, n, I, J, value):
    """columns before i are complete, column i is complete below row j (for the arbitrary but fixed pixel (I, J))"""
    return (not (0 <= I and 0 <= J and J < ny and (I < i or (I == i and J < j)) and I < nx)) or frac[J, I] == value


@contract(RECT + 'rectangular_overlap_grid', props=['C02'])
class kernel_rectangle_grid:
    def setup(B):
        stub(RECT + 'rectangular_overlap_single_subpixel',
             lambda x0, y0, x1, y1, width, height, theta, subpixels:
             sampled_fraction('rectangle', (width, height, cos(theta), sin(theta)), x0, y0, x1 - x0, y1 - y0, subpixels))
        return dict(xmin=B.real('xmin'), xmax=B.real('xmax'), ymin=B.real('ymin'), ymax=B.real('ymax'), nx=B.int('nx'), ny=B.int('ny'),
                    width=B.real('w'), height=B.real('h'), theta=B.real('theta'), use_exact=0, subpixels=B.int('n'))
    pre = lambda nx, ny, subpixels: nx >= 1 and ny >= 1 and subpixels >= 1
    forall = {'I': 'int', 'J': 'int'}
    loops = {
        'rectangular_overlap_grid#0': lambda i, frac, xmin, xmax, ymin, ymax, nx, ny, width, height, theta, subpixels, I, J:
            _grid_inner('rectangle', None, i, 0, frac, xmin, xmax, ymin, ymax, nx, ny, subpixels, I, J,
                        _frac_of('rectangle', (width, height, cos(theta), sin(theta)), _pixel(xmin, xmax, ymin, ymax, nx, ny, I, J), subpixels)),
        'rectangular_overlap_grid#1': lambda j, i, frac, xmin, xmax, ymin, ymax, nx, ny, width, height, theta, subpixels, I, J:
            0 <= i and i < nx and
            _grid_inner('rectangle', None, i, j, frac, xmin, xmax, ymin, ymax, nx, ny, subpixels, I, J,
                        _frac_of('rectangle', (width, height, cos(theta), sin(theta)), _pixel(xmin, xmax, ymin, ymax, nx, ny, I, J), subpixels)),
    }
    post = {
        'shape': lambda nx, ny, result: result.shape == (ny, nx),
        'every_pixel': lambda xmin, xmax, ymin, ymax, nx, ny, width, height, theta, subpixels, result, I, J:
            (not (0 <= I and I < nx and 0 <= J and J < ny)) or
            result[J, I] == _frac_of('rectangle', (width, height, cos(theta), sin(theta)), _pixel(xmin, xmax, ymin, ymax, nx, ny, I, J), subpixels),
    }


@contract(RECT + 'rectangular_overlap_grid', props=['C02'])
class kernel_rectangle_grid_exact_is_refused:
    def setup(B):
        return dict(xmin=B.real('xmin'), xmax=B.real('xmax'), ymin=B.real('ymin'), ymax=B.real('ymax'), nx=B.int('nx'), ny=B.int('ny'),
                    width=B.real('w'), height=B.real('h'), theta=B.real('theta'), use_exact=1, subpixels=B.int('n'))
    pre = lambda nx, ny: nx >= 0 and ny >= 0
    raises = {'NotImplementedError': lambda: True}


# ---- grids with a bounding-window short-cut (ellipse, polygon, circle): what the dispatch computes for every pixel is proved here;
# that a pixel the short-cut leaves at 0 (or sets to 1) has that sampled fraction is a geometric lemma about the shape, not about
# the code, and is listed as an assumption (A-KERNEL-WINDOW in contracts/index.py)
def _window(px, dx, dy, bx, by):
    """the kernels' own test that pixel px = (x0, y0, x1, y1) meets the padded bounding window [-bx, bx] x [-by, by] (or the given box)"""
    return px[2] > bx[0] and px[0] < bx[1] and px[3] > by[0] and px[1] < by[1]


def _state(I, J, i, j, nx, ny, frac, value):
    """pixel (I, J) holds its final value once visited (columns before i, rows before j in column i) and 0 before that"""
    inr = 0 <= I and I < nx and 0 <= J and J < ny
    done = I < i or (I == i and J < j)
    return (not inr) or ((not done) or frac[J, I] == value) and (done or frac[J, I] == 0)


def _ellipse_value(xmin, xmax, ymin, ymax, nx, ny, rx, ry, theta, use_exact, n, I, J):
    from vprim import uf
    px = _pixel(xmin, xmax, ymin, ymax, nx, ny, I, J)
    dx = (xmax - xmin) / nx
    dy = (ymax - ymin) / ny
    from vprim import ite
    r = ite(rx >= ry, rx, ry)
    inw = _window(px, dx, dy, (-r - 0.5 * dx, r + 0.5 * dx), (-r - 0.5 * dy, r + 0.5 * dy))
    if use_exact:
        v = uf('exact_area_ellipse', 'real', px[0], px[1], px[2], px[3], rx, ry, theta) * (1. / (dx * dy))
    else:
        v = _frac_of('ellipse', (rx, ry, cos(theta), sin(theta)), px, n)
    return ite(inw, v, 0.0)        # a value, not a branch: the specification does not fork the proof


@contract(ELL + 'elliptical_overlap_grid', props=['C02'])
class kernel_ellipse_grid:
    cases = {'subpixels': {'use_exact': 0}, 'exact': {'use_exact': 1}}

    def setup(B, use_exact=0):
        from vprim import uf
        stub(ELL + 'elliptical_overlap_single_subpixel',
             lambda x0, y0, x1, y1, rx, ry, theta, subpixels:
             sampled_fraction('ellipse', (rx, ry, cos(theta), sin(theta)), x0, y0, x1 - x0, y1 - y0, subpixels))
        stub(ELL + 'elliptical_overlap_single_exact',
             lambda xmin, ymin, xmax, ymax, rx, ry, theta: uf('exact_area_ellipse', 'real', xmin, ymin, xmax, ymax, rx, ry, theta))
        return dict(xmin=B.real('xmin'), xmax=B.real('xmax'), ymin=B.real('ymin'), ymax=B.real('ymax'), nx=B.int('nx'), ny=B.int('ny'),
                    rx=B.real('rx'), ry=B.real('ry'), theta=B.real('theta'), use_exact=use_exact, subpixels=B.int('n'))
    pre = lambda nx, ny, subpixels, rx, ry, xmin, xmax, ymin, ymax: nx >= 1 and ny >= 1 and subpixels >= 1 and rx > 0 and ry > 0 and xmax > xmin and ymax > ymin
    forall = {'I': 'int', 'J': 'int'}
    loops = {
        'elliptical_overlap_grid#0': lambda i, frac, xmin, xmax, ymin, ymax, nx, ny, rx, ry, theta, use_exact, subpixels, I, J:
            _state(I, J, i, 0, nx, ny, frac, _ellipse_value(xmin, xmax, ymin, ymax, nx, ny, rx, ry, theta, use_exact, subpixels, I, J)),
        'elliptical_overlap_grid#1': lambda j, i, frac, xmin, xmax, ymin, ymax, nx, ny, rx, ry, theta, use_exact, subpixels, I, J:
            0 <= i and i < nx and
            _state(I, J, i, j, nx, ny, frac, _ellipse_value(xmin, xmax, ymin, ymax, nx, ny, rx, ry, theta, use_exact, subpixels, I, J)),
    }
    post = {
        'shape': lambda nx, ny, result: result.shape == (ny, nx),
        'every_pixel': lambda xmin, xmax, ymin, ymax, nx, ny, rx, ry, theta, use_exact, subpixels, result, I, J:
            (not (0 <= I and I < nx and 0 <= J and J < ny)) or
            result[J, I] == _ellipse_value(xmin, xmax, ymin, ymax, nx, ny, rx, ry, theta, use_exact, subpixels, I, J),
    }


def _polygon_value(xmin, xmax, ymin, ymax, nx, ny, vx, vy, n, I, J):
    px = _pixel(xmin, xmax, ymin, ymax, nx, ny, I, J)
    inw = _window(px, None, None, (vx.min(), vx.max()), (vy.min(), vy.max()))
    from vprim import ite
    return ite(inw, _frac_of('polygon', (vx, vy), px, n), 0.0)


@contract(POLY + 'polygonal_overlap_grid', props=['C02'])
class kernel_polygon_grid:
    def setup(B):
        stub(POLY + 'polygonal_overlap_single_subpixel',
             lambda x0, y0, x1, y1, vx, vy, subpixels: sampled_fraction('polygon', (vx, vy), x0, y0, x1 - x0, y1 - y0, subpixels))
        m = B.int('m')
        B.assume(m >= 1)
        return dict(xmin=B.real('xmin'), xmax=B.real('xmax'), ymin=B.real('ymin'), ymax=B.real('ymax'), nx=B.int('nx'), ny=B.int('ny'),
                    vx=B.array('vx', (m,)), vy=B.array('vy', (m,)), use_exact=0, subpixels=B.int('n'))
    pre = lambda nx, ny, subpixels, xmin, xmax, ymin, ymax: nx >= 1 and ny >= 1 and subpixels >= 1 and xmax > xmin and ymax > ymin
    forall = {'I': 'int', 'J': 'int'}
    loops = {
        'polygonal_overlap_grid#0': lambda i, frac, xmin, xmax, ymin, ymax, nx, ny, vx, vy, subpixels, I, J:
            _state(I, J, i, 0, nx, ny, frac, _polygon_value(xmin, xmax, ymin, ymax, nx, ny, vx, vy, subpixels, I, J)),
        'polygonal_overlap_grid#1': lambda j, i, frac, xmin, xmax, ymin, ymax, nx, ny, vx, vy, subpixels, I, J:
            0 <= i and i < nx and
            _state(I, J, i, j, nx, ny, frac, _polygon_value(xmin, xmax, ymin, ymax, nx, ny, vx, vy, subpixels, I, J)),
    }
    post = {
        'shape': lambda nx, ny, result: result.shape == (ny, nx),
        'every_pixel': lambda xmin, xmax, ymin, ymax, nx, ny, vx, vy, subpixels, result, I, J:
            (not (0 <= I and I < nx and 0 <= J and J < ny)) or
            result[J, I] == _polygon_value(xmin, xmax, ymin, ymax, nx, ny, vx, vy, subpixels, I, J),
    }


def _circle_value(xmin, xmax, ymin, ymax, nx, ny, r, use_exact, n, I, J):
    from vprim import uf, sqrt
    px = _pixel(xmin, xmax, ymin, ymax, nx, ny, I, J)
    dx = (xmax - xmin) / nx
    dy = (ymax - ymin) / ny
    inw = _window(px, dx, dy, (-r - 0.5 * dx, r + 0.5 * dx), (-r - 0.5 * dy, r + 0.5 * dy))
    pixel_radius = 0.5 * sqrt(dx * dx + dy * dy)
    cx, cy = px[0] + dx * 0.5, px[1] + dy * 0.5
    d = sqrt(cx * cx + cy * cy)
    from vprim import ite
    if use_exact:
        v = uf('exact_area_circle', 'real', px[0], px[1], px[2], px[3], r) / (dx * dy)
    else:
        v = _frac_of('circle', (r,), px, n)
    return ite(inw, ite(d < r - pixel_radius, 1.0, ite(d < r + pixel_radius, v, 0.0)), 0.0)


@contract(CIRC + 'circular_overlap_grid', props=['C02'])
class kernel_circle_grid:
    cases = {'subpixels': {'use_exact': 0}, 'exact': {'use_exact': 1}}

    def setup(B, use_exact=0):
        from vprim import uf
        stub(CIRC + 'circular_overlap_single_subpixel',
             lambda x0, y0, x1, y1, r, subpixels: sampled_fraction('circle', (r,), x0, y0, x1 - x0, y1 - y0, subpixels))
        stub(CIRC + 'circular_overlap_single_exact', lambda xmin, ymin, xmax, ymax, r: uf('exact_area_circle', 'real', xmin, ymin, xmax, ymax, r))
        return dict(xmin=B.real('xmin'), xmax=B.real('xmax'), ymin=B.real('ymin'), ymax=B.real('ymax'), nx=B.int('nx'), ny=B.int('ny'),
                    r=B.real('r'), use_exact=use_exact, subpixels=B.int('n'))
    pre = lambda nx, ny, subpixels, r, xmin, xmax, ymin, ymax: nx >= 1 and ny >= 1 and subpixels >= 1 and r > 0 and xmax > xmin and ymax > ymin
    forall = {'I': 'int', 'J': 'int'}
    loops = {
        'circular_overlap_grid#0': lambda i, frac, xmin, xmax, ymin, ymax, nx, ny, r, use_exact, subpixels, I, J:
            _state(I, J, i, 0, nx, ny, frac, _circle_value(xmin, xmax, ymin, ymax, nx, ny, r, use_exact, subpixels, I, J)),
        'circular_overlap_grid#1': lambda j, i, frac, xmin, xmax, ymin, ymax, nx, ny, r, use_exact, subpixels, I, J:
            0 <= i and i < nx and
            _state(I, J, i, j, nx, ny, frac, _circle_value(xmin, xmax, ymin, ymax, nx, ny, r, use_exact, subpixels, I, J)),
    }
    post = {
        'shape': lambda nx, ny, result: result.shape == (ny, nx),
        'every_pixel': lambda xmin, xmax, ymin, ymax, nx, ny, r, use_exact, subpixels, result, I, J:
            (not (0 <= I and I < nx and 0 <= J and J < ny)) or
            result[J, I] == _circle_value(xmin, xmax, ymin, ymax, nx, ny, r, use_exact, subpixels, I, J),
    }


# ---------------------------------------------------------------------------------------------------------------------------
# A-KERNEL-WINDOW, part 1 (proved): a pixel lying outside the square [-R, R]^2 around a shape contained in the disk of radius R has
# no member sample.  Proved by induction over the samples: the induction is a ghost function whose two loops carry the invariants.
def outside_square(px, R):
    return px[2] <= -R or px[0] >= R or px[3] <= -R or px[1] >= R


def ghost_far_pixel(kind, params, x0, y0, x1, y1, n):
    """ghost code: walks over the n x n samples of the pixel; its loop invariants say that no sample met so far is a member"""
    for a in range(n):
        for b in range(n):
            pass
    return tot_count(kind, params, x0, y0, x1 - x0, y1 - y0, n, n)


def _far_outer(kind, params, a, x0, y0, x1, y1, n):
    return tot_count(kind, params, x0, y0, x1 - x0, y1 - y0, n, a) == 0


def _centre_inside(lo, hi, k, n):
    return (not (n >= 1 and 0 <= k and k <= n - 1 and hi > lo)) or (lo < lo + (k + 0.5) * (hi - lo) / n and lo + (k + 0.5) * (hi - lo) / n < hi)


def _far_inner(kind, params, a, b, x0, y0, x1, y1, n):
    from vprim import lemma
    from spec.masks import sample_point
    if not (isinstance(b, int) and b == 0):
        p = sample_point(x0, y0, x1 - x0, y1 - y0, n, a, b - 1)
        # a sample centre lies strictly inside its pixel (for all reals, proved on its own)
        from vprim import general
        general('sample_centre_inside_cell', _centre_inside, x0, x1, a, n)
        general('sample_centre_inside_cell', _centre_inside, y0, y1, b - 1, n)
        if kind == 'circle':
            general('point_of_a_far_cell_is_beyond_R', _far_point, x0, y0, x1, y1, p[0], p[1], params[0])
    return (0 <= a and a < n and tot_count(kind, params, x0, y0, x1 - x0, y1 - y0, n, a) == 0
            and col_count(kind, params, x0, y0, x1 - x0, y1 - y0, n, a, b) == 0)


@contract('contracts/k_kernels.py::ghost_far_pixel', props=['C02'])
class lemma_far_pixel_of_a_disk_has_no_member_sample:
    def setup(B):
        r = B.real('r')
        return dict(kind='circle', params=(r,), x0=B.real('x0'), y0=B.real('y0'), x1=B.real('x1'), y1=B.real('y1'), n=B.int('n'), r=r)
    pre = lambda x0, y0, x1, y1, n, r: n >= 1 and x1 > x0 and y1 > y0 and r > 0 and outside_square((x0, y0, x1, y1), r)
    loops = {
        'ghost_far_pixel#0': lambda a, kind, params, x0, y0, x1, y1, n: _far_outer(kind, params, a, x0, y0, x1, y1, n),
        'ghost_far_pixel#1': lambda b, a, kind, params, x0, y0, x1, y1, n: _far_inner(kind, params, a, b, x0, y0, x1, y1, n),
    }
    post = {'no_member_sample': lambda result: result == 0}


def _far_point(x0, y0, x1, y1, px, py, R):
    return (not (R > 0 and x0 < px and px < x1 and y0 < py and py < y1 and (x1 <= -R or x0 >= R or y1 <= -R or y0 >= R))) or px * px + py * py > R * R


def _sq_beyond(x, R):
    return (not (R > 0 and (x > R or x < -R))) or x * x > R * R


def _rot_norm(x, y, c, s):
    return (not (c * c + s * s == 1)) or (c * x + s * y) * (c * x + s * y) + (-s * x + c * y) * (-s * x + c * y) == x * x + y * y


def _quot_mono(u, r, R):
    return (not (0 < r and r <= R)) or (u / r) * (u / r) >= (u / R) * (u / R)


def _div_gt(A, R):
    return (not (R > 0 and A > R * R)) or A / (R * R) > 1


def _quot_sum(u, v, R):
    return (not (R > 0)) or (u / R) * (u / R) + (v / R) * (v / R) == (u * u + v * v) / (R * R)


def _far_inner_ellipse(params, R, a, b, x0, y0, x1, y1, n):
    from vprim import general, lemma
    from spec.masks import sample_point
    from spec.geometry import to_shape_frame
    rx, ry, c, s = params
    if not (isinstance(b, int) and b == 0):
        p = sample_point(x0, y0, x1 - x0, y1 - y0, n, a, b - 1)
        us, vs = to_shape_frame(0.0, 0.0, c, s, p[0], p[1])
        general('sample_centre_inside_cell', _centre_inside, x0, x1, a, n)
        general('sample_centre_inside_cell', _centre_inside, y0, y1, b - 1, n)
        general('point_of_a_far_cell_is_beyond_R', _far_point, x0, y0, x1, y1, p[0], p[1], R)
        general('rotation_keeps_the_norm', _rot_norm, p[0], p[1], c, s)
        general('smaller_axis_larger_quotient', _quot_mono, us, rx, R)
        general('smaller_axis_larger_quotient', _quot_mono, vs, ry, R)
        general('sum_of_quotient_squares', _quot_sum, us, vs, R)
        general('quotient_exceeds_one', _div_gt, us * us + vs * vs, R)
    return _far_inner('ellipse', params, a, b, x0, y0, x1, y1, n)


@contract('contracts/k_kernels.py::ghost_far_pixel', props=['C02'])
class lemma_far_pixel_of_an_ellipse_has_no_member_sample:
    def setup(B):
        rx, ry, c, s, R = B.real('rx'), B.real('ry'), B.real('c'), B.real('s'), B.real('R')
        return dict(kind='ellipse', params=(rx, ry, c, s), x0=B.real('x0'), y0=B.real('y0'), x1=B.real('x1'), y1=B.real('y1'), n=B.int('n'),
                    rx=rx, ry=ry, c=c, s=s, R=R)
    pre = lambda x0, y0, x1, y1, n, rx, ry, c, s, R: (n >= 1 and x1 > x0 and y1 > y0 and 0 < rx and rx <= R and 0 < ry and ry <= R
                                                      and c * c + s * s == 1 and outside_square((x0, y0, x1, y1), R))
    loops = {
        'ghost_far_pixel#0': lambda a, kind, params, x0, y0, x1, y1, n: _far_outer(kind, params, a, x0, y0, x1, y1, n),
        'ghost_far_pixel#1': lambda b, a, kind, params, x0, y0, x1, y1, n, R: _far_inner_ellipse(params, R, a, b, x0, y0, x1, y1, n),
    }
    post = {'no_member_sample': lambda result: result == 0}


def apply_far_pixel_lemma(lemma_cls, kind, params, px, n, **ghost):
    """use of a proved lemma (modular): where its precondition holds, its conclusion may be used.  Both are taken from the lemma's own
    contract, so what is used is exactly what was proved"""
    from vprim import fact, implies, use_lemma
    pre = lemma_cls.pre(x0=px[0], y0=px[1], x1=px[2], y1=px[3], n=n, **ghost)
    use_lemma(lemma_cls.__name__)
    fact(implies(pre, tot_count(kind, params, px[0], px[1], px[2] - px[0], px[3] - px[1], n, n) == 0))
    return pre


@contract(ELL + 'elliptical_overlap_grid', props=['C02'])
class kernel_ellipse_grid_is_the_sampled_fraction_everywhere:
    """with the far-pixel lemma: also the pixels the bounding-window short-cut leaves at 0 hold their sampled fraction"""
    def setup(B):
        stub(ELL + 'elliptical_overlap_single_subpixel',
             lambda x0, y0, x1, y1, rx, ry, theta, subpixels:
             sampled_fraction('ellipse', (rx, ry, cos(theta), sin(theta)), x0, y0, x1 - x0, y1 - y0, subpixels))
        return dict(xmin=B.real('xmin'), xmax=B.real('xmax'), ymin=B.real('ymin'), ymax=B.real('ymax'), nx=B.int('nx'), ny=B.int('ny'),
                    rx=B.real('rx'), ry=B.real('ry'), theta=B.real('theta'), use_exact=0, subpixels=B.int('n'))
    pre = kernel_ellipse_grid.pre
    forall = {'I': 'int', 'J': 'int'}
    loops = kernel_ellipse_grid.loops

    def _post(xmin, xmax, ymin, ymax, nx, ny, rx, ry, theta, subpixels, result, I, J):
        from vprim import ite
        px = _pixel(xmin, xmax, ymin, ymax, nx, ny, I, J)
        R = ite(rx >= ry, rx, ry)
        params = (rx, ry, cos(theta), sin(theta))
        apply_far_pixel_lemma(lemma_far_pixel_of_an_ellipse_has_no_member_sample, 'ellipse', params, px, subpixels,
                              rx=rx, ry=ry, c=params[2], s=params[3], R=R)
        return (not (0 <= I and I < nx and 0 <= J and J < ny)) or result[J, I] == _frac_of('ellipse', params, px, subpixels)
    post = {'every_pixel': _post}


@contract(CIRC + 'circular_overlap_grid', props=['C02'])
class kernel_circle_grid_window_pixels_hold_their_sampled_fraction:
    """with the far-pixel lemma: pixels the bounding-window short-cut leaves at 0 hold their sampled fraction (the two distance
    short-cuts inside the window remain under A-KERNEL-WINDOW)"""
    def setup(B):
        stub(CIRC + 'circular_overlap_single_subpixel',
             lambda x0, y0, x1, y1, r, subpixels: sampled_fraction('circle', (r,), x0, y0, x1 - x0, y1 - y0, subpixels))
        return dict(xmin=B.real('xmin'), xmax=B.real('xmax'), ymin=B.real('ymin'), ymax=B.real('ymax'), nx=B.int('nx'), ny=B.int('ny'),
                    r=B.real('r'), use_exact=0, subpixels=B.int('n'))
    pre = kernel_circle_grid.pre
    forall = {'I': 'int', 'J': 'int'}
    loops = kernel_circle_grid.loops

    def _post(xmin, xmax, ymin, ymax, nx, ny, r, subpixels, result, I, J):
        px = _pixel(xmin, xmax, ymin, ymax, nx, ny, I, J)
        dx = (xmax - xmin) / nx
        dy = (ymax - ymin) / ny
        inw = _window(px, dx, dy, (-r - 0.5 * dx, r + 0.5 * dx), (-r - 0.5 * dy, r + 0.5 * dy))
        apply_far_pixel_lemma(lemma_far_pixel_of_a_disk_has_no_member_sample, 'circle', (r,), px, subpixels, r=r)
        return (not (0 <= I and I < nx and 0 <= J and J < ny)) or inw or result[J, I] == _frac_of('circle', (r,), px, subpixels)
    post = {'pixels_outside_the_window': _post}


# ---------------------------------------------------------------------------------------------------------------------------
# A-KERNEL-WINDOW, part 2 (proved): the circle grid's distance short-cuts.  With c the pixel centre, D = |c| and P the half-diagonal,
# every point p of the pixel has |p - c| < P, hence |p| < D + P (all samples inside when D < r - P) and |p| > D - P (none inside
# when D >= r + P): the triangle inequality, in steps each proved for all reals on its own.
def _cs(cx, cy, ex, ey):
    return (cx * ex + cy * ey) * (cx * ex + cy * ey) <= (cx * cx + cy * cy) * (ex * ex + ey * ey)


def _expand(cx, cy, ex, ey):
    return (cx + ex) * (cx + ex) + (cy + ey) * (cy + ey) == (cx * cx + cy * cy) + 2 * (cx * ex + cy * ey) + (ex * ex + ey * ey)


def _in_cell(ex, ey, dx, dy):
    return (not (dx > 0 and dy > 0 and -dx / 2 < ex and ex < dx / 2 and -dy / 2 < ey and ey < dy / 2)) or ex * ex + ey * ey < (dx * dx + dy * dy) / 4


def _root_mono(t, P):
    return (not (t >= 0 and P >= 0 and t * t < P * P)) or t < P


def _half_sq(S, A):
    return (not (S * S == A)) or (0.5 * S) * (0.5 * S) == A / 4


def _prod_sq(A, B, D, t):
    return (not (D * D == A and t * t == B)) or D * D * t * t == A * B


def _tri_upper(D, t, q, r, P):
    return (not (D >= 0 and t >= 0 and P >= 0 and q * q <= D * D * t * t and t < P and D + P < r)) or D * D + 2 * q + t * t < r * r


def _tri_lower(D, t, q, r, P):
    return (not (D >= 0 and t >= 0 and P >= 0 and q * q <= D * D * t * t and t < P and D >= r + P and r > 0)) or D * D + 2 * q + t * t >= r * r


def _disk_steps(x0, y0, x1, y1, n, a, b, r):
    """proof steps for sample (a, b - 1) of the pixel; returns nothing, leaves facts"""
    from vprim import general, sqrt
    from spec.masks import sample_point
    if isinstance(b, int) and b == 0:
        return True
    p = sample_point(x0, y0, x1 - x0, y1 - y0, n, a, b - 1)
    dx, dy = x1 - x0, y1 - y0
    cx, cy = x0 + dx * 0.5, y0 + dy * 0.5
    ex, ey = p[0] - cx, p[1] - cy
    D = sqrt(cx * cx + cy * cy)
    P = 0.5 * sqrt(dx * dx + dy * dy)
    t = sqrt(ex * ex + ey * ey)
    q = cx * ex + cy * ey
    general('sample_centre_inside_cell', _centre_inside, x0, x1, a, n)
    general('sample_centre_inside_cell', _centre_inside, y0, y1, b - 1, n)
    general('offset_from_the_centre_is_inside_the_half_diagonal', _in_cell, ex, ey, dx, dy)
    general('root_is_monotone', _root_mono, t, P)
    general('half_root_squared', _half_sq, sqrt(dx * dx + dy * dy), dx * dx + dy * dy)
    general('product_of_squares', _prod_sq, cx * cx + cy * cy, ex * ex + ey * ey, D, t)
    general('cauchy_schwarz', _cs, cx, cy, ex, ey)
    general('square_of_a_sum', _expand, cx, cy, ex, ey)
    general('triangle_upper', _tri_upper, D, t, q, r, P)
    general('triangle_lower', _tri_lower, D, t, q, r, P)
    return True


def near_centre(px, r):
    from vprim import sqrt
    dx, dy = px[2] - px[0], px[3] - px[1]
    cx, cy = px[0] + dx * 0.5, px[1] + dy * 0.5
    return sqrt(cx * cx + cy * cy) < r - 0.5 * sqrt(dx * dx + dy * dy)


def far_centre(px, r):
    from vprim import sqrt
    dx, dy = px[2] - px[0], px[3] - px[1]
    cx, cy = px[0] + dx * 0.5, px[1] + dy * 0.5
    return sqrt(cx * cx + cy * cy) >= r + 0.5 * sqrt(dx * dx + dy * dy)


@contract('contracts/k_kernels.py::ghost_far_pixel', props=['C02'])
class lemma_pixel_beyond_the_circle_has_no_member_sample:
    def setup(B):
        r = B.real('r')
        return dict(kind='circle', params=(r,), x0=B.real('x0'), y0=B.real('y0'), x1=B.real('x1'), y1=B.real('y1'), n=B.int('n'), r=r)
    pre = lambda x0, y0, x1, y1, n, r: n >= 1 and x1 > x0 and y1 > y0 and r > 0 and far_centre((x0, y0, x1, y1), r)
    loops = {
        'ghost_far_pixel#0': lambda a, kind, params, x0, y0, x1, y1, n: _far_outer(kind, params, a, x0, y0, x1, y1, n),
        'ghost_far_pixel#1': lambda b, a, kind, params, x0, y0, x1, y1, n, r:
            _disk_steps(x0, y0, x1, y1, n, a, b, r) and _far_inner(kind, params, a, b, x0, y0, x1, y1, n),
    }
    post = {'no_member_sample': lambda result: result == 0}


def _full_outer(kind, params, a, x0, y0, x1, y1, n):
    return tot_count(kind, params, x0, y0, x1 - x0, y1 - y0, n, a) == a * n


def _full_inner(kind, params, a, b, x0, y0, x1, y1, n):
    return (0 <= a and a < n and tot_count(kind, params, x0, y0, x1 - x0, y1 - y0, n, a) == a * n
            and col_count(kind, params, x0, y0, x1 - x0, y1 - y0, n, a, b) == b)


@contract('contracts/k_kernels.py::ghost_far_pixel', props=['C02'])
class lemma_pixel_well_inside_the_circle_has_only_member_samples:
    def setup(B):
        r = B.real('r')
        return dict(kind='circle', params=(r,), x0=B.real('x0'), y0=B.real('y0'), x1=B.real('x1'), y1=B.real('y1'), n=B.int('n'), r=r)
    pre = lambda x0, y0, x1, y1, n, r: n >= 1 and x1 > x0 and y1 > y0 and r > 0 and near_centre((x0, y0, x1, y1), r)
    loops = {
        'ghost_far_pixel#0': lambda a, kind, params, x0, y0, x1, y1, n: _full_outer(kind, params, a, x0, y0, x1, y1, n),
        'ghost_far_pixel#1': lambda b, a, kind, params, x0, y0, x1, y1, n, r:
            _disk_steps(x0, y0, x1, y1, n, a, b, r) and _full_inner(kind, params, a, b, x0, y0, x1, y1, n),
    }
    post = {'every_sample_is_a_member': lambda result, n: result == n * n}


def _unit_quotient(m):
    return (not (m >= 1)) or (m * m) / (m * m) == 1


@contract(CIRC + 'circular_overlap_grid', props=['C02'])
class kernel_circle_grid_is_the_sampled_fraction_everywhere:
    """with the three lemmas about pixels far from / well inside the circle: every pixel of the grid holds its sampled fraction"""
    def setup(B):
        stub(CIRC + 'circular_overlap_single_subpixel',
             lambda x0, y0, x1, y1, r, subpixels: sampled_fraction('circle', (r,), x0, y0, x1 - x0, y1 - y0, subpixels))
        return dict(xmin=B.real('xmin'), xmax=B.real('xmax'), ymin=B.real('ymin'), ymax=B.real('ymax'), nx=B.int('nx'), ny=B.int('ny'),
                    r=B.real('r'), use_exact=0, subpixels=B.int('n'))
    pre = kernel_circle_grid.pre
    forall = {'I': 'int', 'J': 'int'}
    loops = kernel_circle_grid.loops

    def _post(xmin, xmax, ymin, ymax, nx, ny, r, subpixels, result, I, J):
        from vprim import fact, implies, general, use_lemma
        px = _pixel(xmin, xmax, ymin, ymax, nx, ny, I, J)
        apply_far_pixel_lemma(lemma_far_pixel_of_a_disk_has_no_member_sample, 'circle', (r,), px, subpixels, r=r)
        apply_far_pixel_lemma(lemma_pixel_beyond_the_circle_has_no_member_sample, 'circle', (r,), px, subpixels, r=r)
        pre_full = lemma_pixel_well_inside_the_circle_has_only_member_samples.pre(x0=px[0], y0=px[1], x1=px[2], y1=px[3], n=subpixels, r=r)
        use_lemma('lemma_pixel_well_inside_the_circle_has_only_member_samples')
        fact(implies(pre_full, tot_count('circle', (r,), px[0], px[1], px[2] - px[0], px[3] - px[1], subpixels, subpixels) == subpixels * subpixels))
        general('a_full_count_is_the_fraction_one', _unit_quotient, subpixels)
        return (not (0 <= I and I < nx and 0 <= J and J < ny)) or result[J, I] == _frac_of('circle', (r,), px, subpixels)
    post = {'every_pixel': _post}


# ---------------------------------------------------------------------------------------------------------------------------
# A-KERNEL-WINDOW, part 3 (proved): a point outside the bounding box of a polygon's vertices has an even crossing number.
# Above/below the box no edge meets the ray's line; to the right every meeting point lies left of the point; to the left every edge that
# meets the line crosses the ray, and the number of such edges of a closed polygon is even (the sign "vertex above the line" returns
# to where it started): induction over the edges, as a ghost loop.
from spec.polygon import edge_crosses


def ghost_point_vs_polygon(vx, vy, x, y):
    n = len(vx)
    for k in range(n):
        pass
    return odd_crossings(vx, vy, x, y, n)


def _between(y, yk, yj, xk, xj):
    """an edge whose end points lie on different sides of the line meets it between the end points' abscissae"""
    xi = xk + (y - yk) * (xj - xk) / (yj - yk)
    return (not ((yk > y) != (yj > y))) or ((xi >= xk or xi >= xj) and (xi <= xk or xi <= xj))


def _edge_inv(side, k, vx, vy, x, y, n):
    """edges 0 .. k-1 processed; one invariant per side of the box the point lies on (four small proofs instead of one case split)"""
    from vprim import witness, general
    above = lambda m: vy[m] > y
    if not (isinstance(k, int) and k == 0):
        kk = k - 1                      # the edge just processed: from vertex (kk - 1) mod n to vertex kk
        j = (kk + n - 1) % n
        witness(n, kk)
        witness(n, j)
        if side in ('left', 'right'):
            general('meeting_point_between_the_end_points', _between, y, vy[kk], vy[j], vx[kk], vx[j])
    odd = odd_crossings(vx, vy, x, y, k)
    if isinstance(k, int) and k == 0:
        return not odd
    if side == 'left':
        # every edge that meets the line crosses the ray: parity follows the sign "vertex above the line"
        return odd == (k >= 1 and (above(k - 1) != above(n - 1)))
    return not odd                      # above, below, right: no edge crosses at all


SIDES = {'left': lambda vx, vy, x, y: x < vx.min(), 'right': lambda vx, vy, x, y: x > vx.max(),
         'below': lambda vx, vy, x, y: y < vy.min(), 'above': lambda vx, vy, x, y: y > vy.max()}


@contract('contracts/k_kernels.py::ghost_point_vs_polygon', props=['C02', 'C01', 'C04'])
class lemma_point_outside_the_vertex_box_has_even_crossing_number:
    cases = {sd: {'side': sd} for sd in SIDES}

    def setup(B, side='left'):
        n = B.int('n')
        B.assume(n >= 1)
        return dict(vx=B.array('vx', (n,)), vy=B.array('vy', (n,)), x=B.real('x'), y=B.real('y'), side=side)
    pre = lambda vx, vy, x, y, side: SIDES[side](vx, vy, x, y)
    loops = {'ghost_point_vs_polygon#0': lambda k, vx, vy, x, y, n, side: _edge_inv(side, k, vx, vy, x, y, n)}
    post = {'even': lambda result: not result,
            'not_a_member': lambda vx, vy, x, y: not crossings_odd(vx, vy, x, y)}


def outside_bbox(vx, vy, x, y):
    return x < vx.min() or x > vx.max() or y < vy.min() or y > vy.max()


def outside_vertex_box(px, vx, vy):
    """the kernel's own test, negated: the pixel does not meet the bounding box of the vertices"""
    return px[2] <= vx.min() or px[0] >= vx.max() or px[3] <= vy.min() or px[1] >= vy.max()


def _far_inner_polygon(params, a, b, x0, y0, x1, y1, n):
    from vprim import general, fact, implies, use_lemma
    from spec.masks import sample_point
    vx, vy = params
    if not (isinstance(b, int) and b == 0):
        p = sample_point(x0, y0, x1 - x0, y1 - y0, n, a, b - 1)
        general('sample_centre_inside_cell', _centre_inside, x0, x1, a, n)
        general('sample_centre_inside_cell', _centre_inside, y0, y1, b - 1, n)
        # the point lemma, used modularly at this sample: precondition and conclusion are those of its contract
        use_lemma('lemma_point_outside_the_vertex_box_has_even_crossing_number')
        for side in SIDES:
            fact(implies(lemma_point_outside_the_vertex_box_has_even_crossing_number.pre(vx=vx, vy=vy, x=p[0], y=p[1], side=side),
                         not crossings_odd(vx, vy, p[0], p[1])))
    return _far_inner('polygon', params, a, b, x0, y0, x1, y1, n)


@contract('contracts/k_kernels.py::ghost_far_pixel', props=['C02'])
class lemma_pixel_outside_the_vertex_box_has_no_member_sample:
    def setup(B):
        m = B.int('m')
        B.assume(m >= 1)
        vx, vy = B.array('vx', (m,)), B.array('vy', (m,))
        return dict(kind='polygon', params=(vx, vy), x0=B.real('x0'), y0=B.real('y0'), x1=B.real('x1'), y1=B.real('y1'), n=B.int('n'), vx=vx, vy=vy)
    pre = lambda x0, y0, x1, y1, n, vx, vy: n >= 1 and x1 > x0 and y1 > y0 and outside_vertex_box((x0, y0, x1, y1), vx, vy)
    loops = {
        'ghost_far_pixel#0': lambda a, kind, params, x0, y0, x1, y1, n: _far_outer(kind, params, a, x0, y0, x1, y1, n),
        'ghost_far_pixel#1': lambda b, a, kind, params, x0, y0, x1, y1, n: _far_inner_polygon(params, a, b, x0, y0, x1, y1, n),
    }
    post = {'no_member_sample': lambda result: result == 0}


@contract(POLY + 'polygonal_overlap_grid', props=['C02'])
class kernel_polygon_grid_is_the_sampled_fraction_everywhere:
    def setup(B):
        stub(POLY + 'polygonal_overlap_single_subpixel',
             lambda x0, y0, x1, y1, vx, vy, subpixels: sampled_fraction('polygon', (vx, vy), x0, y0, x1 - x0, y1 - y0, subpixels))
        m = B.int('m')
        B.assume(m >= 1)
        return dict(xmin=B.real('xmin'), xmax=B.real('xmax'), ymin=B.real('ymin'), ymax=B.real('ymax'), nx=B.int('nx'), ny=B.int('ny'),
                    vx=B.array('vx', (m,)), vy=B.array('vy', (m,)), use_exact=0, subpixels=B.int('n'))
    pre = kernel_polygon_grid.pre
    forall = {'I': 'int', 'J': 'int'}
    loops = kernel_polygon_grid.loops

    def _post(xmin, xmax, ymin, ymax, nx, ny, vx, vy, subpixels, result, I, J):
        px = _pixel(xmin, xmax, ymin, ymax, nx, ny, I, J)
        apply_far_pixel_lemma(lemma_pixel_outside_the_vertex_box_has_no_member_sample, 'polygon', (vx, vy), px, subpixels, vx=vx, vy=vy)
        return (not (0 <= I and I < nx and 0 <= J and J < ny)) or result[J, I] == _frac_of('polygon', (vx, vy), px, subpixels)
    post = {'every_pixel': _post}


# ---------------------------------------------------------------------------------------------------------------------------
# facts the Python-layer model of the kernels states about FRAC (externals/geometry_kernels.py), derived from its definition:
# a sampled fraction lies in [0, 1], and with a single sample it is 0 or 1 according to the membership of the pixel centre
def _bounds_outer(kind, params, a, x0, y0, x1, y1, n):
    t = tot_count(kind, params, x0, y0, x1 - x0, y1 - y0, n, a)
    return 0 <= t and t <= a * n


def _bounds_inner(kind, params, a, b, x0, y0, x1, y1, n):
    t = tot_count(kind, params, x0, y0, x1 - x0, y1 - y0, n, a)
    c = col_count(kind, params, x0, y0, x1 - x0, y1 - y0, n, a, b)
    return 0 <= a and a < n and 0 <= t and t <= a * n and 0 <= c and c <= b


def _kind_params(B, kind):
    if kind == 'circle':
        return (B.real('r'),)
    if kind == 'polygon':
        m = B.int('m')
        B.assume(m >= 1)
        return (B.array('vx', (m,)), B.array('vy', (m,)))
    return (B.real('p0'), B.real('p1'), B.real('c'), B.real('s'))


def _frac_in_unit(t, m):
    return (not (m >= 1 and 0 <= t and t <= m * m)) or (0 <= t / (m * m) and t / (m * m) <= 1)


@contract('contracts/k_kernels.py::ghost_far_pixel', props=['C02'])
class lemma_sampled_fraction_lies_in_the_unit_interval:
    cases = {k: {'kind': k} for k in ('circle', 'ellipse', 'rectangle', 'polygon')}

    def setup(B, kind='circle'):
        return dict(kind=kind, params=_kind_params(B, kind), x0=B.real('x0'), y0=B.real('y0'), x1=B.real('x1'), y1=B.real('y1'), n=B.int('n'))
    pre = lambda n: n >= 1
    loops = {
        'ghost_far_pixel#0': lambda a, kind, params, x0, y0, x1, y1, n: _bounds_outer(kind, params, a, x0, y0, x1, y1, n),
        'ghost_far_pixel#1': lambda b, a, kind, params, x0, y0, x1, y1, n: _bounds_inner(kind, params, a, b, x0, y0, x1, y1, n),
    }

    def _post(kind, params, x0, y0, x1, y1, n, result):
        from vprim import general
        general('quotient_in_unit_interval', _frac_in_unit, result, n)
        f = sampled_fraction(kind, params, x0, y0, x1 - x0, y1 - y0, n)
        return 0 <= result and result <= n * n and 0 <= f and f <= 1
    post = {'in_unit_interval': _post}


def _single(kind, params, x0, y0, x1, y1):
    from spec.masks import sample_inside
    from vprim import ite
    f = sampled_fraction(kind, params, x0, y0, x1 - x0, y1 - y0, 1)
    return f == ite(sample_inside(kind, params, x0, y0, x1 - x0, y1 - y0, 1, 0, 0), 1, 0)


@contract('contracts/k_kernels.py::_single', props=['C02'])
class lemma_one_sample_gives_zero_or_one:
    """centre mode (one sample per pixel): the value is the membership of the pixel centre"""
    cases = {k: {'kind': k} for k in ('circle', 'ellipse', 'rectangle', 'polygon')}

    def setup(B, kind='circle'):
        return dict(kind=kind, params=_kind_params(B, kind), x0=B.real('x0'), y0=B.real('y0'), x1=B.real('x1'), y1=B.real('y1'))
    post = {'membership_of_the_pixel_centre': lambda result: result}


# ---------------------------------------------------------------------------------------------------------------------------
# translation invariance of the even-odd rule and of the sampled fraction of a polygon (used by C15: shifting a polygon by whole
# pixels leaves its mask unchanged).  Both by induction (ghost loops); the relation "w is v shifted by (k, l)" is a universally
# quantified precondition, checked where the lemma is applied at an arbitrary index.
def shifted(vx, vy, wx, wy, k, l, E):
    """at the (arbitrary) index E the arrays w are the arrays v shifted by (k, l), and they have the same length"""
    return len(wx) == len(vx) and len(wy) == len(vy) and ((not (0 <= E and E < len(vx))) or (wx[E] == vx[E] + k and wy[E] == vy[E] + l))


def ghost_point_vs_shifted_polygon(vx, vy, wx, wy, x, y, k, l):
    n = len(vx)
    for e in range(n):
        pass
    return (odd_crossings(vx, vy, x, y, n), odd_crossings(wx, wy, x + k, y + l, n))


@contract('contracts/k_kernels.py::ghost_point_vs_shifted_polygon', props=['C15'])
class lemma_translation_keeps_the_crossing_parity:
    def setup(B):
        n = B.int('n')
        B.assume(n >= 1)
        vx, vy, k, l = B.array('vx', (n,)), B.array('vy', (n,)), B.real('k'), B.real('l')
        return dict(vx=vx, vy=vy, wx=vx + k, wy=vy + l, x=B.real('x'), y=B.real('y'), k=k, l=l)
    loops = {'ghost_point_vs_shifted_polygon#0': lambda e, vx, vy, wx, wy, x, y, k, l:
             odd_crossings(vx, vy, x, y, e) == odd_crossings(wx, wy, x + k, y + l, e)}
    post = {'same_parity': lambda result: result[0] == result[1],
            'same_membership': lambda vx, vy, wx, wy, x, y, k, l: crossings_odd(vx, vy, x, y) == crossings_odd(wx, wy, x + k, y + l)}


def apply_point_translation(vx, vy, wx, wy, x, y, k, l):
    """modular use of lemma_translation_keeps_the_crossing_parity: its precondition (w is v shifted by (k, l), for every index) is an
    obligation here, checked at an arbitrary index; then its conclusion may be used"""
    from vprim import fact, oblige, fresh_int, use_lemma
    oblige('precondition of lemma_translation_keeps_the_crossing_parity (arbitrary index)', shifted(vx, vy, wx, wy, k, l, fresh_int('E')))
    use_lemma('lemma_translation_keeps_the_crossing_parity')
    fact(crossings_odd(vx, vy, x, y) == crossings_odd(wx, wy, x + k, y + l))


def apply_pixel_translation(vx, vy, wx, wy, x0, y0, x1, y1, n, k, l):
    """modular use of lemma_translation_keeps_the_sampled_fraction"""
    from vprim import fact, oblige, fresh_int, use_lemma, implies
    oblige('precondition of lemma_translation_keeps_the_sampled_fraction (arbitrary index)', shifted(vx, vy, wx, wy, k, l, fresh_int('E')))
    use_lemma('lemma_translation_keeps_the_sampled_fraction')
    fact(implies(n >= 1, tot_count('polygon', (vx, vy), x0, y0, x1 - x0, y1 - y0, n, n)
                 == tot_count('polygon', (wx, wy), x0 + k, y0 + l, x1 - x0, y1 - y0, n, n)))


def ghost_pixel_vs_shifted_polygon(vx, vy, wx, wy, x0, y0, x1, y1, n, k, l):
    for a in range(n):
        for b in range(n):
            pass
    return (tot_count('polygon', (vx, vy), x0, y0, x1 - x0, y1 - y0, n, n), tot_count('polygon', (wx, wy), x0 + k, y0 + l, x1 - x0, y1 - y0, n, n))


def _shift_outer(a, vx, vy, wx, wy, x0, y0, x1, y1, n, k, l):
    return (tot_count('polygon', (vx, vy), x0, y0, x1 - x0, y1 - y0, n, a) == tot_count('polygon', (wx, wy), x0 + k, y0 + l, x1 - x0, y1 - y0, n, a))


def _shift_inner(b, a, vx, vy, wx, wy, x0, y0, x1, y1, n, k, l):
    from vprim import fact, use_lemma
    from spec.masks import sample_point
    if not (isinstance(b, int) and b == 0):
        p = sample_point(x0, y0, x1 - x0, y1 - y0, n, a, b - 1)
        apply_point_translation(vx, vy, wx, wy, p[0], p[1], k, l)
    return (0 <= a and a < n and _shift_outer(a, vx, vy, wx, wy, x0, y0, x1, y1, n, k, l)
            and col_count('polygon', (vx, vy), x0, y0, x1 - x0, y1 - y0, n, a, b) == col_count('polygon', (wx, wy), x0 + k, y0 + l, x1 - x0, y1 - y0, n, a, b))


@contract('contracts/k_kernels.py::ghost_pixel_vs_shifted_polygon', props=['C15'])
class lemma_translation_keeps_the_sampled_fraction:
    def setup(B):
        m = B.int('m')
        B.assume(m >= 1)
        vx, vy, k, l = B.array('vx', (m,)), B.array('vy', (m,)), B.real('k'), B.real('l')
        return dict(vx=vx, vy=vy, wx=vx + k, wy=vy + l, x0=B.real('x0'), y0=B.real('y0'), x1=B.real('x1'), y1=B.real('y1'), n=B.int('n'), k=k, l=l)
    pre = lambda n: n >= 1
    loops = {
        'ghost_pixel_vs_shifted_polygon#0': lambda a, vx, vy, wx, wy, x0, y0, x1, y1, n, k, l: _shift_outer(a, vx, vy, wx, wy, x0, y0, x1, y1, n, k, l),
        'ghost_pixel_vs_shifted_polygon#1': lambda b, a, vx, vy, wx, wy, x0, y0, x1, y1, n, k, l: _shift_inner(b, a, vx, vy, wx, wy, x0, y0, x1, y1, n, k, l),
    }
    post = {'same_count': lambda result: result[0] == result[1]}
