"""The compiled kernels, verified from their .pyx text (the Python subset is extracted mechanically on every run, pyvc/pyx.py,
and the report of what the extraction dropped goes into the evidence): loops carry inductive invariants (`loops`), so the
obligations hold for every number of vertices / sub-samples / pixels.  What remains assumed is listed in contracts/index.py
(A-CYTHON: compilation preserves the meaning of the extracted subset; C doubles as reals, C ints as integers)."""
from pyvc.api import contract
from spec.polygon import crossings, crossings_odd

PNPOLY = 'regions/_geometry/pnpoly.pyx::'


@contract(PNPOLY + 'point_in_polygon', props=['C01', 'C02'])
class kernel_point_in_polygon:
    """the even-odd rule: 1 iff an odd number of edges cross the rightward ray from the point"""
    def setup(B):
        n = B.int('n')
        return dict(x=B.real('x'), y=B.real('y'), vx=B.array('vx', (n,)), vy=B.array('vy', (n,)))
    loops = {'point_in_polygon#0': lambda i, result, x, y, vx, vy: result == crossings(vx, vy, x, y, i)}
    post = {
        'even_odd_rule': lambda x, y, vx, vy, result: (result == 1) == crossings_odd(vx, vy, x, y),
        'zero_or_one': lambda result: result == 0 or result == 1,
    }


@contract(PNPOLY + 'points_in_polygon', props=['C01'])
class kernel_points_in_polygon:
    """element k of the result answers for point k; the result has one entry per point"""
    def setup(B):
        n, m = B.int('n'), B.int('m')
        return dict(x=B.array('x', (m,)), y=B.array('y', (m,)), vx=B.array('vx', (n,)), vy=B.array('vy', (n,)))
    forall = {'K': 'int'}
    loops = {
        'points_in_polygon#0': lambda i, result, x, y, vx, vy, K: (not (0 <= K and K < i)) or ((result[K] == 1) == crossings_odd(vx, vy, x[K], y[K])),
        'point_in_polygon#0': lambda i, result, x, y, vx, vy: result == crossings(vx, vy, x, y, i),
    }
    post = {
        'one_answer_per_point': lambda x, result: len(result) == len(x),
        'pointwise': lambda x, y, vx, vy, result, K: (not (0 <= K and K < len(x))) or ((result[K] == 1) == crossings_odd(vx, vy, x[K], y[K])),
    }


# ---------------------------------------------------------------------------------------------------------------------------
# sub-pixel sampling: every *_overlap_single_subpixel returns the fraction of the n x n regularly spaced sample centres that are
# members of the shape (the definition behind FRAC for use_exact = 0; spec/masks.py::sampled_fraction)
from spec.masks import col_count, tot_count, sampled_fraction
from vprim import cos, sin

RECT = 'regions/_geometry/rectangular_overlap.pyx::'
ELL = 'regions/_geometry/elliptical_overlap.pyx::'
CIRC = 'regions/_geometry/circular_overlap.pyx::'
POLY = 'regions/_geometry/polygonal_overlap.pyx::'


def _outer(kind, params, i, frac, x, x0, y0, x1, y1, dx, dy, subpixels):
    return x == x0 - 0.5 * dx + i * dx and frac == tot_count(kind, params, x0, y0, x1 - x0, y1 - y0, subpixels, i)


def _sq_quot(u, r):
    return r == 0 or (u / r) * (u / r) == u * u * (1 / (r * r))


def _inner(kind, params, i, j, frac, x, y, x0, y0, x1, y1, dx, dy, subpixels):
    from vprim import lemma
    from spec.masks import sample_point
    # proof steps: the running coordinates are the sample centres of the definition (products of the counters with the step)
    if not (isinstance(j, int) and j == 0):
        p = sample_point(x0, y0, x1 - x0, y1 - y0, subpixels, i, j - 1)
        lemma('x_is_the_sample_abscissa', (not (j >= 1)) or (not (x == x0 - 0.5 * dx + (i + 1) * dx)) or x == p[0])
        lemma('y_is_the_sample_ordinate', (not (j >= 1)) or (not (y == y0 - 0.5 * dy + j * dy)) or y == p[1])
        if kind == 'ellipse':
            # the kernel multiplies by precomputed 1/r^2, the definition divides by r: equal for every real (general lemma),
            # then the two membership tests are the same test, step by step
            from vprim import general
            from spec.geometry import to_shape_frame, sq
            from spec.masks import sample_inside
            rx, ry, c, s = params
            us, vs = to_shape_frame(0.0, 0.0, c, s, p[0], p[1])
            xt, yt = y * s + x * c, y * c - x * s
            general('square_of_quotient', _sq_quot, us, rx)
            general('square_of_quotient', _sq_quot, vs, ry)
            here = j >= 1 and x == x0 - 0.5 * dx + (i + 1) * dx and y == y0 - 0.5 * dy + j * dy      # the state the invariant describes
            lemma('rotated_abscissa', (not here) or xt == us)
            lemma('rotated_ordinate', (not here) or yt == vs)
            lemma('x_term', (not here) or sq(us / (2 * rx / 2)) == xt * xt * (1 / (rx * rx)))
            lemma('y_term', (not here) or sq(vs / (2 * ry / 2)) == yt * yt * (1 / (ry * ry)))
            lemma('same_test', (not here) or
                  (xt * xt * (1 / (rx * rx)) + yt * yt * (1 / (ry * ry)) < 1) == sample_inside(kind, params, x0, y0, x1 - x0, y1 - y0, subpixels, i, j - 1))
    return (y == y0 - 0.5 * dy + j * dy and x == x0 - 0.5 * dx + (i + 1) * dx and 0 <= i and i < subpixels
            and frac == tot_count(kind, params, x0, y0, x1 - x0, y1 - y0, subpixels, i) + col_count(kind, params, x0, y0, x1 - x0, y1 - y0, subpixels, i, j))


@contract(RECT + 'rectangular_overlap_single_subpixel', props=['C02'])
class kernel_rectangle_subpixel:
    def setup(B):
        return dict(x0=B.real('x0'), y0=B.real('y0'), x1=B.real('x1'), y1=B.real('y1'), width=B.real('w'), height=B.real('h'),
                    theta=B.real('theta'), subpixels=B.int('n'))
    pre = lambda subpixels: subpixels >= 1
    loops = {
        'rectangular_overlap_single_subpixel#0': lambda i, frac, x, x0, y0, x1, y1, dx, dy, subpixels, width, height, theta:
            _outer('rectangle', (width, height, cos(theta), sin(theta)), i, frac, x, x0, y0, x1, y1, dx, dy, subpixels),
        'rectangular_overlap_single_subpixel#1': lambda j, i, frac, x, y, x0, y0, x1, y1, dx, dy, subpixels, width, height, theta:
            _inner('rectangle', (width, height, cos(theta), sin(theta)), i, j, frac, x, y, x0, y0, x1, y1, dx, dy, subpixels),
    }
    post = {'sampled_fraction': lambda x0, y0, x1, y1, width, height, theta, subpixels, result:
            result == sampled_fraction('rectangle', (width, height, cos(theta), sin(theta)), x0, y0, x1 - x0, y1 - y0, subpixels)}


@contract(ELL + 'elliptical_overlap_single_subpixel', props=['C02'])
class kernel_ellipse_subpixel:
    def setup(B):
        return dict(x0=B.real('x0'), y0=B.real('y0'), x1=B.real('x1'), y1=B.real('y1'), rx=B.real('rx'), ry=B.real('ry'),
                    theta=B.real('theta'), subpixels=B.int('n'))
    pre = lambda subpixels, rx, ry: subpixels >= 1 and rx > 0 and ry > 0
    loops = {
        'elliptical_overlap_single_subpixel#0': lambda i, frac, x, x0, y0, x1, y1, dx, dy, subpixels, rx, ry, theta:
            _outer('ellipse', (rx, ry, cos(theta), sin(theta)), i, frac, x, x0, y0, x1, y1, dx, dy, subpixels),
        'elliptical_overlap_single_subpixel#1': lambda j, i, frac, x, y, x0, y0, x1, y1, dx, dy, subpixels, rx, ry, theta:
            _inner('ellipse', (rx, ry, cos(theta), sin(theta)), i, j, frac, x, y, x0, y0, x1, y1, dx, dy, subpixels),
    }
    post = {'sampled_fraction': lambda x0, y0, x1, y1, rx, ry, theta, subpixels, result:
            result == sampled_fraction('ellipse', (rx, ry, cos(theta), sin(theta)), x0, y0, x1 - x0, y1 - y0, subpixels)}


@contract(CIRC + 'circular_overlap_single_subpixel', props=['C02'])
class kernel_circle_subpixel:
    def setup(B):
        return dict(x0=B.real('x0'), y0=B.real('y0'), x1=B.real('x1'), y1=B.real('y1'), r=B.real('r'), subpixels=B.int('n'))
    pre = lambda subpixels, r: subpixels >= 1 and r > 0
    loops = {
        'circular_overlap_single_subpixel#0': lambda i, frac, x, x0, y0, x1, y1, dx, dy, subpixels, r:
            _outer('circle', (r,), i, frac, x, x0, y0, x1, y1, dx, dy, subpixels),
        'circular_overlap_single_subpixel#1': lambda j, i, frac, x, y, x0, y0, x1, y1, dx, dy, subpixels, r:
            _inner('circle', (r,), i, j, frac, x, y, x0, y0, x1, y1, dx, dy, subpixels),
    }
    post = {'sampled_fraction': lambda x0, y0, x1, y1, r, subpixels, result:
            result == sampled_fraction('circle', (r,), x0, y0, x1 - x0, y1 - y0, subpixels)}


@contract(POLY + 'polygonal_overlap_single_subpixel', props=['C02'])
class kernel_polygon_subpixel:
    """uses point_in_polygon, verified above against the even-odd rule (its loop carries its own invariant)"""
    def setup(B):
        m = B.int('m')
        return dict(x0=B.real('x0'), y0=B.real('y0'), x1=B.real('x1'), y1=B.real('y1'), vx=B.array('vx', (m,)), vy=B.array('vy', (m,)),
                    subpixels=B.int('n'))
    pre = lambda subpixels: subpixels >= 1
    loops = {
        'polygonal_overlap_single_subpixel#0': lambda i, frac, x, x0, y0, x1, y1, dx, dy, subpixels, vx, vy:
            _outer('polygon', (vx, vy), i, frac, x, x0, y0, x1, y1, dx, dy, subpixels),
        'polygonal_overlap_single_subpixel#1': lambda j, i, frac, x, y, x0, y0, x1, y1, dx, dy, subpixels, vx, vy:
            _inner('polygon', (vx, vy), i, j, frac, x, y, x0, y0, x1, y1, dx, dy, subpixels),
        'point_in_polygon#0': lambda i, result, x, y, vx, vy: result == crossings(vx, vy, x, y, i),
    }
    post = {'sampled_fraction': lambda x0, y0, x1, y1, vx, vy, subpixels, result:
            result == sampled_fraction('polygon', (vx, vy), x0, y0, x1 - x0, y1 - y0, subpixels)}


# ---------------------------------------------------------------------------------------------------------------------------
# the grid functions: element [J, I] of the result is the per-pixel value of pixel (I, J) of the grid.  The per-pixel function is
# used through its contract (modular: it is verified above), by stubbing it with the function it was proved to compute.
from vprim import stub


def _pixel(xmin, xmax, ymin, ymax, nx, ny, I, J):
    """(x0, y0, x1, y1) of grid pixel (I, J) as the kernels compute them"""
    dx = (xmax - xmin) / nx
    dy = (ymax - ymin) / ny
    x0 = xmin + I * dx
    y0 = ymin + J * dy
    return x0, y0, x0 + dx, y0 + dy


def _frac_of(kind, params, px, n):
    return sampled_fraction(kind, params, px[0], px[1], px[2] - px[0], px[3] - px[1], n)


def _grid_inner(kind, params, i, j, frac, xmin, xmax, ymin, ymax, nx, ny, n, I, J, value):
    """columns before i are complete, column i is complete below row j (for the arbitrary but fixed pixel (I, J))"""
    return (not (0 <= I and 0 <= J and J < ny and (I < i or (I == i and J < j)) and I < nx)) or frac[J, I] == value


@contract(RECT + 'rectangular_overlap_grid', props=['C02'])
class kernel_rectangle_grid:
    def setup(B):
        stub(RECT + 'rectangular_overlap_single_subpixel',
             lambda x0, y0, x1, y1, width, height, theta, subpixels:
             sampled_fraction('rectangle', (width, height, cos(theta), sin(theta)), x0, y0, x1 - x0, y1 - y0, subpixels))
        return dict(xmin=B.real('xmin'), xmax=B.real('xmax'), ymin=B.real('ymin'), ymax=B.real('ymax'), nx=B.int('nx'), ny=B.int('ny'),
                    width=B.real('w'), height=B.real('h'), theta=B.real('theta'), use_exact=0, subpixels=B.int('n'))
    pre = lambda nx, ny, subpixels: nx >= 1 and ny >= 1 and subpixels >= 1
    forall = {'I': 'int', 'J': 'int'}
    loops = {
        'rectangular_overlap_grid#0': lambda i, frac, xmin, xmax, ymin, ymax, nx, ny, width, height, theta, subpixels, I, J:
            _grid_inner('rectangle', None, i, 0, frac, xmin, xmax, ymin, ymax, nx, ny, subpixels, I, J,
                        _frac_of('rectangle', (width, height, cos(theta), sin(theta)), _pixel(xmin, xmax, ymin, ymax, nx, ny, I, J), subpixels)),
        'rectangular_overlap_grid#1': lambda j, i, frac, xmin, xmax, ymin, ymax, nx, ny, width, height, theta, subpixels, I, J:
            0 <= i and i < nx and
            _grid_inner('rectangle', None, i, j, frac, xmin, xmax, ymin, ymax, nx, ny, subpixels, I, J,
                        _frac_of('rectangle', (width, height, cos(theta), sin(theta)), _pixel(xmin, xmax, ymin, ymax, nx, ny, I, J), subpixels)),
    }
    post = {
        'shape': lambda nx, ny, result: result.shape == (ny, nx),
        'every_pixel': lambda xmin, xmax, ymin, ymax, nx, ny, width, height, theta, subpixels, result, I, J:
            (not (0 <= I and I < nx and 0 <= J and J < ny)) or
            result[J, I] == _frac_of('rectangle', (width, height, cos(theta), sin(theta)), _pixel(xmin, xmax, ymin, ymax, nx, ny, I, J), subpixels),
    }


@contract(RECT + 'rectangular_overlap_grid', props=['C02'])
class kernel_rectangle_grid_exact_is_refused:
    def setup(B):
        return dict(xmin=B.real('xmin'), xmax=B.real('xmax'), ymin=B.real('ymin'), ymax=B.real('ymax'), nx=B.int('nx'), ny=B.int('ny'),
                    width=B.real('w'), height=B.real('h'), theta=B.real('theta'), use_exact=1, subpixels=B.int('n'))
    pre = lambda nx, ny: nx >= 0 and ny >= 0
    raises = {'NotImplementedError': lambda: True}


# ---- grids with a bounding-window short-cut (ellipse, polygon, circle): what the dispatch computes for every pixel is proved here;
# that a pixel the short-cut leaves at 0 (or sets to 1) has that sampled fraction is a geometric lemma about the shape, not about
# the code, and is listed as an assumption (A-KERNEL-WINDOW in contracts/index.py)
def _window(px, dx, dy, bx, by):
    """the kernels' own test that pixel px = (x0, y0, x1, y1) meets the padded bounding window [-bx, bx] x [-by, by] (or the given box)"""
    return px[2] > bx[0] and px[0] < bx[1] and px[3] > by[0] and px[1] < by[1]


def _state(I, J, i, j, nx, ny, frac, value):
    """pixel (I, J) holds its final value once visited (columns before i, rows before j in column i) and 0 before that"""
    inr = 0 <= I and I < nx and 0 <= J and J < ny
    done = I < i or (I == i and J < j)
    return (not inr) or ((not done) or frac[J, I] == value) and (done or frac[J, I] == 0)


def _ellipse_value(xmin, xmax, ymin, ymax, nx, ny, rx, ry, theta, use_exact, n, I, J):
    from vprim import uf
    px = _pixel(xmin, xmax, ymin, ymax, nx, ny, I, J)
    dx = (xmax - xmin) / nx
    dy = (ymax - ymin) / ny
    r = max(rx, ry)
    inw = _window(px, dx, dy, (-r - 0.5 * dx, r + 0.5 * dx), (-r - 0.5 * dy, r + 0.5 * dy))
    if use_exact:
        v = uf('exact_area_ellipse', 'real', px[0], px[1], px[2], px[3], rx, ry, theta) * (1. / (dx * dy))
    else:
        v = _frac_of('ellipse', (rx, ry, cos(theta), sin(theta)), px, n)
    return v if inw else 0.0


@contract(ELL + 'elliptical_overlap_grid', props=['C02'])
class kernel_ellipse_grid:
    cases = {'subpixels': {'use_exact': 0}, 'exact': {'use_exact': 1}}

    def setup(B, use_exact=0):
        from vprim import uf
        stub(ELL + 'elliptical_overlap_single_subpixel',
             lambda x0, y0, x1, y1, rx, ry, theta, subpixels:
             sampled_fraction('ellipse', (rx, ry, cos(theta), sin(theta)), x0, y0, x1 - x0, y1 - y0, subpixels))
        stub(ELL + 'elliptical_overlap_single_exact',
             lambda xmin, ymin, xmax, ymax, rx, ry, theta: uf('exact_area_ellipse', 'real', xmin, ymin, xmax, ymax, rx, ry, theta))
        return dict(xmin=B.real('xmin'), xmax=B.real('xmax'), ymin=B.real('ymin'), ymax=B.real('ymax'), nx=B.int('nx'), ny=B.int('ny'),
                    rx=B.real('rx'), ry=B.real('ry'), theta=B.real('theta'), use_exact=use_exact, subpixels=B.int('n'))
    pre = lambda nx, ny, subpixels, rx, ry, xmin, xmax, ymin, ymax: nx >= 1 and ny >= 1 and subpixels >= 1 and rx > 0 and ry > 0 and xmax > xmin and ymax > ymin
    forall = {'I': 'int', 'J': 'int'}
    loops = {
        'elliptical_overlap_grid#0': lambda i, frac, xmin, xmax, ymin, ymax, nx, ny, rx, ry, theta, use_exact, subpixels, I, J:
            _state(I, J, i, 0, nx, ny, frac, _ellipse_value(xmin, xmax, ymin, ymax, nx, ny, rx, ry, theta, use_exact, subpixels, I, J)),
        'elliptical_overlap_grid#1': lambda j, i, frac, xmin, xmax, ymin, ymax, nx, ny, rx, ry, theta, use_exact, subpixels, I, J:
            0 <= i and i < nx and
            _state(I, J, i, j, nx, ny, frac, _ellipse_value(xmin, xmax, ymin, ymax, nx, ny, rx, ry, theta, use_exact, subpixels, I, J)),
    }
    post = {
        'shape': lambda nx, ny, result: result.shape == (ny, nx),
        'every_pixel': lambda xmin, xmax, ymin, ymax, nx, ny, rx, ry, theta, use_exact, subpixels, result, I, J:
            (not (0 <= I and I < nx and 0 <= J and J < ny)) or
            result[J, I] == _ellipse_value(xmin, xmax, ymin, ymax, nx, ny, rx, ry, theta, use_exact, subpixels, I, J),
    }
