"""C15: rotation gives the same class/meta, same area, rotated membership; rotating back restores the parameters; the original
is untouched; translation by whole pixels translates the box and leaves the mask array unchanged in every mode"""
from pyvc.api import contract
from contracts.common import (PIXCOORD, CIRCLE, ELLIPSE, RECTANGLE, POLYGON, POINT, LINE, TEXT, CIRCLE_ANN, ELLIPSE_ANN,
                              RECT_ANN, COMPOUND, UNITS, INCS, QUERIES, pix, circle, circle_ok, ellipse, ellipse_ok,
                              rectangle, point, text, line, polygon, polygon_ok, circle_annulus, circle_annulus_ok,
                              asym_annulus, asym_annulus_ok, anyregion, compound, query, meta_ok, mk_meta, mk_visual)
from spec.geometry import cs, sq
from spec.arrays import elem, idx_ok, same_shape
from spec.boxes import same_box
from vprim import implies, is_array

UQ = {u + '-' + q: {'unit': u, 'q': q} for u in UNITS for q in ('scalar', 'arr1')}
UU = {u: {'unit': u} for u in UNITS}


def rot(cx, cy, c, s, x, y):
    """(x, y) rotated anti-clockwise about (cx, cy) by the angle with cosine c and sine s"""
    return (cx + c * (x - cx) - s * (y - cy), cy + s * (x - cx) + c * (y - cy))


@contract(PIXCOORD + '.rotate', props=['C15', 'C20'])
class pixcoord_rotate:
    cases = UQ

    def setup(B, unit='deg', q='scalar'):
        return dict(self=query(B, q), center=pix(B, 'c'), angle=B.quantity('theta', unit))
    forall = {'k': 'int', 'l': 'int'}
    post = {
        'is_rotation_about_center': lambda self, center, angle, result, k, l: implies(
            idx_ok(self.x, k, l),
            elem(result.x, k, l) == rot(center.x, center.y, cs(angle)[0], cs(angle)[1], elem(self.x, k, l), elem(self.y, k, l))[0]
            and elem(result.y, k, l) == rot(center.x, center.y, cs(angle)[0], cs(angle)[1], elem(self.x, k, l), elem(self.y, k, l))[1]),
        'same_shape': lambda self, result: same_shape(result.x, self.x) and same_shape(result.y, self.y),
        'is_pixcoord': lambda self, result: result.__class__ is self.__class__,
        # "the rotated coordinates (which is an independent copy)": also for a null rotation
        'is_a_new_object': lambda self, result: result is not self and (result.x is not self.x or not is_array(self.x)),
    }


def meta_equal_fresh(a, b):
    return dict(a.meta) == dict(b.meta) and dict(a.visual) == dict(b.visual) and a.meta is not b.meta and a.visual is not b.visual


def rotated_center(self, center, angle, result):
    p = rot(center.x, center.y, cs(angle)[0], cs(angle)[1], self.center.x, self.center.y)
    return result.center.x == p[0] and result.center.y == p[1]


def same_angle(a, b):
    return a.to_value('rad') == b.to_value('rad')


ROT_SETUP_NOTE = 'rotation centre and angle are arbitrary; the region angle and the rotation angle may be in different units'


@contract(CIRCLE + '.rotate', props=['C15', 'C13'])
class circle_rotate:
    cases = {i + '-' + u: {'inc': i, 'unit': u} for i in INCS for u in UNITS}

    def setup(B, inc='absent', unit='deg'):
        return dict(self=circle(B, 'r', inc), center=pix(B, 'c'), angle=B.quantity('theta', unit), p=pix(B, 'p'))
    pre = lambda self: circle_ok(self)
    post = {
        'same_class': lambda self, result: result.__class__ is self.__class__,
        'center_rotated': lambda self, center, angle, result: rotated_center(self, center, angle, result),
        'other_parameters_kept': lambda self, result: result.radius == self.radius,
        'meta_kept_fresh': lambda self, result: meta_equal_fresh(self, result),
        'area_kept': lambda self, result: result.area == self.area,
        'membership_follows': lambda self, center, angle, p, result:
            bool(result.contains(p.rotate(center, angle))) == bool(self.contains(p)),
        'rotate_back_restores': lambda self, center, angle, result:
            result.rotate(center, -angle).center.x == self.center.x and result.rotate(center, -angle).center.y == self.center.y
            and result.rotate(center, -angle).radius == self.radius,
    }


def whA_kept(self, angle, result):
    return result.width == self.width and result.height == self.height and \
        result.angle.to_value('rad') == self.angle.to_value('rad') + angle.to_value('rad')


def back(self, center, angle, result):
    b = result.rotate(center, -angle)
    return b.center.x == self.center.x and b.center.y == self.center.y and b.width == self.width and \
        b.height == self.height and same_angle(b.angle, self.angle)


@contract(ELLIPSE + '.rotate', props=['C15', 'C13'])
class ellipse_rotate:
    cases = {i + '-' + u + '-' + u2: {'inc': i, 'unit': u, 'unit2': u2} for i in ('absent', 'bool') for u in UNITS for u2 in UNITS}

    def setup(B, inc='absent', unit='deg', unit2='deg'):
        return dict(self=ellipse(B, 'r', inc, unit), center=pix(B, 'c'), angle=B.quantity('theta', unit2), p=pix(B, 'p'))
    pre = lambda self: ellipse_ok(self)
    post = {
        'same_class': lambda self, result: result.__class__ is self.__class__,
        'center_rotated': lambda self, center, angle, result: rotated_center(self, center, angle, result),
        'other_parameters_kept_angle_added': lambda self, angle, result: whA_kept(self, angle, result),
        'meta_kept_fresh': lambda self, result: meta_equal_fresh(self, result),
        'area_kept': lambda self, result: result.area == self.area,
        'membership_follows': lambda self, center, angle, p, result:
            bool(result.contains(p.rotate(center, angle))) == bool(self.contains(p)),
        'rotate_back_restores': lambda self, center, angle, result: back(self, center, angle, result),
    }


@contract(RECTANGLE + '.rotate', props=['C15', 'C13'])
class rectangle_rotate:
    cases = {i + '-' + u + '-' + u2: {'inc': i, 'unit': u, 'unit2': u2} for i in ('absent', 'bool') for u in UNITS for u2 in UNITS}

    def setup(B, inc='absent', unit='deg', unit2='deg'):
        return dict(self=rectangle(B, 'r', inc, unit), center=pix(B, 'c'), angle=B.quantity('theta', unit2), p=pix(B, 'p'))
    pre = lambda self: ellipse_ok(self)
    post = {
        'same_class': lambda self, result: result.__class__ is self.__class__,
        'center_rotated': lambda self, center, angle, result: rotated_center(self, center, angle, result),
        'other_parameters_kept_angle_added': lambda self, angle, result: whA_kept(self, angle, result),
        'meta_kept_fresh': lambda self, result: meta_equal_fresh(self, result),
        'area_kept': lambda self, result: result.area == self.area,
        'membership_follows': lambda self, center, angle, p, result:
            bool(result.contains(p.rotate(center, angle))) == bool(self.contains(p)),
        'rotate_back_restores': lambda self, center, angle, result: back(self, center, angle, result),
    }


@contract(POINT + '.rotate', props=['C15', 'C13'])
class point_rotate:
    cases = {'point': {'kind': 'point'}, 'text': {'kind': 'text'}}

    def setup(B, kind='point'):
        return dict(self=point(B, 'r', 'bool') if kind == 'point' else text(B, 'r', 'bool'), center=pix(B, 'c'),
                    angle=B.quantity('theta', 'deg'))
    post = {
        'same_class': lambda self, result: result.__class__ is self.__class__,
        'center_rotated': lambda self, center, angle, result: rotated_center(self, center, angle, result),
        'meta_kept_fresh': lambda self, result: meta_equal_fresh(self, result),
        'text_kept': lambda self, result: getattr(result, 'text', None) == getattr(self, 'text', None),
        'area_kept': lambda self, result: result.area == self.area,
    }


@contract(LINE + '.rotate', props=['C15', 'C13'])
class line_rotate:
    def setup(B):
        return dict(self=line(B, 'r', 'bool'), center=pix(B, 'c'), angle=B.quantity('theta', 'deg'))
    post = {
        'same_class': lambda self, result: result.__class__ is self.__class__,
        'ends_rotated': lambda self, center, angle, result:
            result.start.x == rot(center.x, center.y, cs(angle)[0], cs(angle)[1], self.start.x, self.start.y)[0]
            and result.start.y == rot(center.x, center.y, cs(angle)[0], cs(angle)[1], self.start.x, self.start.y)[1]
            and result.end.x == rot(center.x, center.y, cs(angle)[0], cs(angle)[1], self.end.x, self.end.y)[0]
            and result.end.y == rot(center.x, center.y, cs(angle)[0], cs(angle)[1], self.end.x, self.end.y)[1],
        'meta_kept_fresh': lambda self, result: meta_equal_fresh(self, result),
    }


@contract(POLYGON + '.rotate', props=['C15', 'C13'])
class polygon_rotate:
    def setup(B):
        return dict(self=polygon(B, 'r', 'bool'), center=pix(B, 'c'), angle=B.quantity('theta', 'deg'))
    pre = lambda self: polygon_ok(self)
    forall = {'k': 'int'}
    post = {
        'same_class': lambda self, result: result.__class__ is self.__class__,
        'vertices_rotated': lambda self, center, angle, result, k: (
            (not (0 <= k and k < len(self.vertices.x))) or
            result.vertices.x[k] == rot(center.x, center.y, cs(angle)[0], cs(angle)[1], self.vertices.x[k], self.vertices.y[k])[0]
            and result.vertices.y[k] == rot(center.x, center.y, cs(angle)[0], cs(angle)[1], self.vertices.x[k], self.vertices.y[k])[1]),
        'same_vertex_count': lambda self, result: len(result.vertices.x) == len(self.vertices.x),
        'meta_kept_fresh': lambda self, result: meta_equal_fresh(self, result),
    }


@contract(CIRCLE_ANN + '.rotate', props=['C15', 'C13', 'C08'])
class circle_annulus_rotate:
    def setup(B):
        return dict(self=circle_annulus(B, 'r', 'bool'), center=pix(B, 'c'), angle=B.quantity('theta', 'deg'), p=pix(B, 'p'))
    pre = lambda self: circle_annulus_ok(self)
    post = {
        'same_class': lambda self, result: result.__class__ is self.__class__,
        'center_rotated': lambda self, center, angle, result: rotated_center(self, center, angle, result),
        'other_parameters_kept': lambda self, result:
            result.inner_radius == self.inner_radius and result.outer_radius == self.outer_radius,
        'meta_kept_fresh': lambda self, result: meta_equal_fresh(self, result),
        'area_kept': lambda self, result: result.area == self.area,
        'membership_follows': lambda self, center, angle, p, result:
            bool(result.contains(p.rotate(center, angle))) == bool(self.contains(p)),
    }


def ann_kept(self, angle, result):
    return (result.inner_width == self.inner_width and result.outer_width == self.outer_width
            and result.inner_height == self.inner_height and result.outer_height == self.outer_height
            and result.angle.to_value('rad') == self.angle.to_value('rad') + angle.to_value('rad'))


@contract(ELLIPSE_ANN + '.rotate', props=['C15', 'C13', 'C08'])
class asym_annulus_rotate:
    cases = {'ellipse': {'kind': 'ellipse'}, 'rectangle': {'kind': 'rectangle'}}

    def setup(B, kind='ellipse'):
        return dict(self=asym_annulus(B, 'r', ELLIPSE_ANN if kind == 'ellipse' else RECT_ANN, 'bool', 'deg'), center=pix(B, 'c'),
                    angle=B.quantity('theta', 'rad'))
    pre = lambda self: asym_annulus_ok(self)
    call = lambda self, center, angle: self.rotate(center, angle)
    post = {
        'same_class': lambda self, result: result.__class__ is self.__class__,
        'center_rotated': lambda self, center, angle, result: rotated_center(self, center, angle, result),
        'other_parameters_kept_angle_added': lambda self, angle, result: ann_kept(self, angle, result),
        'meta_kept_fresh': lambda self, result: meta_equal_fresh(self, result),
        'area_kept': lambda self, result: result.area == self.area,
    }


# ---------------------------------------------------------------------------- translation by whole pixels
from contracts.common import mk_meta, mk_visual
from contracts.c02_masks import in_grid, sub_ok

TMODES = {k + '-' + m: {'kind': k, 'mode': m} for k in ('circle', 'ellipse', 'rectangle', 'polygon')
          for m in ('center', 'subpixels', 'exact') if not (m == 'exact' and k in ('rectangle', 'polygon'))}


def shifted_copy(B, kind, r, k, l):
    c2 = B.new(PIXCOORD, label='r2.center', x=r.center.x + k, y=r.center.y + l) if kind != 'polygon' else None
    m, v = mk_meta(B, 'r2.meta'), mk_visual(B, 'r2.visual')
    if kind == 'circle':
        return B.new(CIRCLE, label='r2', center=c2, radius=r.radius, meta=m, visual=v)
    if kind == 'ellipse':
        return B.new(ELLIPSE, label='r2', center=c2, width=r.width, height=r.height, angle=r.angle, meta=m, visual=v)
    if kind == 'rectangle':
        return B.new(RECTANGLE, label='r2', center=c2, width=r.width, height=r.height, angle=r.angle, meta=m, visual=v)
    verts = B.new(PIXCOORD, label='r2.vertices', x=r.vertices.x + k, y=r.vertices.y + l)
    return B.new(POLYGON, label='r2', vertices=verts, _vertices=verts, meta=m, visual=v)


def wf(kind, r):
    if kind == 'circle':
        return circle_ok(r)
    if kind == 'polygon':
        return polygon_ok(r)
    return ellipse_ok(r)


@contract(CIRCLE + '.to_mask', props=['C15'])
class translation_by_whole_pixels:
    cases = TMODES

    def setup(B, kind='circle', mode='center'):
        r = {'circle': circle, 'ellipse': ellipse, 'rectangle': rectangle, 'polygon': polygon}[kind](B, 'r')
        k, l = B.int('k'), B.int('l')
        return dict(self=r, other=shifted_copy(B, kind, r, k, l), k=k, l=l, mode=mode, subpixels=B.int('n'), kind=kind)
    pre = lambda self, kind, mode, subpixels: wf(kind, self) and sub_ok(mode, subpixels)
    call = lambda self, other, mode, subpixels: dict(b1=self.bounding_box, b2=other.bounding_box,
                                                     m1=self.to_mask(mode, subpixels), m2=other.to_mask(mode, subpixels))
    forall = {'i': 'int', 'j': 'int'}
    post = {
        'box_translated': lambda k, l, result:
            result['b2'].ixmin == result['b1'].ixmin + k and result['b2'].ixmax == result['b1'].ixmax + k
            and result['b2'].iymin == result['b1'].iymin + l and result['b2'].iymax == result['b1'].iymax + l,
        'mask_shape_unchanged': lambda result: result['m1'].data.shape == result['m2'].data.shape,
        # circle / ellipse / rectangle: the kernels receive coordinates relative to the centre, identical for both regions.
        # polygons: the kernel receives absolute vertices; equality of the values is the translation invariance of the sampled fraction,
        # a lemma proved by induction over samples and edges (contracts/k_kernels.py) and applied here
        'mask_values_unchanged': lambda self, other, k, l, subpixels, mode, kind, result, i, j:
            _polygon_values(self, other, k, l, subpixels, mode, result, i, j) if kind == 'polygon' else (
            (not in_grid(result['m1'], i, j)) or result['m1'].data[j, i] == result['m2'].data[j, i]),
    }


def _polygon_values(self, other, k, l, subpixels, mode, result, i, j):
    from vprim import uf_application_args, fact, implies
    from spec.masks import sampled_fraction
    from contracts.k_kernels import apply_pixel_translation
    if not in_grid(result['m1'], i, j):
        return True
    n = 1 if mode == 'center' else subpixels
    v1, v2 = result['m1'].data[j, i], result['m2'].data[j, i]
    a1, a2 = uf_application_args(v1, 'frac_polygon'), uf_application_args(v2, 'frac_polygon')
    if a1 is None or a2 is None:
        return v1 == v2          # not kernel values (a re-implementation): nothing to reveal, compare as they are
    # the vertex arrays are the ones the kernel was actually handed (its last two arguments), not the ones it ought to have been
    # handed: that they are translates of each other is then an obligation (precondition of the translation lemma), not a premise
    vx, vy, wx, wy = a1[6], a1[7], a2[6], a2[7]
    # the kernel contract, in its revealed form (FRAC is the sampled fraction: discharged from polygonal_overlap.pyx under C02)
    fact(v1 == sampled_fraction('polygon', (vx, vy), a1[0], a1[1], a1[2], a1[3], n))
    fact(v2 == sampled_fraction('polygon', (wx, wy), a2[0], a2[1], a2[2], a2[3], n))
    apply_pixel_translation(vx, vy, wx, wy, a1[0], a1[1], a1[0] + a1[2], a1[1] + a1[3], n, k, l)
    return v1 == v2


REGPOLY = 'regions/shapes/polygon.py::RegularPolygonPixelRegion'


@contract(REGPOLY + '.rotate', props=['C15', 'C13'])
class regular_polygon_rotate:
    """the centre moves on the circle about the rotation centre by the rotation angle alone; the polygon's own angle grows by it"""
    cases = {f'{n}-{u}': {'n': n, 'unit': u} for n in (3, 4, 6) for u in ('deg', 'rad')}

    def setup(B, n=3, unit='deg'):
        rad = B.real('r.radius')
        B.assume(rad > 0)
        r = B.construct(REGPOLY, 'r', pix(B, 'r.center'), n, rad, angle=B.quantity('r.angle', 'deg'),
                        meta=mk_meta(B, 'r.meta', 'bool'), visual=mk_visual(B, 'r.visual'))
        return dict(self=r, center=pix(B, 'c'), angle=B.quantity('theta', unit))
    pre = lambda self: self.radius > 0
    forall = {'k': 'int'}
    post = {
        'same_class': lambda self, result: result.__class__ is self.__class__,
        'center_rotated': lambda self, center, angle, result: rotated_center(self, center, angle, result),
        'own_angle_grows_by_the_rotation': lambda self, angle, result: result.angle.to_value('rad') == self.angle.to_value('rad') + angle.to_value('rad'),
        'other_parameters_kept': lambda self, result: result.radius == self.radius and result.nvertices == self.nvertices,
        'vertices_rotated': lambda self, center, angle, result, k: (
            (not (0 <= k and k < self.nvertices)) or
            result.vertices.x[k] == rot(center.x, center.y, cs(angle)[0], cs(angle)[1], self.vertices.x[k], self.vertices.y[k])[0]
            and result.vertices.y[k] == rot(center.x, center.y, cs(angle)[0], cs(angle)[1], self.vertices.x[k], self.vertices.y[k])[1]),
        'meta_kept_fresh': lambda self, result: meta_equal_fresh(self, result),
        'rotate_back_restores': lambda self, center, angle, result:
            result.rotate(center, -angle).center.x == self.center.x and result.rotate(center, -angle).center.y == self.center.y
            and result.rotate(center, -angle).angle.to_value('rad') == self.angle.to_value('rad'),
    }


def _concrete_polygon(B, n):
    """a polygon with a concrete number of free vertices (sums over the vertices are then finite expressions)"""
    import numpy as np
    vs = [(B.real('v%d.x' % i), B.real('v%d.y' % i)) for i in range(n)]
    verts = B.construct(PIXCOORD, 'verts', B.call(np.array, [v[0] for v in vs]), B.call(np.array, [v[1] for v in vs]))
    return B.construct(POLYGON, 'r', verts, meta=mk_meta(B, 'r.meta', 'bool'), visual=mk_visual(B, 'r.visual')), vs


def _shoelace(vs):
    n = len(vs)
    s = 0
    for i in range(n):
        j = (i + 1) % n
        s = s + vs[i][0] * vs[j][1] - vs[j][0] * vs[i][1]
    return s


@contract(POLYGON + '.area', props=['C15', 'C13'])
class polygon_area_and_its_invariance_under_rotation:
    """area = |shoelace sum| / 2 (3 to 5 free vertices), and the rotated polygon has the same area"""
    cases = {'n%d' % n: {'n': n} for n in (3, 4, 5)}

    def setup(B, n=3):
        r, vs = _concrete_polygon(B, n)
        return dict(self=r, vs=vs, center=pix(B, 'c'), angle=B.quantity('theta', 'deg'))
    call = lambda self, center, angle: (self.area, self.rotate(center, angle).area)
    post = {
        'shoelace': lambda vs, result: (result[0] == _shoelace(vs) / 2 or result[0] == -_shoelace(vs) / 2) and result[0] >= 0,
        'same_area_after_rotation': lambda result: result[0] == result[1],
    }


@contract(RECTANGLE + '.to_polygon', props=['C15', 'C13', 'C01'])
class rectangle_as_polygon_has_the_rotated_corners:
    """vertex m of the equivalent polygon is corner m of the rectangle: (+-w/2, +-h/2) turned anti-clockwise by the angle about the centre"""
    cases = UU

    def setup(B, unit='deg'):
        return dict(self=rectangle(B, 'r', 'bool', unit))
    pre = lambda self: self.width > 0 and self.height > 0
    post = {
        'is_polygon': lambda result: result.__class__.__name__ == 'PolygonPixelRegion' and len(result.vertices.x) == 4,
        'corners': lambda self, result: all(
            result.vertices.x[m] == rot(self.center.x, self.center.y, cs(self.angle)[0], cs(self.angle)[1], self.center.x + sx * self.width / 2, self.center.y + sy * self.height / 2)[0]
            and result.vertices.y[m] == rot(self.center.x, self.center.y, cs(self.angle)[0], cs(self.angle)[1], self.center.x + sx * self.width / 2, self.center.y + sy * self.height / 2)[1]
            for m, (sx, sy) in enumerate(((-1, -1), (1, -1), (1, 1), (-1, 1)))),
        'meta_visual_copied': lambda self, result: meta_equal_fresh(self, result),
    }
