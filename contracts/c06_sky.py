"""C06: pixel->sky->pixel and sky->pixel->sky return the same class, geometry and meta/visual (include flag included);
sky membership equals pixel membership of the converted positions.  The WCS is an arbitrary invertible function pair (A-WCS)."""
from pyvc.api import contract
from contracts.common import (PIXCOORD, META, VISUAL, CIRCLE, ELLIPSE, RECTANGLE, POLYGON, POINT, LINE, TEXT, CIRCLE_ANN,
                              ELLIPSE_ANN, RECT_ANN, COMPOUND, pix, operator_of)
from contracts.c16_values import region, wf, PARAMS, rich_meta, rich_visual
from contracts.c17_validation import sky
from vprim import implies

PIXEL_KINDS = ('circle', 'ellipse', 'rectangle', 'polygon', 'point', 'line', 'text', 'circle_annulus', 'ellipse_annulus',
               'rectangle_annulus', 'compound')
SKY_CLASS = {
    'circle': 'regions/shapes/circle.py::CircleSkyRegion', 'ellipse': 'regions/shapes/ellipse.py::EllipseSkyRegion',
    'rectangle': 'regions/shapes/rectangle.py::RectangleSkyRegion', 'polygon': 'regions/shapes/polygon.py::PolygonSkyRegion',
    'point': 'regions/shapes/point.py::PointSkyRegion', 'line': 'regions/shapes/line.py::LineSkyRegion',
    'text': 'regions/shapes/text.py::TextSkyRegion', 'circle_annulus': 'regions/shapes/annulus.py::CircleAnnulusSkyRegion',
    'ellipse_annulus': 'regions/shapes/annulus.py::EllipseAnnulusSkyRegion',
    'rectangle_annulus': 'regions/shapes/annulus.py::RectangleAnnulusSkyRegion',
    'compound': 'regions/core/compound.py::CompoundSkyRegion',
}
SIZES = ('radius', 'width', 'height', 'inner_radius', 'outer_radius', 'inner_width', 'outer_width', 'inner_height', 'outer_height')


def nondegenerate(B, wcs, x, y):
    """the WCS is locally non-degenerate at pixel (x, y): one arcsecond towards north is not a zero pixel step"""
    import astropy.units as u
    sc = wcs.pixel_to_world(x, y)
    off = sc.directional_offset_by(0.0, 1 * u.arcsec)
    x2, y2 = wcs.world_to_pixel(off)
    B.assume((x2 - x) * (x2 - x) + (y2 - y) * (y2 - y) > 0)


def nondegenerate_sky(B, wcs, sc):
    import astropy.units as u
    x, y = wcs.world_to_pixel(sc)
    off = sc.directional_offset_by(0.0, 1 * u.arcsec)
    x2, y2 = wcs.world_to_pixel(off)
    B.assume((x2 - x) * (x2 - x) + (y2 - y) * (y2 - y) > 0)


def same_pix(p, q):
    return p.x == q.x and p.y == q.y


def pixel_geometry_equal(kind, a, b, k):
    """parameter-wise equality of two pixel regions of one kind (k: any vertex index for polygons)"""
    from vprim import arr_at
    ok = a.__class__ is b.__class__
    for name in PARAMS[kind]:
        va, vb = getattr(a, name), getattr(b, name)
        if name in SIZES:
            ok = ok and va == vb
        elif name == 'angle':
            ok = ok and va.to_value('rad') == vb.to_value('rad')
        elif name in ('center', 'start', 'end'):
            ok = ok and same_pix(va, vb)
        elif name == 'vertices':
            ok = ok and len(va.x) == len(vb.x) and implies(0 <= k and k < len(va.x),
                                                          arr_at(va.x, k) == arr_at(vb.x, k) and arr_at(va.y, k) == arr_at(vb.y, k))
        elif name == 'text':
            ok = ok and va == vb
        elif name == 'operator':
            ok = ok and va is vb
        elif name in ('region1', 'region2'):
            ok = ok and va.__class__ is vb.__class__ and same_pix(va.center, vb.center) and va.radius == vb.radius \
                and dict(va.meta) == dict(vb.meta) and dict(va.visual) == dict(vb.visual)
    return ok


def without_rotation(d):
    return {k: v for k, v in dict(d).items() if k != 'rotation'}


def meta_carried(a, b, one_way=False):
    """meta/visual content is carried over in fresh objects; on a one-way conversion the text rotation is converted with the
    local north direction (it must still be present), so it is compared only after the round trip"""
    va, vb = (without_rotation(a.visual), without_rotation(b.visual)) if one_way else (dict(a.visual), dict(b.visual))
    return dict(a.meta) == dict(b.meta) and va == vb and ('rotation' in a.visual) == ('rotation' in b.visual) \
        and a.meta is not b.meta and a.visual is not b.visual


@contract('regions/core/core.py::PixelRegion.to_sky', props=['C06', 'C13'])
class pixel_sky_pixel_roundtrip:
    cases = {k: {'kind': k} for k in PIXEL_KINDS}

    def setup(B, kind='circle'):
        r = region(B, kind, 'r')
        wcs = B.wcs('w')
        if kind == 'compound':
            nondegenerate(B, wcs, r.region1.center.x, r.region1.center.y)
            nondegenerate(B, wcs, r.region2.center.x, r.region2.center.y)
        elif kind not in ('polygon', 'line'):
            nondegenerate(B, wcs, r.center.x, r.center.y)
        return dict(self=r, wcs=wcs, kind=kind, p=pix(B, 'p'))
    pre = lambda self, kind: wf(kind, self)
    call = lambda self, wcs: (self.to_sky(wcs), self.to_sky(wcs).to_pixel(wcs))
    forall = {'k': 'int'}
    post = {
        'sky_class': lambda kind, result: result[0].__class__.__name__ == SKY_CLASS[kind].split('::')[1],
        'geometry_returns': lambda self, kind, result, k: pixel_geometry_equal(kind, self, result[1], k),
        'meta_visual_carried_to_sky': lambda self, result: meta_carried(self, result[0], True),
        'meta_visual_carried_back': lambda self, result: meta_carried(self, result[1]),
        # annuli: implied by geometry_returns + C01 (membership is a function of the parameters); proved directly for the rest
        'membership_is_conversion_invariant': lambda self, wcs, kind, p, result: kind in ('polygon', 'circle_annulus', 'ellipse_annulus', 'rectangle_annulus') or (
            bool(result[0].contains(wcs.pixel_to_world(p.x, p.y), wcs)) == bool(self.contains(p))),
    }


def sky_region(B, kind, name, frame='icrs', simple=False):
    if simple:
        m, v = B.meta(META, name + '.meta', {'include': B.bool(name + '.include')}), B.meta(VISUAL, name + '.visual')
    else:
        m, v = rich_meta(B, name + '.meta'), rich_visual(B, name + '.visual')
    c = sky(B, name + '.center', frame)
    q = lambda nm: B.quantity(name + '.' + nm, 'arcsec')
    if kind == 'circle':
        return B.new(SKY_CLASS[kind], label=name, center=c, radius=q('radius'), meta=m, visual=v)
    if kind in ('ellipse', 'rectangle'):
        return B.new(SKY_CLASS[kind], label=name, center=c, width=q('width'), height=q('height'),
                     angle=B.quantity(name + '.angle', 'deg'), meta=m, visual=v)
    if kind == 'point':
        return B.new(SKY_CLASS[kind], label=name, center=c, meta=m, visual=v)
    if kind == 'text':
        v = B.meta(VISUAL, name + '.visual', {'dashes': B.list(name + '.visual.dashes', [1, 2]), 'linewidth': B.real(name + '.visual.lw')},
                   {'rotation': (B.bool(name + '.visual.has_rotation'), B.real(name + '.visual.rotation'))})
        return B.new(SKY_CLASS[kind], label=name, center=c, text='hello', meta=m, visual=v)
    if kind == 'line':
        return B.new(SKY_CLASS[kind], label=name, start=sky(B, name + '.start', frame), end=sky(B, name + '.end', frame), meta=m, visual=v)
    if kind == 'circle_annulus':
        return B.new(SKY_CLASS[kind], label=name, center=c, inner_radius=q('ri'), outer_radius=q('ro'), meta=m, visual=v)
    if kind in ('ellipse_annulus', 'rectangle_annulus'):
        return B.new(SKY_CLASS[kind], label=name, center=c, inner_width=q('iw'), outer_width=q('ow'), inner_height=q('ih'),
                     outer_height=q('oh'), angle=B.quantity(name + '.angle', 'deg'), meta=m, visual=v)
    raise ValueError(kind)


def sky_wf(kind, r):
    v = lambda nm: getattr(r, nm).to_value('rad')
    if kind == 'circle':
        return v('radius') > 0
    if kind in ('ellipse', 'rectangle'):
        return v('width') > 0 and v('height') > 0
    if kind == 'circle_annulus':
        return 0 < v('inner_radius') and v('inner_radius') < v('outer_radius')
    if kind in ('ellipse_annulus', 'rectangle_annulus'):
        return 0 < v('inner_width') and v('inner_width') < v('outer_width') and 0 < v('inner_height') and v('inner_height') < v('outer_height')
    return True


def same_sky(a, b):
    return a.frame.name == b.frame.name and a.lon.to_value('rad') == b.lon.to_value('rad') and a.lat.to_value('rad') == b.lat.to_value('rad')


def sky_geometry_equal(kind, a, b):
    ok = a.__class__ is b.__class__
    for name in PARAMS[kind]:
        va, vb = getattr(a, name), getattr(b, name)
        if name in SIZES or name == 'angle':
            ok = ok and va.to_value('rad') == vb.to_value('rad')
        elif name in ('center', 'start', 'end'):
            ok = ok and same_sky(va, vb)
        elif name == 'text':
            ok = ok and va == vb
    return ok


SKY_KINDS = ('circle', 'ellipse', 'rectangle', 'point', 'line', 'text', 'circle_annulus', 'ellipse_annulus', 'rectangle_annulus')


@contract('regions/core/core.py::SkyRegion.to_pixel', props=['C06', 'C13'])
class sky_pixel_sky_roundtrip:
    cases = {k + '-' + f: {'kind': k, 'frame': f} for k in SKY_KINDS for f in ('icrs', 'galactic')}

    def setup(B, kind='circle', frame='icrs'):
        r = sky_region(B, kind, 'r', frame)
        wcs = B.wcs('w', frame)
        if kind != 'line':
            nondegenerate_sky(B, wcs, r.center)
        return dict(self=r, wcs=wcs, kind=kind, sc=sky(B, 'q', frame))
    pre = lambda self, kind: sky_wf(kind, self)
    call = lambda self, wcs: (self.to_pixel(wcs), self.to_pixel(wcs).to_sky(wcs))
    post = {
        'geometry_returns': lambda self, kind, result: sky_geometry_equal(kind, self, result[1]),
        'meta_visual_carried_to_pixel': lambda self, result: meta_carried(self, result[0], True),
        'meta_visual_carried_back': lambda self, result: meta_carried(self, result[1]),
        'sky_membership_is_pixel_membership_of_converted_position': lambda self, wcs, sc, result:
            bool(self.contains(sc, wcs)) == bool(result[0].contains(pixcoord_of(wcs, sc))),
    }


def pixcoord_of(wcs, sc):
    from regions.core.pixcoord import PixCoord
    x, y = wcs.world_to_pixel(sc)
    return PixCoord(x, y)


COMPOUND_SKY = 'regions/core/compound.py::CompoundSkyRegion'


@contract(COMPOUND_SKY, props=['C06', 'C08', 'C16'])
class compound_sky_constructor_keeps_meta:
    cases = {'given': {'given': True}, 'default': {'given': False}, 'empty': {'given': 'empty'}}

    def setup(B, given=True):
        r1, r2 = sky_region(B, 'circle', 'r1'), sky_region(B, 'circle', 'r2')
        if given == 'empty':
            # an explicitly supplied empty meta / visual is a value like any other; only None means "take region1's"
            return dict(region1=r1, region2=r2, operator=operator_of('or_'), meta=B.meta(META, 'm'), visual=B.meta(VISUAL, 'v'), given=True)
        return dict(region1=r1, region2=r2, operator=operator_of('or_'),
                    meta=rich_meta(B, 'm') if given else None, visual=rich_visual(B, 'v') if given else None, given=given)
    post = {
        'meta_is_the_supplied_one_or_region1s': lambda region1, meta, visual, given, result:
            (dict(result.meta) == dict(meta) and dict(result.visual) == dict(visual)) if given
            else (dict(result.meta) == dict(region1.meta) and dict(result.visual) == dict(region1.visual)),
        'operands_and_operator_stored': lambda region1, region2, operator, result:
            result.region1 is region1 and result.region2 is region2 and result.operator is operator,
    }


@contract(COMPOUND_SKY + '.contains', props=['C06', 'C08'])
class compound_sky_contains:
    cases = {op: {'op': op} for op in ('and_', 'or_', 'xor')}

    def setup(B, op='and_'):
        r1, r2 = sky_region(B, 'circle', 'r1', simple=True), sky_region(B, 'ellipse', 'r2', simple=True)
        wcs = B.wcs('w')
        nondegenerate_sky(B, wcs, r1.center)
        nondegenerate_sky(B, wcs, r2.center)
        c = B.new(COMPOUND_SKY, label='c', region1=r1, region2=r2, _operator=operator_of(op), meta=rich_meta(B, 'c.meta'),
                  visual=rich_visual(B, 'c.visual'))
        return dict(self=c, skycoord=sky(B, 'q'), wcs=wcs, op=op)
    pre = lambda self: sky_wf('circle', self.region1) and sky_wf('ellipse', self.region2)
    post = {
        'operation_of_operand_answers': lambda self, skycoord, wcs, op, result:
            bool(result) == (bool(operator_of(op)(bool(self.region1.contains(skycoord, wcs)), bool(self.region2.contains(skycoord, wcs))))
                             == bool(self.meta.get('include', True))),
        'equals_pixel_compound_of_the_images': lambda self, skycoord, wcs, result:
            bool(result) == bool(self.to_pixel(wcs).contains(pixcoord_of(wcs, skycoord))),
    }


def _contains_after_update(self, sc, wcs, what, new, newc):
    first = self.contains(sc, wcs)
    if what == 'size':
        if hasattr(self, 'radius'):
            self.radius = new
        else:
            self.width = new
    elif what == 'center':
        self.center = newc
    elif what == 'include':
        self.meta['include'] = not self.meta.get('include', True)
    return (first, self.contains(sc, wcs))


@contract('regions/core/core.py::SkyRegion.contains', props=['C06', 'C13'])
class sky_contains_follows_updates:
    """the answer describes the region as it is now: a second query after a parameter / meta update agrees with the pixel image of the
    updated region (no stale projection is reused)"""
    cases = {k + '-' + w: {'kind': k, 'what': w} for k in ('circle', 'ellipse') for w in ('size', 'center', 'include')}

    def setup(B, kind='circle', what='size'):
        r = sky_region(B, kind, 'r', simple=True)
        wcs = B.wcs('w')
        newc = sky(B, 'newc')
        nondegenerate_sky(B, wcs, r.center)
        nondegenerate_sky(B, wcs, newc)
        return dict(self=r, sc=sky(B, 'q'), wcs=wcs, kind=kind, what=what, new=B.quantity('new', 'arcsec'), newc=newc)
    pre = lambda self, kind, new: sky_wf(kind, self) and new.to_value('rad') > 0
    call = lambda self, sc, wcs, what, new, newc: _contains_after_update(self, sc, wcs, what, new, newc)
    modifies = ('r',)
    post = {
        'second_answer_is_for_the_updated_region': lambda self, sc, wcs, result:
            bool(result[1]) == bool(self.to_pixel(wcs).contains(pixcoord_of(wcs, sc))),
    }


def _answer_at(ans, k):
    """the answer for position k of a batch: an array answer holds one per position, a single bool answers for all of them"""
    from vprim import is_array
    return bool(ans[k]) if is_array(ans) else bool(ans)


@contract('regions/core/core.py::SkyRegion.contains', props=['C06'])
class sky_membership_of_a_batch_of_positions:
    """asked about several sky positions at once, a sky region answers for each as its pixel image does for the converted position
    (an excluded point or text region contains every position, also in a batch)"""
    cases = {k + '-' + f: {'kind': k, 'frame': f} for k in ('circle', 'point', 'text', 'ellipse') for f in ('icrs',)}
    forall = {'K': 'int'}

    def setup(B, kind='circle', frame='icrs'):
        from contracts.c17_validation import sky_array
        r = sky_region(B, kind, 'r', frame, simple=True)
        wcs = B.wcs('w', frame)
        if kind != 'line':
            nondegenerate_sky(B, wcs, r.center)
        return dict(self=r, wcs=wcs, kind=kind, scs=sky_array(B, 'qs', frame))
    pre = lambda self, kind: sky_wf(kind, self)
    call = lambda self, scs, wcs: (self.contains(scs, wcs), self.to_pixel(wcs).contains(pixcoord_of(wcs, scs)))
    post = {'same_answer_for_every_position': lambda scs, result, K:
            (not (0 <= K and K < len(scs))) or _answer_at(result[0], K) == _answer_at(result[1], K)}


# ---------------------------------------------------------------------------- sky compounds of arbitrary operands
ANY_SKY = 'spec/abstract_region.py::AnySkyRegion'


@contract(COMPOUND_SKY + '.contains', props=['C06', 'C08'])
class compound_sky_contains_for_any_operands:
    """operator(answer of region1, answer of region2) - in that order: `gt` (a and not b) tells the operands apart -, complemented as a
    whole when the compound is excluded, for operands with arbitrary (abstract) membership and their own include flags, scalar and
    array positions"""
    cases = {op + '-' + q: {'op': op, 'q': q} for op in ('and_', 'or_', 'xor', 'gt') for q in ('scalar', 'array')}

    def setup(B, op='and_', q='scalar'):
        from contracts.common import mk_meta, mk_visual
        r1 = B.new(ANY_SKY, label='r1', rid=B.int('r1.rid'), meta=mk_meta(B, 'r1.meta', 'bool'), visual=mk_visual(B, 'r1.visual'))
        r2 = B.new(ANY_SKY, label='r2', rid=B.int('r2.rid'), meta=mk_meta(B, 'r2.meta', 'bool'), visual=mk_visual(B, 'r2.visual'))
        c = B.new(COMPOUND_SKY, label='c', region1=r1, region2=r2, _operator=operator_of(op), meta=mk_meta(B, 'c.meta', 'bool'),
                  visual=mk_visual(B, 'c.visual'))
        return dict(self=c, skycoord=sky(B, 'q') if q == 'scalar' else sky_array_of(B, 'q'), wcs=B.wcs('w'), op=op, q=q)
    forall = {'k': 'int'}
    post = {
        'operation_of_operand_answers_in_order': lambda self, skycoord, wcs, op, q, result, k: _compound_answer(self, skycoord, wcs, op, q, result, k),
    }


def sky_array_of(B, name):
    from astropy.coordinates import SkyCoord
    import astropy.units as u
    n = B.int(name + '.n')
    return B.call(SkyCoord, B.call(u.Quantity, B.array(name + '.lons', (n,)), u.deg), B.call(u.Quantity, B.array(name + '.lats', (n,)), u.deg),
                  frame='icrs')


def _compound_answer(self, skycoord, wcs, op, q, result, k):
    from vprim import arr_at, implies
    a, b = self.region1.contains(skycoord, wcs), self.region2.contains(skycoord, wcs)
    inc = bool(self.meta.get('include', True))
    if q == 'scalar':
        return bool(result) == (bool(operator_of(op)(bool(a), bool(b))) == inc)
    return implies(0 <= k and k < len(skycoord.spherical.lon),
                   bool(arr_at(result, k)) == (bool(operator_of(op)(bool(arr_at(a, k)), bool(arr_at(b, k)))) == inc))
