"""C17: values outside a parameter's documented domain are rejected (ValueError/TypeError/KeyError) at construction and on
assignment, a rejected operation leaves the object as it was, accepted values read back unchanged, parameters cannot be deleted"""
from pyvc.api import contract
from contracts.common import (PIXCOORD, META, VISUAL, CIRCLE, ELLIPSE, POLYGON, CIRCLE_ANN, ELLIPSE_ANN, RECT_ANN, COMPOUND,
                              pix, circle, circle_ok, ellipse, ellipse_ok, polygon, polygon_ok, circle_annulus,
                              circle_annulus_ok, asym_annulus, asym_annulus_ok, anyregion, mk_meta, mk_visual)
from spec.domains import (positive_scalar, scalar_pixcoord, oned_pixcoord, scalar_skycoord, oned_skycoord, scalar_angle,
                          positive_scalar_angle)
from vprim import implies

CIRCLE_SKY = 'regions/shapes/circle.py::CircleSkyRegion'
POLY_SKY = 'regions/shapes/polygon.py::PolygonSkyRegion'

VALUES = ('pos', 'nonpos', 'posint', 'zeroint', 'nan', 'inf', 'ninf', 'str', 'none', 'list', 'tuple', 'arr0', 'arr1', 'bool',
          'q_pix', 'q_dimensionless', 'q_sr_pos', 'q_deg_pos', 'q_deg_nonpos', 'q_deg_inf', 'q_deg_nan', 'q_rad_any', 'q_deg_arr', 'pix_scalar', 'pix_arr1', 'pix_arr2',
          'sky_scalar', 'sky_arr1', 'sky_arr2', 'dict')


def make_value(B, kind):
    """one member of the catalogue of candidate values (symbolic where the kind is a continuum)"""
    import numpy as np
    import astropy.units as u
    if kind == 'pos':
        v = B.real('v')
        B.assume(v > 0)
        return v
    if kind == 'nonpos':
        v = B.real('v')
        B.assume(v <= 0)
        return v
    if kind == 'posint':
        v = B.int('vi')
        B.assume(v > 0)
        return v
    if kind == 'zeroint':
        return 0
    if kind == 'nan':
        return float('nan')
    if kind == 'inf':
        return float('inf')
    if kind == 'ninf':
        return float('-inf')
    if kind == 'str':
        return 'abc'
    if kind == 'none':
        return None
    if kind == 'list':
        return [1.0, 2.0]
    if kind == 'tuple':
        return (1.0,)
    if kind == 'arr0':
        return B.call(np.array, B.real('v0'))          # a 0-d array is not a scalar
    if kind == 'arr1':
        return B.array('va', (B.int('va.n'),))
    if kind == 'bool':
        return True
    if kind == 'q_pix':
        return B.quantity('vq', 'pix')
    if kind == 'q_dimensionless':
        return B.quantity('vq', 'dimensionless_unscaled')            # a pure number: convertible to an angle only under astropy's optional dimensionless_angles equivalency
    if kind == 'q_sr_pos':
        q = B.quantity('vq', 'sr')            # a solid angle is not an angle
        B.assume(q.value > 0)
        return q
    if kind == 'q_deg_pos':
        q = B.quantity('vq', 'deg')
        B.assume(q.to_value('rad') > 0)
        return q
    if kind == 'q_deg_nonpos':
        q = B.quantity('vq', 'deg')
        B.assume(q.to_value('rad') <= 0)
        return q
    if kind == 'q_deg_inf':
        return float('inf') * u.deg
    if kind == 'q_deg_nan':
        return float('nan') * u.deg
    if kind == 'q_rad_any':
        return B.quantity('vq', 'rad')
    if kind == 'q_deg_arr':
        return B.call(u.Quantity, B.array('vqa', (B.int('vqa.n'),)), u.deg)
    if kind == 'pix_scalar':
        return pix(B, 'vp')
    if kind == 'pix_arr1':
        n = B.int('vp.n')
        return B.new(PIXCOORD, label='vp', x=B.array('vp.x', (n,)), y=B.array('vp.y', (n,)))
    if kind == 'pix_arr2':
        n = B.int('vp.n')
        return B.new(PIXCOORD, label='vp', x=B.array('vp.x', (n, 2)), y=B.array('vp.y', (n, 2)))
    if kind == 'sky_scalar':
        return sky(B, 'vs')
    if kind == 'sky_arr1':
        return sky_array(B, 'vs')
    if kind == 'sky_arr2':
        from astropy.coordinates import SkyCoord
        n = B.int('vs.n')
        return B.call(SkyCoord, B.call(u.Quantity, B.array('vs.lons', (n, 2)), u.deg), B.call(u.Quantity, B.array('vs.lats', (n, 2)), u.deg),
                      frame='icrs')
    if kind == 'dict':
        return {'label': 'x'}
    raise ValueError(kind)


def sky(B, name, frame='icrs'):
    from astropy.coordinates import SkyCoord
    from vprim import PI
    lon, lat = B.quantity(name + '.lon', 'deg'), B.quantity(name + '.lat', 'deg')
    # the type invariant of a celestial position: latitude within [-90, 90] deg, longitude already wrapped into [0, 360) deg
    B.assume(lat.to_value('rad') >= -PI / 2)
    B.assume(lat.to_value('rad') <= PI / 2)
    B.assume(lon.to_value('rad') >= 0)
    B.assume(lon.to_value('rad') < 2 * PI)
    return B.call(SkyCoord, lon, lat, frame=frame)


def sky_array(B, name, frame='icrs'):
    from astropy.coordinates import SkyCoord
    import astropy.units as u
    n = B.int(name + '.n')
    return B.call(SkyCoord, B.call(u.Quantity, B.array(name + '.lons', (n,)), u.deg),
                  B.call(u.Quantity, B.array(name + '.lats', (n,)), u.deg), frame=frame)


def try_assign(obj, name, value):
    """(accepted?, value read back afterwards, value before); only the three documented exception types count as rejection"""
    before = getattr(obj, name)
    try:
        setattr(obj, name, value)
    except (ValueError, TypeError, KeyError):
        return (False, getattr(obj, name), before)
    return (True, getattr(obj, name), before)


def verdict_ok(domain, value, result):
    accepted, after, before = result
    if domain(value):
        return accepted and after is value
    return (not accepted) and after is before


def circle_sky(B, name):
    return B.new(CIRCLE_SKY, label=name, center=sky(B, name + '.center'), radius=B.quantity(name + '.radius', 'deg'),
                 meta=mk_meta(B, name + '.meta'), visual=mk_visual(B, name + '.visual'))


def poly_sky(B, name):
    return B.new(POLY_SKY, label=name, vertices=sky_array(B, name + '.vertices'),
                 meta=mk_meta(B, name + '.meta'), visual=mk_visual(B, name + '.visual'))


ATTRS = {
    'PositiveScalar': ('circle', 'radius', positive_scalar),
    'ScalarPixCoord': ('circle', 'center', scalar_pixcoord),
    'ScalarAngle': ('ellipse', 'angle', scalar_angle),
    'OneDPixCoord': ('polygon', 'vertices', oned_pixcoord),
    'PositiveScalarAngle': ('circle_sky', 'radius', positive_scalar_angle),
    'ScalarSkyCoord': ('circle_sky', 'center', scalar_skycoord),
    'OneDSkyCoord': ('poly_sky', 'vertices', oned_skycoord),
}
MAKERS = {'circle': circle, 'ellipse': ellipse, 'polygon': polygon, 'circle_sky': circle_sky, 'poly_sky': poly_sky}


@contract('regions/core/attributes.py::RegionAttribute.__set__', props=['C17'])
class attribute_assignment:
    cases = {a + '=' + v: {'attr': a, 'val': v} for a in ATTRS for v in VALUES}

    def setup(B, attr='PositiveScalar', val='pos'):
        maker, name, domain = ATTRS[attr]
        return dict(obj=MAKERS[maker](B, 'r'), name=name, value=make_value(B, val), attr=attr)
    call = lambda obj, name, value: try_assign(obj, name, value)
    modifies = ('r',)
    post = {'accepts_exactly_the_documented_domain_and_rejection_changes_nothing':
            lambda attr, value, result: verdict_ok(ATTRS[attr][2], value, result)}


@contract('regions/core/attributes.py::RegionAttribute.__delete__', props=['C17'])
class attribute_cannot_be_deleted:
    cases = {a: {'attr': a} for a in ATTRS}

    def setup(B, attr='PositiveScalar'):
        maker, name, domain = ATTRS[attr]
        return dict(obj=MAKERS[maker](B, 'r'), name=name)
    call = lambda obj, name: delattr(obj, name)
    raises = {'AttributeError': lambda: True}


def try_construct(cls, args):
    try:
        return (True, cls(*args))
    except (ValueError, TypeError, KeyError):
        return (False, None)


@contract(CIRCLE, props=['C17'])
class circle_constructor_validates:
    cases = {'radius=' + v: {'which': 'radius', 'val': v} for v in VALUES}
    cases.update({'center=' + v: {'which': 'center', 'val': v} for v in VALUES})

    def setup(B, which='radius', val='pos'):
        good_c, good_r = pix(B, 'c'), B.real('rad')
        B.assume(good_r > 0)
        v = make_value(B, val)
        return dict(args=(good_c, v) if which == 'radius' else (v, good_r), which=which, v=v)
    call = lambda args: try_construct(CIRCLE_CLS(), args)
    post = {'constructed_iff_in_domain': lambda which, v, result:
            result[0] == (positive_scalar(v) if which == 'radius' else scalar_pixcoord(v)),
            'stores_the_value': lambda which, v, result:
            (not result[0]) or (result[1].radius is v if which == 'radius' else result[1].center is v)}


def CIRCLE_CLS():
    from regions.shapes.circle import CirclePixelRegion
    return CirclePixelRegion


# ---------------------------------------------------------------------------- metadata: keys stay inside the documented vocabulary
META_OPS = ('setitem_bad', 'setitem_good', 'update_dict_bad', 'update_dict_mixed', 'update_kwargs_bad', 'update_pairs_bad',
            'update_good', 'setdefault_bad', 'setdefault_good', 'ior_bad', 'ior_good', 'init_dict_bad', 'init_pairs_bad',
            'init_kwargs_bad', 'init_good', 'init_from_other_class_bad', 'visual_alias_width', 'visual_alias_point')


def do_meta_op(m, op, cls):
    g1, g2 = ('label', 'comment') if 'label' in m.valid_keys else ('color', 'linewidth')
    if op == 'setitem_bad':
        m['bad'] = 1
    elif op == 'setitem_good':
        m[g1] = 'x'
    elif op == 'update_dict_bad':
        m.update({'bad': 1})
    elif op == 'update_dict_mixed':
        m.update({g1: 'x', 'bad': 1})
    elif op == 'update_kwargs_bad':
        m.update(bad=1)
    elif op == 'update_pairs_bad':
        m.update([(g1, 'x'), ('bad', 1)])
    elif op == 'update_good':
        m.update({g1: 'x'}, **{g2: 'c'})
    elif op == 'setdefault_bad':
        m.setdefault('bad', 1)
    elif op == 'setdefault_good':
        m.setdefault(g1, 'x')
    elif op == 'ior_bad':
        m |= {g1: 'x', 'bad': 1}
    elif op == 'ior_good':
        m |= {g1: 'x'}
    elif op == 'init_dict_bad':
        return cls({g1: 'x', 'bad': 1})
    elif op == 'init_pairs_bad':
        return cls([(g1, 'x'), ('bad', 1)])
    elif op == 'init_kwargs_bad':
        return cls(bad=1)
    elif op == 'init_good':
        return cls({g1: 'x'}, **{g2: 'c'})
    elif op == 'init_from_other_class_bad':
        # a RegionVisual built from a RegionMeta (or vice versa) whose keys are foreign to the new class
        from regions.core.metadata import RegionMeta, RegionVisual
        other = RegionVisual({'color': 'red'}) if 'label' in m.valid_keys else RegionMeta({'label': 'x'})
        return cls(other)
    elif op == 'visual_alias_width':
        m['width'] = 2
    elif op == 'visual_alias_point':
        m['point'] = 'x'
    return m


def try_meta_op(m, op, cls):
    before = dict(m)
    try:
        r = do_meta_op(m, op, cls)
    except (ValueError, TypeError, KeyError):
        return (False, m, before)
    return (True, r, before)


def keys_valid(m):
    for k in dict(m):
        if k not in m.valid_keys:
            return False
    return True


@contract('regions/core/metadata.py::Meta', props=['C17'])
class meta_vocabulary_invariant:
    cases = {c + '-' + op: {'which': c, 'op': op} for c in ('meta', 'visual') for op in META_OPS
             if not (c == 'meta' and op.startswith('visual_'))}

    def setup(B, which='meta', op='setitem_bad'):
        cls = META if which == 'meta' else VISUAL
        m = B.meta(cls, 'm', {'comment': 'old'} if which == 'meta' else {'color': 'red'})
        return dict(m=m, op=op, cls=B.ref(cls), which=which)
    call = lambda m, op, cls: try_meta_op(m, op, cls)
    modifies = ('m',)
    post = {
        'keys_stay_in_vocabulary': lambda result: keys_valid(result[1]),
        'bad_operations_are_rejected_and_change_nothing': lambda op, result:
            (not ('bad' in op or 'mixed' in op)) or ((not result[0]) and dict(result[1]) == result[2]),
        'good_operations_are_accepted': lambda op, result: ('bad' in op or 'mixed' in op) or result[0],
    }


# ---------------------------------------------------------------------------- Regions lists hold regions only
REGIONS = 'regions/core/regions.py::Regions'
LIST_OPS = ('append_bad', 'append_good', 'extend_bad_first', 'extend_bad_later', 'extend_good', 'extend_regions', 'insert_bad',
            'insert_good', 'init_bad', 'init_good')


def do_list_op(rs, op, good, good2, cls):
    if op == 'append_bad':
        rs.append('foo')
    elif op == 'append_good':
        rs.append(good)
    elif op == 'extend_bad_first':
        rs.extend([1, good])
    elif op == 'extend_bad_later':
        rs.extend([good, 1])
    elif op == 'extend_good':
        rs.extend([good, good2])
    elif op == 'extend_regions':
        rs.extend(cls([good, good2]))
    elif op == 'insert_bad':
        rs.insert(0, 'foo')
    elif op == 'insert_good':
        rs.insert(0, good)
    elif op == 'init_bad':
        return cls([good, 3])
    elif op == 'init_good':
        return cls([good, good2])
    return rs


def try_list_op(rs, op, good, good2, cls):
    before = list(rs.regions)
    try:
        r = do_list_op(rs, op, good, good2, cls)
    except (ValueError, TypeError, KeyError):
        return (False, rs, before)
    return (True, r, before)


def all_regions(rs):
    from regions.core.core import Region
    for r in rs.regions:
        if not isinstance(r, Region):
            return False
    return True


@contract(REGIONS, props=['C17', 'C16'])
class regions_list_members:
    cases = {op: {'op': op} for op in LIST_OPS}

    def setup(B, op='append_bad'):
        r0 = circle(B, 'r0')
        rs = B.construct(REGIONS, 'rs', B.list('rs.list', [r0]))
        return dict(rs=rs, op=op, good=circle(B, 'g1'), good2=circle(B, 'g2'), cls=B.ref(REGIONS))
    call = lambda rs, op, good, good2, cls: try_list_op(rs, op, good, good2, cls)
    modifies = ('rs',)
    post = {
        'members_are_regions': lambda result: all_regions(result[1]),
        'bad_operations_are_rejected_and_change_nothing': lambda op, result:
            ('bad' not in op) or ((not result[0]) and list(result[1].regions) == result[2]),
        'good_operations_are_accepted': lambda op, result: ('bad' in op) or result[0],
    }


# ---------------------------------------------------------------------------- annuli: outer sizes exceed inner ones
@contract(CIRCLE_ANN, props=['C17', 'C08'])
class circle_annulus_constructor:
    def setup(B):
        return dict(center=pix(B, 'c'), inner_radius=B.real('ri'), outer_radius=B.real('ro'))
    pre = lambda inner_radius, outer_radius: inner_radius > 0 and outer_radius > 0
    raises = {'ValueError': lambda inner_radius, outer_radius: inner_radius >= outer_radius}
    post = {'stores': lambda inner_radius, outer_radius, result:
            result.inner_radius is inner_radius and result.outer_radius is outer_radius}


@contract(ELLIPSE_ANN, props=['C17', 'C08'])
class asym_annulus_constructor:
    cases = {'ellipse': {'kind': 'ellipse'}, 'rectangle': {'kind': 'rectangle'}}

    def setup(B, kind='ellipse'):
        return dict(cls=B.ref(ELLIPSE_ANN if kind == 'ellipse' else RECT_ANN), center=pix(B, 'c'), iw=B.real('iw'), ow=B.real('ow'),
                    ih=B.real('ih'), oh=B.real('oh'), angle=B.quantity('a', 'deg'))
    pre = lambda iw, ow, ih, oh: iw > 0 and ow > 0 and ih > 0 and oh > 0
    call = lambda cls, center, iw, ow, ih, oh, angle: cls(center, iw, ow, ih, oh, angle)
    raises = {'ValueError': lambda iw, ow, ih, oh: iw >= ow or ih >= oh}


@contract(CIRCLE_ANN, props=['C17', 'C08'])
class annulus_assignment_keeps_order:
    """assignments that would make the outer size not exceed the inner one must be rejected"""
    def setup(B):
        return dict(obj=circle_annulus(B, 'r'), value=B.real('v'))
    pre = lambda obj, value: circle_annulus_ok(obj) and value > 0
    call = lambda obj, value: try_assign(obj, 'inner_radius', value)
    modifies = ('r',)
    post = {'inner_stays_below_outer': lambda obj: obj.inner_radius < obj.outer_radius}
    findings = {'F6': lambda obj, value: value >= obj.outer_radius}


@contract('regions/core/mask.py::RegionMask', props=['C17', 'C05'])
class region_mask_constructor:
    def setup(B):
        from contracts.common import anybox
        return dict(data=B.array('d', (B.int('ny'), B.int('nx'))), bbox=anybox(B, 'b'))
    pre = lambda bbox: bbox.ixmin <= bbox.ixmax and bbox.iymin <= bbox.iymax
    raises = {'ValueError': lambda data, bbox: data.shape != bbox.shape}
    post = {'stores': lambda data, bbox, result: result.bbox is bbox and result.data.shape == bbox.shape}


# ---------------------------------------------------------------------------- meta / visual descriptors
MV_VALUES = ('dict_good', 'dict_bad', 'same_class', 'other_class_foreign_keys', 'other_class_empty', 'none', 'list', 'str')


def mv_value(B, which, kind):
    from regions.core.metadata import RegionMeta, RegionVisual
    mine, other = (RegionMeta, RegionVisual) if which == 'meta' else (RegionVisual, RegionMeta)
    good = {'label': 'x'} if which == 'meta' else {'color': 'red'}
    foreign = {'color': 'red'} if which == 'meta' else {'label': 'x'}
    if kind == 'dict_good':
        return dict(good)
    if kind == 'dict_bad':
        return {'bad': 1}
    if kind == 'same_class':
        return mine(good)
    if kind == 'other_class_foreign_keys':
        return other(foreign)
    if kind == 'other_class_empty':
        return other()
    if kind == 'none':
        return None
    if kind == 'list':
        return [('label', 'x')]
    return 'abc'


def mv_in_domain(which, kind):
    return kind in ('dict_good', 'same_class', 'other_class_empty')


def try_assign_mv(obj, which, value):
    before = dict(getattr(obj, which))
    try:
        setattr(obj, which, value)
    except (ValueError, TypeError, KeyError):
        return (False, getattr(obj, which), before)
    return (True, getattr(obj, which), before)


@contract('regions/core/attributes.py::RegionMetaDescr.__set__', props=['C17'])
class meta_visual_assignment:
    cases = {w + '=' + k: {'which': w, 'kind': k} for w in ('meta', 'visual') for k in MV_VALUES}

    def setup(B, which='meta', kind='dict_good'):
        return dict(obj=circle(B, 'r'), which=which, kind=kind, value=mv_value(B, which, kind))
    call = lambda obj, which, value: try_assign_mv(obj, which, value)
    modifies = ('r',)
    post = {
        'accepted_iff_in_domain': lambda which, kind, result: result[0] == mv_in_domain(which, kind),
        'keys_stay_in_vocabulary': lambda result: keys_valid(result[1]),
        'rejection_changes_nothing': lambda result: result[0] or dict(result[1]) == result[2],
        'stored_as_the_right_class': lambda obj, which, result:
            result[1].__class__.__name__ == ('RegionMeta' if which == 'meta' else 'RegionVisual'),
    }


CIRCLE_ANN_SKY = 'regions/shapes/annulus.py::CircleAnnulusSkyRegion'
ELL_ANN_SKY = 'regions/shapes/annulus.py::EllipseAnnulusSkyRegion'
RECT_ANN_SKY = 'regions/shapes/annulus.py::RectangleAnnulusSkyRegion'


@contract(CIRCLE_ANN_SKY, props=['C17', 'C08'])
class sky_circle_annulus_constructor:
    """the ordering test must compare angles, whatever units the two radii are expressed in"""
    cases = {a + '/' + b: {'ui': a, 'uo': b} for a in ('arcsec', 'arcmin', 'deg') for b in ('arcsec', 'arcmin', 'deg')}

    def setup(B, ui='arcsec', uo='arcsec'):
        return dict(center=sky(B, 'c'), inner_radius=B.quantity('ri', ui), outer_radius=B.quantity('ro', uo))
    pre = lambda inner_radius, outer_radius: inner_radius.to_value('rad') > 0 and outer_radius.to_value('rad') > 0
    raises = {'ValueError': lambda inner_radius, outer_radius: inner_radius.to_value('rad') >= outer_radius.to_value('rad')}
    post = {'stores': lambda inner_radius, outer_radius, result:
            result.inner_radius is inner_radius and result.outer_radius is outer_radius}


@contract(ELL_ANN_SKY, props=['C17', 'C08'])
class sky_asym_annulus_constructor:
    cases = {k + '-' + a + '/' + b: {'kind': k, 'ui': a, 'uo': b} for k in ('ellipse', 'rectangle') for a in ('arcsec', 'deg') for b in ('arcsec', 'arcmin')}

    def setup(B, kind='ellipse', ui='arcsec', uo='arcsec'):
        return dict(cls=B.ref(ELL_ANN_SKY if kind == 'ellipse' else RECT_ANN_SKY), center=sky(B, 'c'), iw=B.quantity('iw', ui), ow=B.quantity('ow', uo),
                    ih=B.quantity('ih', ui), oh=B.quantity('oh', uo), angle=B.quantity('a', 'deg'))
    pre = lambda iw, ow, ih, oh: iw.to_value('rad') > 0 and ow.to_value('rad') > 0 and ih.to_value('rad') > 0 and oh.to_value('rad') > 0
    call = lambda cls, center, iw, ow, ih, oh, angle: cls(center, iw, ow, ih, oh, angle)
    raises = {'ValueError': lambda iw, ow, ih, oh: iw.to_value('rad') >= ow.to_value('rad') or ih.to_value('rad') >= oh.to_value('rad')}
