"""shared set-up helpers: symbolic (or, for replay, native) regions of every class with well-formedness as a precondition"""
PIXCOORD = 'regions/core/pixcoord.py::PixCoord'
META = 'regions/core/metadata.py::RegionMeta'
VISUAL = 'regions/core/metadata.py::RegionVisual'
CIRCLE = 'regions/shapes/circle.py::CirclePixelRegion'
ELLIPSE = 'regions/shapes/ellipse.py::EllipsePixelRegion'
RECTANGLE = 'regions/shapes/rectangle.py::RectanglePixelRegion'
POLYGON = 'regions/shapes/polygon.py::PolygonPixelRegion'
REGPOLYGON = 'regions/shapes/polygon.py::RegularPolygonPixelRegion'
POINT = 'regions/shapes/point.py::PointPixelRegion'
LINE = 'regions/shapes/line.py::LinePixelRegion'
TEXT = 'regions/shapes/text.py::TextPixelRegion'
CIRCLE_ANN = 'regions/shapes/annulus.py::CircleAnnulusPixelRegion'
ELLIPSE_ANN = 'regions/shapes/annulus.py::EllipseAnnulusPixelRegion'
RECT_ANN = 'regions/shapes/annulus.py::RectangleAnnulusPixelRegion'
COMPOUND = 'regions/core/compound.py::CompoundPixelRegion'

INCS = ('absent', 'bool', 'int')          # include flag: absent | True/False (symbolic) | 1/0 (symbolic)
QUERIES = ('scalar', 'int', 'arr1', 'arr2')
UNITS = ('deg', 'rad')


def pix(B, name):
    return B.new(PIXCOORD, label=name, x=B.real(name + '.x'), y=B.real(name + '.y'))


def mk_meta(B, name, inc='absent'):
    if inc == 'absent':
        return B.meta(META, name)
    if inc == 'bool':
        return B.meta(META, name, {'include': B.bool(name + '.include')})
    if inc == 'int':
        return B.meta(META, name, {'include': B.int(name + '.include01')})
    if inc == 'maybe':
        return B.meta(META, name, None, {'include': (B.bool(name + '.has_include'), B.bool(name + '.include'))})
    raise ValueError(inc)


def meta_ok(region):
    """type invariant of the include flag in the quantifier {absent, True, False, 1, 0}"""
    v = region.meta.get('include', True)
    if isinstance(v, bool):
        return True
    return v == 0 or v == 1


def mk_visual(B, name):
    return B.meta(VISUAL, name)


def query(B, q):
    """the queried coordinates: scalar float/int pair, or 1-D / 2-D float arrays of symbolic size"""
    if q == 'scalar':
        return B.new(PIXCOORD, label='q', x=B.real('q.x'), y=B.real('q.y'))
    if q == 'int':
        return B.new(PIXCOORD, label='q', x=B.int('q.ix'), y=B.int('q.iy'))
    if q == 'arr1':
        n = B.int('q.n')
        return B.new(PIXCOORD, label='q', x=B.array('q.xs', (n,)), y=B.array('q.ys', (n,)))
    if q == 'arr2':
        n = B.int('q.n')
        m = B.int('q.m')
        return B.new(PIXCOORD, label='q', x=B.array('q.xs', (n, m)), y=B.array('q.ys', (n, m)))
    raise ValueError(q)


def query_ok(B_unused, pixcoord):
    return True


def circle(B, name, inc='absent'):
    return B.new(CIRCLE, label=name, center=pix(B, name + '.center'), radius=B.real(name + '.radius'),
                 meta=mk_meta(B, name + '.meta', inc), visual=mk_visual(B, name + '.visual'))


def circle_ok(r):
    return r.radius > 0 and meta_ok(r)


def ellipse(B, name, inc='absent', unit='deg', cls=ELLIPSE):
    return B.new(cls, label=name, center=pix(B, name + '.center'), width=B.real(name + '.width'),
                 height=B.real(name + '.height'), angle=B.quantity(name + '.angle', unit),
                 meta=mk_meta(B, name + '.meta', inc), visual=mk_visual(B, name + '.visual'))


def ellipse_ok(r):
    return r.width > 0 and r.height > 0 and meta_ok(r)


def rectangle(B, name, inc='absent', unit='deg'):
    return ellipse(B, name, inc, unit, cls=RECTANGLE)


def point(B, name, inc='absent'):
    return B.new(POINT, label=name, center=pix(B, name + '.center'),
                 meta=mk_meta(B, name + '.meta', inc), visual=mk_visual(B, name + '.visual'))


def text(B, name, inc='absent'):
    return B.new(TEXT, label=name, center=pix(B, name + '.center'), text='hello',
                 meta=mk_meta(B, name + '.meta', inc), visual=mk_visual(B, name + '.visual'))


def line(B, name, inc='absent'):
    return B.new(LINE, label=name, start=pix(B, name + '.start'), end=pix(B, name + '.end'),
                 meta=mk_meta(B, name + '.meta', inc), visual=mk_visual(B, name + '.visual'))


def polygon(B, name, inc='absent'):
    """built by the real constructor from raw vertices and a (generally non-zero) origin, so that the private fields
    (_vertices, origin) differ from the public `vertices` exactly as they do in real use"""
    n = B.int(name + '.n')
    raw = B.new(PIXCOORD, label=name + '.raw', x=B.array(name + '.vx', (n,)), y=B.array(name + '.vy', (n,)))
    return B.construct(POLYGON, name, raw, meta=mk_meta(B, name + '.meta', inc), visual=mk_visual(B, name + '.visual'),
                       origin=pix(B, name + '.origin'))


def polygon_ok(r):
    return len(r.vertices.x) >= 3 and meta_ok(r)


def circle_annulus(B, name, inc='absent'):
    return B.new(CIRCLE_ANN, label=name, center=pix(B, name + '.center'), inner_radius=B.real(name + '.inner_radius'),
                 outer_radius=B.real(name + '.outer_radius'),
                 meta=mk_meta(B, name + '.meta', inc), visual=mk_visual(B, name + '.visual'))


def circle_annulus_ok(r):
    return 0 < r.inner_radius and r.inner_radius < r.outer_radius and meta_ok(r)


def asym_annulus(B, name, cls, inc='absent', unit='deg'):
    return B.new(cls, label=name, center=pix(B, name + '.center'),
                 inner_width=B.real(name + '.inner_width'), outer_width=B.real(name + '.outer_width'),
                 inner_height=B.real(name + '.inner_height'), outer_height=B.real(name + '.outer_height'),
                 angle=B.quantity(name + '.angle', unit),
                 meta=mk_meta(B, name + '.meta', inc), visual=mk_visual(B, name + '.visual'))


def asym_annulus_ok(r):
    return (0 < r.inner_width and r.inner_width < r.outer_width and 0 < r.inner_height
            and r.inner_height < r.outer_height and meta_ok(r))

ANY = 'spec/abstract_region.py::AnyPixelRegion'
BBOX = 'regions/core/bounding_box.py::RegionBoundingBox'
OPS = ('and_', 'or_', 'xor', 'gt')      # gt: a and not b, an operator whose operands cannot be swapped


def anybox(B, name):
    return B.new(BBOX, label=name, ixmin=B.int(name + '.ixmin'), ixmax=B.int(name + '.ixmax'),
                 iymin=B.int(name + '.iymin'), iymax=B.int(name + '.iymax'))


def anyregion(B, name, inc='bool'):
    """an arbitrary pixel region obeying the base contract (symbolic); for native replay an ellipse stands in"""
    if B.symbolic:
        return B.new(ANY, label=name, rid=B.int(name + '.rid'), meta=mk_meta(B, name + '.meta', inc),
                     visual=mk_visual(B, name + '.visual'), _bbox=anybox(B, name + '.bbox'))
    from regions import EllipsePixelRegion, PixCoord
    import astropy.units as u
    return EllipsePixelRegion(PixCoord(B.real(name + '.cx'), B.real(name + '.cy')), 1 + abs(B.real(name + '.w')),
                              1 + abs(B.real(name + '.h')), B.real(name + '.a') * u.rad,
                              meta=mk_meta(B, name + '.meta', inc), visual=mk_visual(B, name + '.visual'))


def operator_of(name):
    import operator
    return getattr(operator, name)


def compound(B, name, r1, r2, op, inc='absent'):
    return B.new(COMPOUND, label=name, region1=r1, region2=r2, _operator=operator_of(op),
                 meta=mk_meta(B, name + '.meta', inc), visual=mk_visual(B, name + '.visual'))
