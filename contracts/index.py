"""which contract modules exist, and per property: claimed level, assumptions, bounded stand-ins"""
MODULES = ['contracts.c19_boxes', 'contracts.c01_membership', 'contracts.c04_bbox', 'contracts.c15_motions', 'contracts.c02_masks', 'contracts.c17_validation', 'contracts.c16_values', 'contracts.c20_pixcoord', 'contracts.c06_sky', 'contracts.c07_wcs', 'contracts.c08_algebra', 'contracts.c05_mask_apply', 'contracts.c18_artists', 'contracts.c09_ds9', 'contracts.c10_ds9_lexers']

A_PY = 'A-PY: CPython semantics of the modelled subset (ints exact, dict/list/str methods, left-to-right evaluation)'
A_REAL = 'A-REAL: floats are treated as real numbers (no rounding, no overflow)'
A_INT = 'A-INT: integers are mathematical (no int64 overflow in numpy integer corners)'
A_NUMPY = 'A-NUMPY: numpy ufuncs are point-wise, floor/ceil mathematical, basic slicing with in-range bounds is the window'

A_TRIG = 'A-TRIG: cos/sin of each angle atom are reals (c, s) with c^2+s^2=1; sums of angles are expanded by the addition formulas'
A_UNITS = 'A-UNITS: astropy Quantity/Angle arithmetic, unit conversion and comparison as modelled in externals/units.py'
A_KERNEL_PIP = 'assumed contract of the compiled kernel points_in_polygon: result[k] = crossing parity of (x[k], y[k]) (externals/geometry_pnpoly.py)'

PROPERTIES = {
    'C01': dict(level='proof', trusted=[A_PY, A_REAL, A_TRIG, A_NUMPY, A_UNITS, A_KERNEL_PIP],
                assumptions=[A_PY, A_REAL, A_TRIG, A_NUMPY, A_UNITS, A_KERNEL_PIP,
                             'query arrays of rank 0, 1 and 2 with symbolic sizes stand for N-D arrays (ufuncs are rank-agnostic)',
                             'positions on the exact boundary are left open (open spec => code => closed spec)']),
    'C19': dict(level='proof', trusted=[A_PY, A_REAL, A_INT, 'astropy.io.fits.util._is_int(v) == isinstance(v, int) (assumed contract)',
                                        'numpy.floor/ceil are the mathematical floor/ceiling'],
                assumptions=[A_PY, A_REAL, A_INT]),
    'C04': dict(level='proof', trusted=[A_PY, A_REAL, A_TRIG, A_NUMPY, A_UNITS,
                                        'lemma (not machine-checked): a polygon lies in the convex hull of its vertices, hence in any box containing them'],
                assumptions=[A_PY, A_REAL, A_TRIG, A_NUMPY, A_UNITS,
                             'minimality of polygon boxes is proved for 3..6 vertices (concrete spine), enclosure of vertices for any number']),
    'C02': dict(level='proof', trusted=[A_PY, A_REAL, A_TRIG, A_NUMPY, A_UNITS,
                                        'assumed contract of the compiled kernels *_overlap_grid (externals/geometry_kernels.py): element [j, i] is FRAC of the pixel [xmin+i*dx, ...] x [ymin+j*dy, ...]; FRAC(use_exact=0, n) is the fraction of the n x n regular sub-sample centres inside the shape, in {0, 1} for n = 1; rectangle/polygon kernels raise NotImplementedError for use_exact = 1 (Cython is not installed: the .so cannot be rebuilt, the .pyx text is not re-verified here)'],
                assumptions=[A_PY, A_REAL, A_TRIG, A_NUMPY, A_UNITS, 'compiled kernels: assumed contract (see trusted_base)',
                             'compound and annulus masks are proved against arbitrary operands obeying the base contract of PixelRegion.to_mask']),
    'C15': dict(level='proof', trusted=[A_PY, A_REAL, A_TRIG, A_NUMPY, A_UNITS, 'copy.deepcopy returns a structurally equal, disjoint object graph',
                                        'assumed kernel contract (as C02) for the mask part of the translation clause'],
                assumptions=[A_PY, A_REAL, A_TRIG, A_NUMPY, A_UNITS,
                             'polygon membership under rotation and polygon mask values under translation depend on the crossing-number kernel itself and are not proved (vertex positions, box translation and mask shape are)',
                             'regular polygons and compounds: rotate is covered through their components']),
    'C17': dict(level='proof', trusted=[A_PY, A_REAL, A_NUMPY, A_UNITS, 'astropy SkyCoord/Quantity type predicates (isscalar, ndim, unit.physical_type) as modelled in externals/'],
                assumptions=[A_PY, A_REAL, A_NUMPY, A_UNITS,
                             'the catalogue of candidate values is a finite set of kinds; numeric kinds are symbolic (all reals / ints), the rest concrete representatives',
                             'interleavings of assignments: each assignment is verified from an arbitrary well-formed state, so sequences follow by induction']),
    'C16': dict(level='proof', trusted=[A_PY, A_REAL, A_NUMPY, A_UNITS, 'copy.deepcopy returns a structurally equal, disjoint object graph (A-PY)',
                                        'numpy.allclose(a, b) is all(|a-b| <= 1e-8 + 1e-5 |b|)', 'Quantity/SkyCoord equality as modelled (frame mismatch raises TypeError)'],
                assumptions=[A_PY, A_REAL, A_NUMPY, A_UNITS,
                             'independence of a copy is proved as freshness (no shared mutable component, including nested list entries) under the assumed deepcopy contract',
                             'the 1e-5 relative tolerance is specified as a band: positions within 1e-5 relative of both values must compare equal, positions further apart than 1e-8 + 1e-5 max must compare unequal']),
    'C20': dict(level='proof', trusted=[A_PY, A_REAL, A_TRIG, A_NUMPY, A_UNITS, 'A-WCS: pixel_to_world/world_to_pixel of a WCS are inverse functions for equal (origin, mode); origin 1 = origin 0 + 1 (externals/wcs_model.py)'],
                assumptions=[A_PY, A_REAL, A_TRIG, A_NUMPY, A_UNITS, 'broadcasting is verified for the shape pairs scalar/1-D/2-D/size-1 listed in the contract; boolean/integer-array fancy indexing is delegated to numpy and not modelled']),
    'C06': dict(level='proof', trusted=[A_PY, A_REAL, A_TRIG, A_NUMPY, A_UNITS, 'A-WCS: a WCS is an invertible pair of abstract functions (externals/wcs_model.py); SkyCoord.directional_offset_by is an abstract function; atan2/hypot as in A-TRIG'],
                assumptions=[A_PY, A_REAL, A_TRIG, A_NUMPY, A_UNITS, 'the projection and its 1e-6 numerical accuracy are not verified; region and WCS share the celestial frame; the WCS is locally non-degenerate at the region centre',
                             'polygon membership after the round trip is not compared (vertices are); annulus membership follows from geometry + C01']),
    'C07': dict(level='proof', trusted=[A_PY, A_REAL, A_TRIG, A_NUMPY, A_UNITS, 'A-WCS + ASSUMED local-similarity model of an undistorted WCS (contracts/c07_wcs.py: local_model)'],
                assumptions=[A_PY, A_REAL, A_TRIG, A_NUMPY, A_UNITS, 'the local-similarity model is the meaning given to "undistorted celestial WCS"; distortion and projection mathematics are out of scope',
                             'angles are compared modulo a full turn (through cos and sin)']),
    'C08': dict(level='proof', trusted=[A_PY, A_REAL, A_TRIG, A_NUMPY, A_UNITS, 'A-WCS (conversion clause)', 'assumed kernel contracts (mask clause, as C02)'],
                assumptions=[A_PY, A_REAL, A_TRIG, A_NUMPY, A_UNITS,
                             'compound membership, masks and boxes are proved for arbitrary operands obeying the base contract of PixelRegion, which makes nesting depth unbounded (structural induction, one level per modular step)',
                             'commutation with rotation / conversion is proved for circle and ellipse operands (component-wise by the code, so other operand classes only change the component contracts of C15/C06)']),
    'C13': dict(level='proof', trusted=[A_PY, A_REAL, A_TRIG, A_NUMPY, A_UNITS, 'A-WCS', 'copy.deepcopy contract', 'externals are pure (they write only what their model says: numpy in-place ops, Quantity in-place operators, dict/list mutators)'],
                assumptions=[A_PY, A_REAL, A_NUMPY, A_UNITS,
                             'frame obligations: every write (attribute, item, in-place operator, write through an array view) to an object that existed before the call must be listed in the contract\'s `modifies`; writes to non-public instance attributes are judged by their observable effect (follows_assignment contracts) rather than flagged',
                             'history independence is the conjunction: no operation writes pre-existing or module-level state + results are functions of the arguments (each verified from an arbitrary well-formed state); a literal fresh-interpreter comparison is not performed']),
    'C05': dict(level='proof', trusted=[A_PY, A_REAL, A_INT, A_NUMPY, 'numpy basic slicing (with its clipping / negative-index wrapping), boolean-mask assignment and selection (row-major), np.zeros/asanyarray/copy as modelled in pyvc/builtins_.py and m_numpy.py'],
                assumptions=[A_PY, A_REAL, A_INT, A_NUMPY,
                             'arrays are index functions with symbolic shapes; dtype promotion, Quantity unit re-attachment and NaN/inf fill values are not covered by the VCs',
                             'boolean selections are compared structurally: same window, same values and same selection mask at every pixel imply the same row-major sequence']),
    'C18': dict(level='proof', trusted=[A_PY, A_REAL, A_TRIG, A_NUMPY, A_UNITS, 'A-MPL: documented geometry of matplotlib Circle/Ellipse/Rectangle(rotation about xy)/Polygon/Arrow/Line2D/Text/PathPatch constructors; a patch outline is an abstract polyline determined by the patch class and its geometric arguments (externals/mpl_*.py)'],
                assumptions=[A_PY, A_REAL, A_TRIG, A_NUMPY, A_UNITS, 'Bezier approximation tolerance, fill rule and rendering are outside the proof',
                             'the artist is compared with the verified membership function (C01) boundary-agnostically; regular polygons share the polygon code path']),
    'C09': dict(level='other', bounded=['ds9_roundtrip'], trusted=[A_PY, A_REAL, A_UNITS, 'A-FMT: format(v, ".Nf") renders v with N decimals using only digits, "." and "-", and float() of that text is within half a unit of the last decimal of v', 'SkyCoord.to_string / Angle.to_string / Quantity.to_string in decimal degrees as modelled in externals/'],
                explanation='Structural layer proved (all parameters, every class/frame/precision/list shape in the contracts): the text written by the real serialiser equals the DS9 conventions (symbolic text = concrete strings + fixed-point renderings), lists keep each region\'s frame/shape/effective properties under hoisting, inexpressible regions are skipped without altering the rest, serialising is deterministic, and the real decoder applied to the written parameter tokens returns every quantity within half a unit. The text layer of the reader (line splitting, regular expressions, metadata lexing) is outside the verifier and is covered by the bounded native round trip only.',
                assumptions=[A_PY, A_REAL, A_UNITS, 'metadata vocabulary: the representative entries in contracts/c09_ds9.py::VOCAB', 'ellipse axes are written as semi-axes, so a full axis is recovered within one unit (reading adopted in DESIGN section 6)']),
    'C10': dict(level='other', bounded=['ds9_grammar'], trusted=[A_PY, A_REAL, A_UNITS, 'A-FMT (numbers written in positional decimal notation are parsed back exactly by float())', 'astropy Angle parsing of "<n>", "a:b:c", "XhYmZs", "XdYmZs" as modelled in externals/coordinates.py'],
                explanation='Token lexers proved for all numeric values (pixel positions 1-based, pixel sizes unshifted, sky numbers in degrees, the suffix table, sexagesimal longitudes in hours for equatorial frames only, rejection of wrong-kind tokens) and the shape-parameter decoder proved through C09 (ellipse radii are semi-axes, last box/ellipse parameter is the angle). The line-level grammar (active frame until changed, unsupported frames/shapes skipped, separators, case, include sign and property, multi-radius annuli, text delimiters) is text processing with regular expressions, outside the verifier: it is checked by the bounded grammar-driven comparison against an independent generator only.',
                assumptions=[A_PY, A_REAL, A_UNITS, 'global properties overriding an absent include sign (F23 in DESIGN) are not generated']),
}
