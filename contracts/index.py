"""which contract modules exist, and per property: claimed level, assumptions, bounded stand-ins"""
MODULES = ['contracts.c19_boxes', 'contracts.c01_membership', 'contracts.c04_bbox', 'contracts.c15_motions', 'contracts.c02_masks', 'contracts.c17_validation', 'contracts.c16_values', 'contracts.c20_pixcoord', 'contracts.c06_sky', 'contracts.c07_wcs', 'contracts.c08_algebra', 'contracts.c05_mask_apply', 'contracts.c18_artists', 'contracts.c09_ds9', 'contracts.c10_ds9_lexers', 'contracts.c12_fits', 'contracts.c14_files', 'contracts.c11_crtf', 'contracts.k_kernels']

A_PY = 'A-PY: CPython semantics of the modelled subset (ints exact, dict/list/str methods, left-to-right evaluation)'
A_REAL = 'A-REAL: floats are treated as real numbers (no rounding, no overflow)'
A_INT = 'A-INT: integers are mathematical (no int64 overflow in numpy integer corners)'
A_NUMPY = 'A-NUMPY: numpy ufuncs are point-wise, floor/ceil mathematical, basic slicing with in-range bounds is the window'

A_TRIG = 'A-TRIG: cos/sin of each angle atom are reals (c, s) with c^2+s^2=1; sums of angles are expanded by the addition formulas'
A_UNITS = 'A-UNITS: astropy Quantity/Angle arithmetic, unit conversion and comparison as modelled in externals/units.py'
A_CYTHON = ('A-CYTHON: the compiled kernels behave as the Python subset extracted mechanically from their .pyx text (pyvc/pyx.py, rules R1-R8; '
            'the diff is written to evidence/pyx/): Cython compilation is trusted, C doubles are reals, C ints are integers, ndarray buffer '
            'type/ndim checks are the only effect of the dropped declarations')
A_KERNEL_PIP = ('points_in_polygon is used by the Python layer through its contract (externals/geometry_pnpoly.py: result[k] = crossing parity of '
                '(x[k], y[k])); that contract is DISCHARGED from regions/_geometry/pnpoly.pyx by kernel_point_in_polygon / kernel_points_in_polygon '
                '(loop invariants over the crossing count, any number of vertices and points); remaining trust: ' + A_CYTHON)
A_KERNEL_GRID = ('the *_overlap_grid kernels are used by the Python layer through their contract (externals/geometry_kernels.py: element [j, i] is FRAC of '
                 'pixel (i, j); FRAC(use_exact=0, n) = fraction of the n x n regular sub-sample centres inside the shape, in [0, 1], and for n = 1 the '
                 'membership of the pixel centre). For use_exact = 0 this contract is DISCHARGED from the .pyx text with loop invariants '
                 '(contracts/k_kernels.py): the four *_overlap_single_subpixel functions against that definition (spec/masks.py::sampled_fraction, any n) '
                 'and all four grids completely (every pixel holds its sampled fraction; the pixels that the bounding-window and circle-distance '
                 'short-cuts leave at 0 or set to 1 through lemmas proved by induction over samples and polygon edges: far pixels of disks, ellipses '
                 'and polygons, the triangle inequality for the circle, the even crossing number outside the vertex box). STILL ASSUMED: the exact-area '
                 'functions (use_exact = 1, see C03), and ' + A_CYTHON)

PROPERTIES = {
    'C01': dict(level='proof', bounded=['membership'], trusted=[A_PY, A_REAL, A_TRIG, A_NUMPY, A_UNITS, A_KERNEL_PIP],
                assumptions=[A_PY, A_REAL, A_TRIG, A_NUMPY, A_UNITS, A_KERNEL_PIP,
                             'query arrays of rank 0, 1 and 2 with symbolic sizes stand for N-D arrays (ufuncs are rank-agnostic)',
                             'positions on the exact boundary are left open (open spec => code => closed spec)']),
    'C19': dict(level='proof', bounded=['bbox_ints'], trusted=[A_PY, A_REAL, A_INT, 'astropy.io.fits.util._is_int(v) == isinstance(v, int) (assumed contract)',
                                        'numpy.floor/ceil are the mathematical floor/ceiling'],
                assumptions=[A_PY, A_REAL, A_INT]),
    'C04': dict(level='proof', bounded=['boxes'], trusted=[A_PY, A_REAL, A_TRIG, A_NUMPY, A_UNITS,
                                        'polygon members lie in the box: through the lemma "a point outside the extent of the vertices has an even crossing number", proved by induction over the edges (contracts/k_kernels.py), no longer trusted'],
                assumptions=[A_PY, A_REAL, A_TRIG, A_NUMPY, A_UNITS,
                             'polygon boxes: enclosure of the vertices and minimality (each border reached by an extreme vertex) for any number of vertices']),
    'C02': dict(level='proof', bounded=['sampled_masks'], trusted=[A_PY, A_REAL, A_TRIG, A_NUMPY, A_UNITS,
                                        A_KERNEL_GRID],
                assumptions=[A_PY, A_REAL, A_TRIG, A_NUMPY, A_UNITS, 'compiled kernels: contract discharged from the .pyx text for centre/subpixel modes; exact mode assumed (see trusted_base)',
                             'compound and annulus masks are proved against arbitrary operands obeying the base contract of PixelRegion.to_mask']),
    'C15': dict(level='proof', trusted=[A_PY, A_REAL, A_TRIG, A_NUMPY, A_UNITS, 'copy.deepcopy returns a structurally equal, disjoint object graph',
                                        'assumed kernel contract (as C02) for the mask part of the translation clause'],
                assumptions=[A_PY, A_REAL, A_TRIG, A_NUMPY, A_UNITS,
                             'polygon mask values under whole-pixel translation: proved through the translation invariance of the crossing parity and of the sampled fraction (lemmas by induction, contracts/k_kernels.py) together with the kernel contract in revealed form (FRAC = sampled fraction, discharged from the .pyx under C02); polygon membership under rotation is not proved (it is a topological fact about the even-odd rule, not a per-edge one): vertex positions are',
                             'regular polygons and compounds: rotate is covered through their components']),
    'C17': dict(level='proof', bounded=['models'], trusted=[A_PY, A_REAL, A_NUMPY, A_UNITS, 'astropy SkyCoord/Quantity type predicates (isscalar, ndim, unit.physical_type) as modelled in externals/'],
                assumptions=[A_PY, A_REAL, A_NUMPY, A_UNITS,
                             'the catalogue of candidate values is a finite set of kinds; numeric kinds are symbolic (all reals / ints), the rest concrete representatives',
                             'interleavings of assignments: each assignment is verified from an arbitrary well-formed state, so sequences follow by induction']),
    'C16': dict(level='proof', bounded=['values'], trusted=[A_PY, A_REAL, A_NUMPY, A_UNITS, 'copy.deepcopy returns a structurally equal, disjoint object graph (A-PY)',
                                        'numpy.allclose(a, b) is all(|a-b| <= 1e-8 + 1e-5 |b|)', 'Quantity/SkyCoord equality as modelled (frame mismatch raises TypeError)'],
                assumptions=[A_PY, A_REAL, A_NUMPY, A_UNITS,
                             'independence of a copy is proved as freshness (no shared mutable component, including nested list entries) under the assumed deepcopy contract',
                             'the 1e-5 relative tolerance is specified as a band: positions within 1e-5 relative of both values must compare equal, positions further apart than 1e-8 + 1e-5 max must compare unequal']),
    'C20': dict(level='proof', bounded=['pixcoord'], trusted=[A_PY, A_REAL, A_TRIG, A_NUMPY, A_UNITS, 'A-WCS: pixel_to_world/world_to_pixel of a WCS are inverse functions for equal (origin, mode); origin 1 = origin 0 + 1 (externals/wcs_model.py)'],
                assumptions=[A_PY, A_REAL, A_TRIG, A_NUMPY, A_UNITS, 'broadcasting is verified for the shape pairs scalar/1-D/2-D/size-1 listed in the contract; boolean/integer-array fancy indexing is delegated to numpy and not modelled']),
    'C06': dict(level='proof', bounded=['models'], trusted=[A_PY, A_REAL, A_TRIG, A_NUMPY, A_UNITS, 'A-WCS: a WCS is an invertible pair of abstract functions (externals/wcs_model.py); SkyCoord.directional_offset_by is an abstract function; atan2/hypot as in A-TRIG'],
                assumptions=[A_PY, A_REAL, A_TRIG, A_NUMPY, A_UNITS, 'the projection and its 1e-6 numerical accuracy are not verified; region and WCS share the celestial frame; the WCS is locally non-degenerate at the region centre',
                             'polygon membership after the round trip is not compared (vertices are); annulus membership follows from geometry + C01']),
    'C07': dict(level='proof', bounded=['models'], trusted=[A_PY, A_REAL, A_TRIG, A_NUMPY, A_UNITS, 'A-WCS + ASSUMED local-similarity model of an undistorted WCS (contracts/c07_wcs.py: local_model)'],
                assumptions=[A_PY, A_REAL, A_TRIG, A_NUMPY, A_UNITS, 'the local-similarity model is the meaning given to "undistorted celestial WCS"; distortion and projection mathematics are out of scope',
                             'angles are compared modulo a full turn (through cos and sin)']),
    'C08': dict(level='proof', trusted=[A_PY, A_REAL, A_TRIG, A_NUMPY, A_UNITS, 'A-WCS (conversion clause)', 'assumed kernel contracts (mask clause, as C02)'],
                assumptions=[A_PY, A_REAL, A_TRIG, A_NUMPY, A_UNITS,
                             'compound membership, masks and boxes are proved for arbitrary operands obeying the base contract of PixelRegion, which makes nesting depth unbounded (structural induction, one level per modular step)',
                             'commutation with rotation / conversion is proved for circle and ellipse operands (component-wise by the code, so other operand classes only change the component contracts of C15/C06)']),
    'C13': dict(level='proof', trusted=[A_PY, A_REAL, A_TRIG, A_NUMPY, A_UNITS, 'A-WCS', 'copy.deepcopy contract', 'externals are pure (they write only what their model says: numpy in-place ops, Quantity in-place operators, dict/list mutators)'],
                assumptions=[A_PY, A_REAL, A_NUMPY, A_UNITS,
                             'frame obligations: every write (attribute, item, in-place operator, write through an array view) to an object that existed before the call must be listed in the contract\'s `modifies`; writes to non-public instance attributes are judged by their observable effect (follows_assignment contracts) rather than flagged',
                             'history independence is the conjunction: no operation writes pre-existing or module-level state + results are functions of the arguments (each verified from an arbitrary well-formed state); a literal fresh-interpreter comparison is not performed']),
    'C05': dict(level='proof', bounded=['mask_apply'], trusted=[A_PY, A_REAL, A_INT, A_NUMPY, 'numpy basic slicing (with its clipping / negative-index wrapping), boolean-mask assignment and selection (row-major), np.zeros/asanyarray/copy as modelled in pyvc/builtins_.py and m_numpy.py'],
                assumptions=[A_PY, A_REAL, A_INT, A_NUMPY,
                             'arrays are index functions with symbolic shapes; dtype promotion, Quantity unit re-attachment and NaN/inf fill values are not covered by the VCs',
                             'boolean selections are compared structurally: same window, same values and same selection mask at every pixel imply the same row-major sequence']),
    'C18': dict(level='proof', bounded=['artists'], trusted=[A_PY, A_REAL, A_TRIG, A_NUMPY, A_UNITS, 'A-MPL: documented geometry of matplotlib Circle/Ellipse/Rectangle(rotation about xy)/Polygon/Arrow/Line2D/Text/PathPatch constructors; a patch outline is an abstract polyline determined by the patch class and its geometric arguments (externals/mpl_*.py)'],
                assumptions=[A_PY, A_REAL, A_TRIG, A_NUMPY, A_UNITS, 'Bezier approximation tolerance, fill rule and rendering are outside the proof; A-MPL itself is exercised, not proved, by the bounded runner `artists`, which asks the paths that the real matplotlib builds',
                             'the artist is compared with the verified membership function (C01) boundary-agnostically; regular polygons share the polygon code path']),
    'C09': dict(level='other', bounded=['ds9_roundtrip'], trusted=[A_PY, A_REAL, A_UNITS, 'A-FMT: format(v, ".Nf") renders v with N decimals using only digits, "." and "-", and float() of that text is within half a unit of the last decimal of v', 'SkyCoord.to_string / Angle.to_string / Quantity.to_string in decimal degrees as modelled in externals/'],
                explanation='Structural layer proved (all parameters, every class/frame/precision/list shape in the contracts): the text written by the real serialiser equals the DS9 conventions (symbolic text = concrete strings + fixed-point renderings), lists keep each region\'s frame/shape/effective properties under hoisting, inexpressible regions are skipped without altering the rest, serialising is deterministic, and the real decoder applied to the written parameter tokens returns every quantity within half a unit. The text layer of the reader (line splitting, regular expressions, metadata lexing) is outside the verifier and is covered by the bounded native round trip only.',
                assumptions=[A_PY, A_REAL, A_UNITS, 'metadata vocabulary: the representative entries in contracts/c09_ds9.py::VOCAB', 'ellipse axes are written as semi-axes, so a full axis is recovered within one unit (reading adopted in DESIGN section 6)']),
    'C10': dict(level='other', bounded=['ds9_grammar', 'models'], trusted=[A_PY, A_REAL, A_UNITS, 'A-FMT (numbers written in positional decimal notation are parsed back exactly by float())', 'astropy Angle parsing of "<n>", "a:b:c", "XhYmZs", "XdYmZs" as modelled in externals/coordinates.py'],
                explanation='Token lexers proved for all numeric values (pixel positions 1-based, pixel sizes unshifted, sky numbers in degrees, the suffix table, sexagesimal longitudes in hours for equatorial frames only, rejection of wrong-kind tokens) and the shape-parameter decoder proved through C09 (ellipse radii are semi-axes, last box/ellipse parameter is the angle). The line-level grammar (active frame until changed, unsupported frames/shapes skipped, separators, case, include sign and property, multi-radius annuli, text delimiters) is text processing with regular expressions, outside the verifier: it is checked by the bounded grammar-driven comparison against an independent generator only.',
                assumptions=[A_PY, A_REAL, A_UNITS, 'global properties overriding an absent include sign (F23 in DESIGN) are not generated']),
    'C12': dict(level='proof', bounded=['fits_roundtrip'], trusted=[A_PY, A_REAL, A_NUMPY, A_UNITS, 'A-TABLE: an astropy QTable is an ordered mapping column -> per-row values; Quantity(list) stacks rows; np.pad/atleast_1d as modelled', 'A-FITS (file layer, bounded only): BinTableHDU.writeto / QTable.read preserve the table'],
                assumptions=[A_PY, A_REAL, A_NUMPY, A_UNITS, 'binary doubles are reals: halving/doubling of ellipse axes is exact',
                             'lists are verified for the concrete list shapes in the contract (1-3 regions, every class, with symbolic parameters); longer lists and the on-disk file only in the bounded check',
                             'polygons in a list whose X/Y column is wider than the polygon are a recorded limitation of the format mapping (padding zeros become vertices): see KNOWN_FINDINGS']),
    'C14': dict(level='proof', bounded=['file_io'], trusted=[A_PY, 'A-OS: os.path.lexists/exists are queries; open(p, "w") truncates/creates p at once and is the only way the DS9/CRTF writers touch the file system; get_readable_fileobj decompresses gzip transparently while a plain open() does not', 'A-FITS: BinTableHDU.writeto(overwrite=False) raises OSError before modifying an existing file; fits.open returns what was written'],
                assumptions=[A_PY, 'ghost file system: every effect on the destination is an event; faults inside fh.write() and real symlink semantics are outside the model (the bounded native check exercises existing files, symlinks and dangling symlinks on a real file system)',
                             'the failing element is a region the serialiser of that format raises on (CRTF: compound region; DS9: unformattable parameter) or an invalid option']),
    'C11': dict(level='other', bounded=['crtf_roundtrip', 'models'], trusted=[A_PY, A_REAL, A_UNITS, 'A-FMT', 'frame transforms are abstract functions (astropy)', 'astropy Angle/Quantity parsing of CASA notations: "<n><unit>", "a:b:c" in the given unit, "XhYmZs", "XdYmZs", Angle(..., u.hour) = hourangle (externals/coordinates.py)',
                                                                             'A-RE: search() with a pattern of the shape (<character class>*)(.*) matches at position 0, group 1 = longest prefix over the class, group 2 = the rest (pyvc/m_re.py); every other regular expression is executed by the real `re` on concrete text only'],
                explanation='Structural layer proved for all parameter values: the text written by the real CRTF serialiser for circle, annulus, ellipse ([semi-major, semi-minor] = [height/2, width/2]), rotbox, line, text and symbol regions in J2000/B1950/ICRS/GALACTIC, with the leading "-" for excluded regions, equals the CASA conventions; serialising does not modify its inputs and is repeatable; the shape decoder inverts the ellipse-axis convention exactly. Reading is proved below the line grammar: (1) every coordinate / length token notation (<n>pix, <n>deg, <n>rad, arcmin, arcsec, quote suffixes, hh:mm:ss.s = hours, dd.mm.ss.s = degrees, XhYmZs, XdYmZs; a bare length is refused) denotes the CASA value for all numbers, by the real lexers on symbolic numerals; (2) the real _CRTFRegionParser constructor/parse()/make_shape and _Shape.to_region, given the token list of a line, build the region the CASA rules prescribe for all ten shape keywords in image and celestial frames (ellipse [major, minor] semi-axes, box corners, centerbox, rotbox with the angle in the unit written, annulus, poly, line, symbol, text), with coord= from the global defaults, the leading "-", the annotation type and global defaults routed to meta/visual. Only the regular-expression layer (splitting a line into shape keyword, bracket groups and key=value pairs; global/inline precedence) and the full text round trip remain bounded.',
                assumptions=[A_PY, A_REAL, A_UNITS, 'known findings F18-F21 (image-frame suffixes, arcsec suffix, symbol-less points, string-valued metadata) are recorded and reproduced on every run']),
    'C03': dict(level='other', bounded=['exact_masks'], trusted=[A_PY, A_REAL, A_TRIG, A_NUMPY, A_UNITS, 'compiled kernels: assumed contract for the arguments they receive (as C02)'],
                explanation='No contract within reach of an SMT solver over the reals expresses the overlap-area integral, its 1e-8 accuracy, exact 1/0 in floating point, or the convergence rate, so the central clause of C03 is NOT proved. Proved facets (Python layer, all parameters): mode="exact" reaches the circle/ellipse kernels with use_exact = 1 and the same centred unit-pixel grid and shape parameters as the other modes, the result is returned unmodified with the region\'s own box, the mask follows later parameter assignments, rectangle/polygon exact raise NotImplementedError. Bounded (run-time, not proved): every pixel of exact circle/ellipse masks against an independent polygon-disk area computation (1e-8), range, sums, 1/0 pixels, and convergence of subpixel masks of all four maskable shapes.',
                assumptions=[A_PY, A_REAL, A_NUMPY, 'known finding F26: ulp-level deviations from exactly 1 in ellipse masks']),
}
