"""which contract modules exist, and per property: claimed level, assumptions, bounded stand-ins"""
MODULES = ['contracts.c19_boxes', 'contracts.c01_membership']

A_PY = 'A-PY: CPython semantics of the modelled subset (ints exact, dict/list/str methods, left-to-right evaluation)'
A_REAL = 'A-REAL: floats are treated as real numbers (no rounding, no overflow)'
A_INT = 'A-INT: integers are mathematical (no int64 overflow in numpy integer corners)'
A_NUMPY = 'A-NUMPY: numpy ufuncs are point-wise, floor/ceil mathematical, basic slicing with in-range bounds is the window'

A_TRIG = 'A-TRIG: cos/sin of each angle atom are reals (c, s) with c^2+s^2=1; sums of angles are expanded by the addition formulas'
A_UNITS = 'A-UNITS: astropy Quantity/Angle arithmetic, unit conversion and comparison as modelled in externals/units.py'
A_KERNEL_PIP = 'assumed contract of the compiled kernel points_in_polygon: result[k] = crossing parity of (x[k], y[k]) (externals/geometry_pnpoly.py)'

PROPERTIES = {
    'C01': dict(level='proof', trusted=[A_PY, A_REAL, A_TRIG, A_NUMPY, A_UNITS, A_KERNEL_PIP],
                assumptions=[A_PY, A_REAL, A_TRIG, A_NUMPY, A_UNITS, A_KERNEL_PIP,
                             'query arrays of rank 0, 1 and 2 with symbolic sizes stand for N-D arrays (ufuncs are rank-agnostic)',
                             'positions on the exact boundary are left open (open spec => code => closed spec)']),
    'C19': dict(level='proof', trusted=[A_PY, A_REAL, A_INT, 'astropy.io.fits.util._is_int(v) == isinstance(v, int) (assumed contract)',
                                        'numpy.floor/ceil are the mathematical floor/ceiling'],
                assumptions=[A_PY, A_REAL, A_INT]),
}
