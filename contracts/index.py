"""which contract modules exist, and per property: claimed level, assumptions, bounded stand-ins"""
MODULES = ['contracts.c19_boxes']

A_PY = 'A-PY: CPython semantics of the modelled subset (ints exact, dict/list/str methods, left-to-right evaluation)'
A_REAL = 'A-REAL: floats are treated as real numbers (no rounding, no overflow)'
A_INT = 'A-INT: integers are mathematical (no int64 overflow in numpy integer corners)'
A_NUMPY = 'A-NUMPY: numpy ufuncs are point-wise, floor/ceil mathematical, basic slicing with in-range bounds is the window'

PROPERTIES = {
    'C19': dict(level='proof', trusted=[A_PY, A_REAL, A_INT, 'astropy.io.fits.util._is_int(v) == isinstance(v, int) (assumed contract)',
                                        'numpy.floor/ceil are the mathematical floor/ceiling'],
                assumptions=[A_PY, A_REAL, A_INT]),
}
