"""C18: the matplotlib artist of a region outlines the region's point set (under the ASSUMED geometry of the patch
constructors, A-MPL), shifted by the plot origin; annuli = outer outline + reversed inner outline; caller kwargs win"""
from pyvc.api import contract
from contracts.common import (PIXCOORD, VISUAL, META, CIRCLE, ELLIPSE, RECTANGLE, POLYGON, POINT, LINE, TEXT, CIRCLE_ANN, ELLIPSE_ANN,
                              RECT_ANN, COMPOUND, UNITS, circle, circle_ok, ellipse, ellipse_ok, rectangle, point, text, line,
                              polygon, polygon_ok, circle_annulus, circle_annulus_ok, asym_annulus, asym_annulus_ok, anybox, pix)
from spec.geometry import between, disk_open, disk_closed, ellipse_open, ellipse_closed, sq
from spec.boxes import is_bbox
from vprim import cos, sin, PI, implies, arr_at, shape_of

VIS = {'plain': {'vis': 'plain'}, 'mpl': {'vis': 'mpl'}, 'ds9': {'vis': 'ds9'}, 'filled': {'vis': 'filled'}}
VU = {v + '-' + u: {'vis': v, 'unit': u} for v in ('plain', 'mpl', 'ds9') for u in UNITS}


def with_visual(B, r, vis):
    """replace the region's visual by an mpl-style or DS9-derived dictionary"""
    if vis == 'plain':
        return r
    items = {'mpl': {'color': 'red', 'linewidth': 2}, 'filled': {'color': 'red', 'fill': True},
             'ds9': {'color': 'green', 'linewidth': 2, 'default_style': 'ds9', 'fontsize': 12}}[vis]
    r.__dict__['visual'] = B.meta(VISUAL, 'vis', items)
    return r


def origin_of(B):
    return (B.real('ox'), B.real('oy'))


def caller_kwargs():
    # overriding values that are falsy (None, 0, False) are overrides like any other
    return {'edgecolor': 'blue', 'linewidth': 5, 'facecolor': None, 'alpha': 0, 'fill': False}


def kwargs_ok(self, artist, kwargs, result):
    """caller keywords override the stored visual attributes; everything else comes from the visual"""
    base = self.visual.define_mpl_kwargs(artist)
    ok = True
    for k in kwargs:
        ok = ok and k in result.kwargs and result.kwargs[k] == kwargs[k]
        # A-MPL: in a patch the keyword `color` sets edge and face colour and takes precedence over `edgecolor` / `facecolor`: a stored
        # colour handed over under that name would silently win over the caller's edge / face colour
        if artist == 'Patch' and k in ('edgecolor', 'facecolor'):
            ok = ok and ('color' not in result.kwargs or 'color' in kwargs)
    for k in base:
        if k not in kwargs:
            ok = ok and k in result.kwargs and result.kwargs[k] == base[k]
    for k in result.kwargs:
        ok = ok and (k in kwargs or k in base)
    return ok


def deg_cs(angle_deg):
    a = angle_deg * PI / 180
    return cos(a), sin(a)


@contract(CIRCLE + '.as_artist', props=['C18', 'C13'])
class circle_artist:
    cases = VIS

    def setup(B, vis='plain'):
        return dict(self=with_visual(B, circle(B, 'r'), vis), origin=origin_of(B), kwargs=caller_kwargs(), q=pix(B, 'q'))
    pre = lambda self: circle_ok(self)
    call = lambda self, origin, kwargs: self.as_artist(origin, **kwargs)
    post = {
        'is_circle_patch': lambda result: result.__class__.__name__ == 'Circle',
        'outlines_the_region': lambda self, origin, q, result: between(
            disk_open(result.xy[0], result.xy[1], result.radius, q.x - origin[0], q.y - origin[1]), bool(self.contains(q)),
            disk_closed(result.xy[0], result.xy[1], result.radius, q.x - origin[0], q.y - origin[1])),
        'kwargs_precedence': lambda self, kwargs, result: kwargs_ok(self, 'Patch', kwargs, result),
    }


@contract(ELLIPSE + '.as_artist', props=['C18', 'C13'])
class ellipse_artist:
    cases = VU

    def setup(B, vis='plain', unit='deg'):
        return dict(self=with_visual(B, ellipse(B, 'r', 'absent', unit), vis), origin=origin_of(B), kwargs=caller_kwargs(), q=pix(B, 'q'))
    pre = lambda self: ellipse_ok(self)
    call = lambda self, origin, kwargs: self.as_artist(origin, **kwargs)
    post = {
        'is_ellipse_patch': lambda result: result.__class__.__name__ == 'Ellipse',
        'outlines_the_region': lambda self, origin, q, result: between(
            ellipse_open(result.xy[0], result.xy[1], result.width, result.height, deg_cs(result.angle)[0], deg_cs(result.angle)[1],
                         q.x - origin[0], q.y - origin[1]), bool(self.contains(q)),
            ellipse_closed(result.xy[0], result.xy[1], result.width, result.height, deg_cs(result.angle)[0], deg_cs(result.angle)[1],
                           q.x - origin[0], q.y - origin[1])),
        'kwargs_precedence': lambda self, kwargs, result: kwargs_ok(self, 'Patch', kwargs, result),
    }


def in_mpl_rectangle(p, X, Y, strict):
    """A-MPL: Rectangle(xy, w, h, angle) = { xy + R(angle) (u, v) : 0 <= u <= w, 0 <= v <= h }"""
    c, s = deg_cs(p.angle)
    dx, dy = X - p.xy[0], Y - p.xy[1]
    u = c * dx + s * dy
    v = -s * dx + c * dy
    if strict:
        return 0 < u and u < p.width and 0 < v and v < p.height
    return 0 <= u and u <= p.width and 0 <= v and v <= p.height


@contract(RECTANGLE + '.as_artist', props=['C18', 'C13'])
class rectangle_artist:
    cases = VU

    def setup(B, vis='plain', unit='deg'):
        return dict(self=with_visual(B, rectangle(B, 'r', 'absent', unit), vis), origin=origin_of(B), kwargs=caller_kwargs(), q=pix(B, 'q'))
    pre = lambda self: ellipse_ok(self)
    call = lambda self, origin, kwargs: self.as_artist(origin, **kwargs)
    post = {
        'is_rectangle_patch': lambda result: result.__class__.__name__ == 'Rectangle' and result.rotation_point == 'xy',
        'outlines_the_region': lambda self, origin, q, result: between(
            in_mpl_rectangle(result, q.x - origin[0], q.y - origin[1], True), bool(self.contains(q)),
            in_mpl_rectangle(result, q.x - origin[0], q.y - origin[1], False)),
        'kwargs_precedence': lambda self, kwargs, result: kwargs_ok(self, 'Patch', kwargs, result),
    }


@contract(POLYGON + '.as_artist', props=['C18', 'C13'])
class polygon_artist:
    cases = VIS

    def setup(B, vis='plain'):
        return dict(self=with_visual(B, polygon(B, 'r'), vis), origin=origin_of(B), kwargs=caller_kwargs())
    pre = lambda self: polygon_ok(self)
    call = lambda self, origin, kwargs: self.as_artist(origin, **kwargs)
    forall = {'k': 'int'}
    post = {
        'is_polygon_patch': lambda result: result.__class__.__name__ == 'Polygon' and result.closed,
        'vertices_shifted_by_origin': lambda self, origin, result, k: shape_of(result.xy) == (len(self.vertices.x), 2) and (
            (not (0 <= k and k < len(self.vertices.x))) or (
                arr_at(result.xy, k, 0) == arr_at(self.vertices.x, k) - origin[0] and arr_at(result.xy, k, 1) == arr_at(self.vertices.y, k) - origin[1])),
        'kwargs_precedence': lambda self, kwargs, result: kwargs_ok(self, 'Patch', kwargs, result),
    }


@contract(POINT + '.as_artist', props=['C18', 'C13'])
class point_artist:
    cases = VIS

    def setup(B, vis='plain'):
        return dict(self=with_visual(B, point(B, 'r'), vis), origin=origin_of(B), kwargs={'markeredgecolor': 'blue', 'markersize': 3})
    call = lambda self, origin, kwargs: self.as_artist(origin, **kwargs)
    post = {
        'marker_at_position_minus_origin': lambda self, origin, result: result.__class__.__name__ == 'Line2D'
            and len(result.xdata) == 1 and len(result.ydata) == 1
            and result.xdata[0] == self.center.x - origin[0] and result.ydata[0] == self.center.y - origin[1],
        'kwargs_precedence': lambda self, kwargs, result: kwargs_ok(self, 'Line2D', kwargs, result),
    }


@contract(TEXT + '.as_artist', props=['C18', 'C13'])
class text_artist:
    cases = VIS

    def setup(B, vis='plain'):
        return dict(self=with_visual(B, text(B, 'r'), vis), origin=origin_of(B), kwargs={'color': 'blue', 'rotation': 30})
    call = lambda self, origin, kwargs: self.as_artist(origin, **kwargs)
    post = {
        'text_at_position_minus_origin': lambda self, origin, result: result.__class__.__name__ == 'Text'
            and result.x == self.center.x - origin[0] and result.y == self.center.y - origin[1] and result.text == self.text,
        'kwargs_precedence': lambda self, kwargs, result: kwargs_ok(self, 'Text', kwargs, result),
    }


@contract(LINE + '.as_artist', props=['C18', 'C13'])
class line_artist:
    cases = VIS

    def setup(B, vis='plain'):
        return dict(self=with_visual(B, line(B, 'r'), vis), origin=origin_of(B), kwargs=caller_kwargs())
    call = lambda self, origin, kwargs: self.as_artist(origin, **kwargs)
    post = {
        'runs_from_start_to_end': lambda self, origin, result: result.__class__.__name__ == 'Arrow'
            and result.x == self.start.x - origin[0] and result.y == self.start.y - origin[1]
            and result.x + result.dx == self.end.x - origin[0] and result.y + result.dy == self.end.y - origin[1],
        'caller_kwargs_win': lambda kwargs, result: result.kwargs['edgecolor'] == kwargs['edgecolor'] and result.kwargs['linewidth'] == kwargs['linewidth'],
    }


@contract('regions/core/bounding_box.py::RegionBoundingBox.as_artist', props=['C18', 'C19'])
class bbox_artist:
    def setup(B):
        return dict(self=anybox(B, 'b'), kwargs={'edgecolor': 'blue'})
    pre = lambda self: is_bbox(self)
    call = lambda self, kwargs: self.as_artist(**kwargs)
    post = {'rectangle_over_the_pixel_edges': lambda self, result: result.__class__.__name__ == 'Rectangle'
            and result.xy[0] == self.ixmin - 0.5 and result.xy[1] == self.iymin - 0.5
            and result.width == self.ixmax - self.ixmin and result.height == self.iymax - self.iymin and result.angle == 0,
            'kwargs_passed': lambda result: result.kwargs['edgecolor'] == 'blue'}


def annulus_of(B, kind):
    if kind == 'circle':
        return circle_annulus(B, 'r')
    return asym_annulus(B, 'r', ELLIPSE_ANN if kind == 'ellipse' else RECT_ANN)


def outline(patch):
    return patch.get_transform().transform_path(patch.get_path())


@contract(CIRCLE_ANN + '.as_artist', props=['C18', 'C13'])
class annulus_artist:
    cases = {k + '-' + v: {'kind': k, 'vis': v} for k in ('circle', 'ellipse', 'rectangle') for v in ('plain', 'ds9')}

    def setup(B, kind='circle', vis='plain'):
        return dict(self=with_visual(B, annulus_of(B, kind), vis), origin=origin_of(B), kwargs=caller_kwargs(), kind=kind)
    pre = lambda self, kind: circle_annulus_ok(self) if kind == 'circle' else asym_annulus_ok(self)
    call = lambda self, origin, kwargs: (self.as_artist(origin, **kwargs), outline(self._outer_region.as_artist(origin)),
                                         outline(self._inner_region.as_artist(origin)))
    forall = {'k': 'int', 'j': 'int'}
    post = {
        'is_path_patch': lambda result: result[0].__class__.__name__ == 'PathPatch',
        # vertices: the outer outline, then the inner outline traversed backwards (a hole), closed on its last point
        'outer_then_reversed_inner': lambda result, k, j: j not in (0, 1) or (
            ((not (0 <= k and k < len(result[1].vertices))) or arr_at(result[0].path.vertices, k, j) == arr_at(result[1].vertices, k, j))
            and ((not (0 <= k and k < len(result[2].vertices) - 1)) or
                 arr_at(result[0].path.vertices, len(result[1].vertices) + k, j) == arr_at(result[2].vertices, len(result[2].vertices) - 2 - k, j))),
        'vertex_count': lambda result: len(result[0].path.vertices) == len(result[1].vertices) + len(result[2].vertices),
        'codes_outer_then_inner': lambda result, k:
            ((not (0 <= k and k < len(result[1].codes))) or arr_at(result[0].path.codes, k) == arr_at(result[1].codes, k))
            and ((not (0 <= k and k < len(result[2].codes))) or arr_at(result[0].path.codes, len(result[1].codes) + k) == arr_at(result[2].codes, k)),
        'kwargs_precedence': lambda self, kwargs, result: kwargs_ok(self, 'Patch', kwargs, result[0]),
    }
