"""C09 (structural layer): the DS9 serialiser writes, for every class / frame / precision, exactly the text the DS9
conventions prescribe (symbolic parameters; text = concrete strings + fixed-point renderings), and the real decoder applied
to the written parameter tokens returns parameters within half a unit of the written precision"""
from pyvc.api import contract
from contracts.common import (PIXCOORD, META, VISUAL, CIRCLE, ELLIPSE, RECTANGLE, POLYGON, POINT, LINE, TEXT, CIRCLE_ANN,
                              ELLIPSE_ANN, RECT_ANN, COMPOUND, pix, operator_of)
from contracts.c06_sky import SKY_CLASS
from contracts.c17_validation import sky
from spec.ds9 import HEADER, FRAME_NAME, region_text, tokens, records
from vprim import text_equal, implies

KINDS = ('circle', 'ellipse', 'rectangle', 'circle_annulus', 'ellipse_annulus', 'rectangle_annulus', 'line', 'point', 'text')
PIX_CLASS = {'circle': CIRCLE, 'ellipse': ELLIPSE, 'rectangle': RECTANGLE, 'circle_annulus': CIRCLE_ANN, 'ellipse_annulus': ELLIPSE_ANN,
             'rectangle_annulus': RECT_ANN, 'line': LINE, 'point': POINT, 'text': TEXT, 'polygon': POLYGON}
FRAMES = ('image', 'icrs', 'fk5', 'fk4', 'galactic', 'barycentricmeanecliptic')
PRECS = (1, 3, 8, 12)


def mk(B, kind, name, frame, meta=None, visual=None):
    """a region of the given kind in the pixel frame ('image') or a celestial frame, sizes in pixels / arcsec"""
    sk = frame != 'image'
    m = B.meta(META, name + '.meta', meta or {})
    v = B.meta(VISUAL, name + '.visual', visual or {})
    cls = SKY_CLASS[kind] if sk else PIX_CLASS[kind]
    P = (lambda nm: sky(B, name + '.' + nm, frame)) if sk else (lambda nm: pix(B, name + '.' + nm))
    def fixed_point(q, least):
        # domain of the assumed contract of Quantity.to_string (fixed-point notation: value 0 or 1e-4 <= |value in deg| < 1e16); sizes
        # are written halved for ellipses, hence `least`; smaller / larger values are written in scientific notation by numpy and are
        # covered by the bounded round trip only (bounded/ds9_roundtrip.py draws sizes down to 0.1 arcsec)
        d = q.to_value('deg')
        B.assume(d == 0 or ((d >= least or d <= -least) and d < 1e15 and d > -1e15))
        return q
    S = (lambda nm: fixed_point(B.quantity(name + '.' + nm, 'arcsec'), 0.0002)) if sk else (lambda nm: B.real(name + '.' + nm))
    A = lambda: fixed_point(B.quantity(name + '.angle', 'deg'), 0.0001)
    if kind == 'circle':
        return B.new(cls, label=name, center=P('center'), radius=S('radius'), meta=m, visual=v)
    if kind in ('ellipse', 'rectangle'):
        return B.new(cls, label=name, center=P('center'), width=S('width'), height=S('height'), angle=A(), meta=m, visual=v)
    if kind == 'circle_annulus':
        return B.new(cls, label=name, center=P('center'), inner_radius=S('ri'), outer_radius=S('ro'), meta=m, visual=v)
    if kind in ('ellipse_annulus', 'rectangle_annulus'):
        return B.new(cls, label=name, center=P('center'), inner_width=S('iw'), outer_width=S('ow'), inner_height=S('ih'),
                     outer_height=S('oh'), angle=A(), meta=m, visual=v)
    if kind == 'line':
        return B.new(cls, label=name, start=P('start'), end=P('end'), meta=m, visual=v)
    if kind == 'point':
        return B.new(cls, label=name, center=P('center'), meta=m, visual=v)
    if kind == 'text':
        return B.new(cls, label=name, center=P('center'), text='hello world', meta=m, visual=v)
    raise ValueError(kind)


def serialize(regions, precision):
    from regions.io.ds9.write import _serialize_ds9
    return _serialize_ds9(regions, precision=precision)


@contract('regions/io/ds9/write.py::_serialize_ds9', props=['C09', 'C13'])
class ds9_single_region_text:
    cases = {k + '-' + f + '-p%d' % p: {'kind': k, 'frame': f, 'prec': p} for k in KINDS for f in FRAMES for p in PRECS
             if (p == 8 or (f in ('image', 'fk5') and k in ('circle', 'ellipse')))}

    def setup(B, kind='circle', frame='image', prec=8):
        return dict(r=mk(B, kind, 'r', frame), kind=kind, frame=frame, prec=prec)
    call = lambda r, prec: serialize([r], prec)
    post = {
        'one_record_in_the_right_frame': lambda frame, result: len(records(result)) == 1 and records(result)[0]['frame'] == frame,
        'shape_text': lambda r, kind, frame, prec, result:
            text_equal(records(result)[0]['shape'], region_text(kind, r, prec, frame != 'image')),
        'properties': lambda kind, result: records(result)[0]['meta'] == ({'text': '{hello world}'} if kind == 'text' else {}),
    }


# ---------------------------------------------------------------------------- decoder applied to the written tokens
DS9_SHAPE = {'circle': 'circle', 'ellipse': 'ellipse', 'rectangle': 'box', 'circle_annulus': 'annulus', 'ellipse_annulus': 'ellipse',
             'rectangle_annulus': 'box', 'line': 'line', 'point': 'point', 'text': 'text'}
TEMPLATE_KEY = {'circle': 'circle', 'ellipse': 'ellipse', 'rectangle': 'rectangle', 'circle_annulus': 'circleannulus',
                'ellipse_annulus': 'ellipseannulus', 'rectangle_annulus': 'rectangleannulus', 'line': 'line', 'point': 'point', 'text': 'text'}
DS9_FRAME_WORD = {'image': 'image', 'icrs': 'icrs', 'fk5': 'fk5', 'fk4': 'fk4', 'galactic': 'galactic', 'barycentricmeanecliptic': 'ecliptic'}


def write_then_read_params(r, kind, frame, prec):
    """the parameter text the real writer produces for r, decoded by the real reader"""
    from regions.io.ds9.write import _get_region_params
    from regions.io.ds9.core import ds9_shape_templates
    from regions.io.ds9.read import _RegionData, _make_region
    text = _get_region_params(r, ds9_shape_templates[TEMPLATE_KEY[kind]], precision=prec)
    raw_meta = {'text': 'hello world'} if kind == 'text' else {}
    data = _RegionData(DS9_FRAME_WORD[frame], 'pixel' if frame == 'image' else 'sky', DS9_SHAPE[kind], text, raw_meta, '')
    return _make_region(data)


def half_unit(prec):
    return 0.5 * 10 ** (-prec)


def close(a, b, tol):
    return a - b <= tol and b - a <= tol


def pos_close(kind_sky, p, q, tol):
    if kind_sky:
        return p.frame.name == q.frame.name and close(p.lon.to_value('deg'), q.lon.to_value('deg'), tol) \
            and close(p.lat.to_value('deg'), q.lat.to_value('deg'), tol)
    return close(p.x, q.x, tol) and close(p.y, q.y, tol)


def params_close(kind, sk, a, b, prec):
    """every written quantity is recovered within half a unit of the last written decimal (full ellipse axes, written as
    semi-axes, within one unit)"""
    from contracts.c16_values import PARAMS
    tol = half_unit(prec)
    ok = a.__class__ is b.__class__
    for name in PARAMS[kind]:
        va, vb = getattr(a, name), getattr(b, name)
        if name in ('center', 'start', 'end'):
            ok = ok and pos_close(sk, va, vb, tol)
        elif name == 'angle':
            ok = ok and close(va.to_value('deg'), vb.to_value('deg'), tol)
        elif name == 'text':
            ok = ok and va == vb
        else:
            t = 2 * tol if kind in ('ellipse', 'ellipse_annulus') else tol
            ok = ok and (close(va.to_value('deg'), vb.to_value('deg'), t) if sk else close(va, vb, t))
    return ok


def sizes_large_enough(kind, sk, r, prec):
    """sizes must survive rounding: larger than one unit of the written precision (and annuli stay ordered)"""
    from contracts.c16_values import PARAMS
    u = 4 * half_unit(prec)
    ok = True
    for name in PARAMS[kind]:
        if name in ('radius', 'width', 'height', 'inner_radius', 'inner_width', 'inner_height'):
            v = getattr(r, name)
            ok = ok and (v.to_value('deg') if sk else v) > u
    val = lambda n: getattr(r, n).to_value('deg') if sk else getattr(r, n)
    if kind == 'circle_annulus':
        ok = ok and val('outer_radius') > val('inner_radius') + u
    if kind in ('ellipse_annulus', 'rectangle_annulus'):
        ok = ok and val('outer_width') > val('inner_width') + u and val('outer_height') > val('inner_height') + u
    return ok


@contract('regions/io/ds9/read.py::_make_region', props=['C09', 'C10'])
class ds9_written_parameters_read_back:
    cases = {k + '-' + f + '-p%d' % p: {'kind': k, 'frame': f, 'prec': p} for k in KINDS for f in ('image', 'fk5', 'galactic') for p in (1, 8)}

    def setup(B, kind='circle', frame='image', prec=8):
        return dict(r=mk(B, kind, 'r', frame), kind=kind, frame=frame, prec=prec)
    pre = lambda r, kind, frame, prec: sizes_large_enough(kind, frame != 'image', r, prec)
    call = lambda r, kind, frame, prec: write_then_read_params(r, kind, frame, prec)
    post = {
        'exactly_one_region': lambda result: result is not None and len(result) == 1,
        'same_class_and_parameters_within_half_a_unit': lambda r, kind, frame, prec, result:
            params_close(kind, frame != 'image', r, result[0], prec),
    }


# ---------------------------------------------------------------------------- lists, metadata hoisting, frames per line, skipping
from spec.ds9 import expected_props

VOCAB = {
    'plain': ({}, {}),
    'text': ({'text': 'my label; with # and = signs'}, {}),
    'exclude': ({'include': False}, {}),
    'include_true': ({'include': True}, {}),
    'tags': ({'tag': ['group 1', 'b']}, {'color': 'red'}),
    'style': ({}, {'edgecolor': '#00ff00', 'facecolor': '#00ff00', 'linewidth': 2, 'fill': True}),
    'dashed': ({}, {'color': 'blue', 'linestyle': 'dashed'}),
    'dashlist': ({}, {'linestyle': (0, (8, 3))}),
    'font': ({'text': 'x'}, {'fontname': 'helvetica', 'fontsize': 12, 'fontweight': 'bold', 'fontstyle': 'normal', 'rotation': 30}),
    'source': ({'source': 1, 'edit': 0}, {}),
}


def copy_vocab(entry):
    import copy
    return copy.deepcopy(entry[0]), copy.deepcopy(entry[1])


@contract('regions/io/ds9/write.py::_serialize_ds9', props=['C09', 'C13'])
class ds9_metadata_is_written_as_ds9_properties:
    cases = {k + '-' + v: {'kind': k, 'voc': v} for k in ('circle', 'ellipse_annulus', 'text', 'point') for v in VOCAB}

    def setup(B, kind='circle', voc='plain'):
        m, v = copy_vocab(VOCAB[voc])
        if kind == 'text':
            m.pop('text', None)
        return dict(r=mk(B, kind, 'r', 'image', m, v), kind=kind, voc=voc)
    call = lambda r: serialize([r], 8)
    post = {
        'properties': lambda r, kind, result: len(records(result)) == 1 and records(result)[0]['meta'] == expected_props(
            kind, dict(r.meta), dict(r.visual), r.text if kind == 'text' else None),
    }


LISTS = {
    'same_meta_same_frame': (('circle', 'image', 'tags'), ('ellipse', 'image', 'tags')),
    'shared_and_own': (('circle', 'image', 'style'), ('rectangle', 'image', 'style'), ('point', 'image', 'text')),
    'different_text': (('circle', 'image', 'text'), ('ellipse', 'image', 'font')),
    'mixed_frames': (('circle', 'image', 'plain'), ('circle', 'fk5', 'plain'), ('ellipse', 'galactic', 'style')),
    'first_has_key_later_lack_it': (('circle', 'image', 'style'), ('circle', 'image', 'plain'), ('circle', 'image', 'plain')),
    'exclude_mixed': (('circle', 'image', 'exclude'), ('circle', 'image', 'include_true'), ('circle', 'image', 'plain')),
    'all_excluded': (('circle', 'image', 'exclude'), ('ellipse', 'image', 'exclude')),
}


def all_records_ok(rs, spec, result):
    recs = records(result)
    if recs is None or len(recs) != len(rs):
        return False
    ok = True
    for i in range(len(rs)):
        kind, frame, voc = spec[i]
        ok = ok and recs[i]['frame'] == frame
        ok = ok and text_equal(recs[i]['shape'], region_text(kind, rs[i], 8, frame != 'image'))
        ok = ok and recs[i]['meta'] == expected_props(kind, dict(rs[i].meta), dict(rs[i].visual), rs[i].text if kind == 'text' else None)
    return ok


@contract('regions/io/ds9/write.py::_serialize_ds9', props=['C09', 'C13'])
class ds9_lists_hoisting_and_frames:
    cases = {k: {'which': k} for k in LISTS}

    def setup(B, which='same_meta_same_frame'):
        rs = []
        for i, (kind, frame, voc) in enumerate(LISTS[which]):
            m, v = copy_vocab(VOCAB[voc])
            rs.append(mk(B, kind, 'r%d' % i, frame, m, v))
        return dict(rs=rs, which=which)
    call = lambda rs: serialize(rs, 8)
    post = {
        'every_region_keeps_its_frame_shape_and_effective_properties': lambda rs, which, result: all_records_ok(rs, LISTS[which], result),
    }


def compound_of(B, name):
    c1, c2 = mk(B, 'circle', name + '.a', 'image'), mk(B, 'circle', name + '.b', 'image')
    return B.new(COMPOUND, label=name, region1=c1, region2=c2, _operator=operator_of('or_'), meta=B.meta(META, name + '.meta'),
                 visual=B.meta(VISUAL, name + '.visual'))


def with_warnings(fn):
    import warnings
    with warnings.catch_warnings(record=True) as w:
        warnings.simplefilter('always')
        out = fn()
    return out, len(w)


@contract('regions/io/ds9/write.py::_serialize_ds9', props=['C09', 'C14'])
class ds9_inexpressible_regions_are_skipped:
    # DS9's `ecliptic` is one particular ecliptic system; a region in any other one has no DS9 name (writing its numbers under
    # `ecliptic` would put it elsewhere on the sky)
    FRAMES_WITHOUT_NAME = {'frame_without_ds9_name': 'supergalactic', 'geocentric_ecliptic': 'geocentrictrueecliptic',
                           'heliocentric_ecliptic': 'heliocentrictrueecliptic', 'mean_geocentric_ecliptic': 'geocentricmeanecliptic'}
    cases = {w + '@%d' % i: {'what': w, 'at': i} for w in ('compound', 'sky_compound') + tuple(FRAMES_WITHOUT_NAME) for i in (0, 1, 2)}

    def setup(B, what='compound', at=0):
        good = [mk(B, 'circle', 'g0', 'image', {'text': 'a'}), mk(B, 'ellipse', 'g1', 'fk5')]
        if what == 'compound':
            bad = compound_of(B, 'bad')
        elif what == 'sky_compound':
            bad = mk(B, 'circle', 'bad1', 'fk5') | mk(B, 'circle', 'bad2', 'fk5')       # a compound of sky regions is as inexpressible as one of pixel regions
        else:
            bad = mk(B, 'circle', 'bad', ds9_inexpressible_regions_are_skipped.FRAMES_WITHOUT_NAME[what])
        rs = good[:at] + [bad] + good[at:]
        return dict(rs=rs, good=good)
    call = lambda rs, good: (serialize(rs, 8), serialize(good, 8))
    post = {
        'output_is_that_of_the_other_regions': lambda result: text_equal(result[0], result[1]),
    }


@contract('regions/io/ds9/write.py::_serialize_ds9', props=['C09'])
class ds9_empty_and_determinism:
    def setup(B):
        return dict(r=mk(B, 'ellipse', 'r', 'fk5', {'text': 'a', 'tag': ['t']}, {'color': 'red'}))
    call = lambda r: (serialize([], 8), serialize([r], 8), serialize([r], 8))
    post = {'empty_list_gives_empty_text': lambda result: result[0] == '',
            'deterministic': lambda result: text_equal(result[1], result[2])}


def _regular_polygon(B, name, n):
    from contracts.common import pix, mk_meta, mk_visual
    rad = B.real(name + '.radius')
    B.assume(rad > 0)
    return B.construct('regions/shapes/polygon.py::RegularPolygonPixelRegion', name, pix(B, name + '.center'), n, rad,
                       angle=B.quantity(name + '.angle', 'deg'), meta=mk_meta(B, name + '.meta'), visual=mk_visual(B, name + '.visual'))


@contract('regions/io/ds9/write.py::_serialize_ds9', props=['C09'])
class ds9_regular_polygon_is_written_as_its_polygon:
    """DS9 has no regular-polygon shape: the text is that of the equivalent generic polygon, at the precision asked for"""
    cases = {f'{n}-p{p}': {'n': n, 'prec': p} for n in (3, 5) for p in (3, 8, 12)}

    def setup(B, n=3, prec=8):
        return dict(r=_regular_polygon(B, 'r', n), prec=prec)
    call = lambda r, prec: (serialize([r], prec), serialize([r.to_polygon()], prec))
    post = {'same_text_as_the_polygon': lambda result: text_equal(result[0], result[1])}
