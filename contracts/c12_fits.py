"""C12: FITS region tables.  The real serialiser output (a table model: column name -> per-row values) is read back by the real
parser: same classes, identical geometry, exclude flag ('!' prefix) and component numbers; the row encoding follows the FITS
region convention (shape names, semi-axes for ellipses, rotation angle column)."""
from pyvc.api import contract
from contracts.common import (PIXCOORD, META, VISUAL, CIRCLE, ELLIPSE, RECTANGLE, POLYGON, POINT, LINE, TEXT, CIRCLE_ANN,
                              ELLIPSE_ANN, RECT_ANN, COMPOUND, pix)
from contracts.c09_ds9 import mk, compound_of
from contracts.c16_values import PARAMS
from vprim import implies, arr_at, shape_of, is_array

FITS_NAME = {'point': 'point', 'circle': 'circle', 'ellipse': 'ellipse', 'circle_annulus': 'annulus', 'ellipse_annulus': 'elliptannulus',
             'rectangle': 'rotbox', 'polygon': 'polygon'}
KINDS = ('point', 'circle', 'ellipse', 'circle_annulus', 'ellipse_annulus', 'rectangle')
INCLUDES = {'absent': None, 'true': True, 'false': False, 'one': 1, 'zero': 0}


def region(B, kind, name, inc='absent', comp=None):
    m = {}
    if INCLUDES[inc] is not None:
        m['include'] = INCLUDES[inc]
    if comp is not None:
        m['component'] = comp
    if kind == 'polygon':
        verts = B.new(PIXCOORD, label=name + '.vertices', x=B.call(np_array(), [B.real(name + '.x%d' % i) for i in range(3)]),
                      y=B.call(np_array(), [B.real(name + '.y%d' % i) for i in range(3)]))
        return B.new(POLYGON, label=name, vertices=verts, _vertices=verts, meta=B.meta(META, name + '.meta', m), visual=B.meta(VISUAL, name + '.visual'))
    return mk(B, kind, name, 'image', m)


def np_array():
    import numpy as np
    return np.array


def wf(kind, r):
    from contracts.c16_values import wf as wf16
    return wf16(kind, r)


def serialize(regions):
    from regions.io.fits.write import _serialize_fits
    return _serialize_fits(regions)


def parse(table):
    from regions.io.fits.read import parse_table
    return parse_table(table)


def excluded(r):
    return not bool(r.meta.get('include', True))


def same_geometry(kind, a, b):
    ok = a.__class__ is b.__class__
    for name in PARAMS[kind]:
        va, vb = getattr(a, name), getattr(b, name)
        if name == 'center':
            ok = ok and va.x == vb.x and va.y == vb.y
        elif name == 'vertices':
            ok = ok and len(va.x) == len(vb.x)
            for i in range(3):
                ok = ok and arr_at(va.x, i) == arr_at(vb.x, i) and arr_at(va.y, i) == arr_at(vb.y, i)
        elif name == 'angle':
            ok = ok and va.to_value('rad') == vb.to_value('rad')
        else:
            ok = ok and va == vb
    return ok


def row_shape(table, i):
    return table['SHAPE'][i]


@contract('regions/io/fits/write.py::_serialize_fits', props=['C12', 'C13'])
class fits_single_region_roundtrip:
    cases = {k + '-' + i + '-' + c: {'kind': k, 'inc': i, 'comp': c} for k in KINDS + ('polygon',) for i in INCLUDES for c in ('none', 'given', 'zero')
             if i in ('absent', 'false', 'zero') or (k == 'circle')}

    def setup(B, kind='circle', inc='absent', comp='none'):
        return dict(r=region(B, kind, 'r', inc, {'given': 7, 'zero': 0}.get(comp)), kind=kind, comp=comp)
    pre = lambda r, kind: wf(kind, r)
    call = lambda r: (serialize([r]), parse(serialize([r])))
    post = {
        'shape_name_with_exclusion_prefix': lambda r, kind, result:
            row_shape(result[0], 0) == ('!' if excluded(r) else '') + FITS_NAME[kind],
        'one_region_same_class_and_geometry': lambda r, kind, result: len(result[1]) == 1 and same_geometry(kind, r, result[1][0]),
        'exclude_flag_kept': lambda r, result: excluded(result[1][0]) == excluded(r),
        'component_kept_or_absent': lambda r, comp, result:
            ('component' not in result[1][0].meta) if comp == 'none' else (result[1][0].meta.get('component', None) == (7 if comp == 'given' else 0)),
    }


LISTS = {
    'circle_ellipse': ('circle', 'ellipse'),
    'point_circle_annulus': ('point', 'circle', 'circle_annulus'),
    'ellipse_annulus_rectangle_circle': ('ellipse_annulus', 'rectangle', 'circle'),
    'polygon_circle': ('polygon', 'circle'),
    'excluded_mix': ('circle', 'ellipse', 'rectangle'),
}


@contract('regions/io/fits/write.py::_serialize_fits', props=['C12', 'C13'])
class fits_lists_padding_and_components:
    cases = {k + '-' + c: {'which': k, 'comps': c} for k in LISTS for c in ('none', 'all', 'partial')}

    def setup(B, which='circle_ellipse', comps='none'):
        rs = []
        for i, kind in enumerate(LISTS[which]):
            comp = None
            if comps == 'all' or (comps == 'partial' and i == 1):
                comp = 5 + 2 * i
            r = region(B, kind, 'r%d' % i, 'false' if (which == 'excluded_mix' and i != 1) else 'absent', comp)
            if hasattr(r, 'angle') and i >= 1:
                r.__dict__['angle'] = B.quantity('r%d.angle' % i, 'rad')         # lists may mix angular units
            rs.append(r)
        return dict(rs=rs, which=which, comps=comps)
    pre = lambda rs, which: all(wf(LISTS[which][i], rs[i]) for i in range(len(rs)))
    call = lambda rs: parse(serialize(rs))
    post = {
        'every_region_read_back': lambda rs, which, result: len(result) == len(rs) and all(
            same_geometry(LISTS[which][i], rs[i], result[i]) and excluded(rs[i]) == excluded(result[i]) for i in range(len(rs))),
        'given_components_kept': lambda rs, result: all(
            ('component' not in rs[i].meta) or result[i].meta.get('component', None) == rs[i].meta['component'] for i in range(len(rs))),
        'fresh_components_distinct': lambda rs, comps, result: comps == 'none' or all_distinct([r.meta.get('component', None) for r in result]),
        'no_component_column_when_none_given': lambda comps, result: comps != 'none' or all('component' not in r.meta for r in result),
    }


def all_distinct(vals):
    for i in range(len(vals)):
        if vals[i] is None:
            return False
        for j in range(i):
            if vals[i] == vals[j]:
                return False
    return True


@contract('regions/io/fits/write.py::_serialize_fits', props=['C12', 'C14'])
class fits_unsupported_regions_are_skipped:
    cases = {w + '@%d' % i: {'what': w, 'at': i} for w in ('sky', 'line', 'text', 'rectangle_annulus', 'compound') for i in (0, 1, 2)}

    def setup(B, what='sky', at=0):
        good = [region(B, 'circle', 'g0'), region(B, 'ellipse', 'g1', 'false')]
        if what == 'sky':
            bad = mk(B, 'circle', 'bad', 'fk5')
        elif what == 'compound':
            bad = compound_of(B, 'bad')
        else:
            bad = mk(B, what, 'bad', 'image')
        return dict(rs=good[:at] + [bad] + good[at:], good=good)
    pre = lambda good: wf('circle', good[0]) and wf('ellipse', good[1])
    call = lambda rs, good: (parse(serialize(rs)), parse(serialize(good)))
    post = {'rows_of_the_other_regions_unchanged': lambda result: len(result[0]) == len(result[1]) and all(
        result[0][i] == result[1][i] for i in range(len(result[1])))}


@contract('regions/io/fits/write.py::_serialize_fits', props=['C12'])
class fits_regular_polygon_as_polygon:
    def setup(B):
        from contracts.common import REGPOLYGON
        import astropy.units as u
        rad = B.real('rad')
        B.assume(rad > 0)
        return dict(r=B.construct(REGPOLYGON, 'r', pix(B, 'c'), 5, rad, B.quantity('a', 'deg')))
    call = lambda r: parse(serialize([r]))
    post = {'read_back_as_polygon_with_same_vertices': lambda r, result: len(result) == 1 and result[0].__class__.__name__ == 'PolygonPixelRegion'
            and all(arr_at(result[0].vertices.x, i) == arr_at(r.vertices.x, i) and arr_at(result[0].vertices.y, i) == arr_at(r.vertices.y, i)
                    for i in range(5))}
