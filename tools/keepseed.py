#!/usr/bin/env python3
"""keepseed.py <prop> <variant> [<patch path>]: confirm a seeded change in a scratch worktree of /repo HEAD and store it under /verif/seeded/<prop>-<variant>/
 confirms: patch applies; suite result equals the baseline counts; demo exits 0 without and non-zero with the change"""
import json, os, re, shutil, subprocess, sys, tempfile
prop, var = sys.argv[1], sys.argv[2]
src = f"{os.environ.get('SEEDOUT', '/tmp/seedout')}/{prop}/{var}"
patch = sys.argv[3] if len(sys.argv) > 3 else f'{src}/patch.diff'
out = f"/verif/seeded/{prop}-{os.environ.get('OUTVAR', var)}"
wt = tempfile.mkdtemp(prefix='keepseed_', dir='/tmp')
os.rmdir(wt)
def sh(cmd, cwd=None, timeout=1200):
    p = subprocess.run(cmd, shell=True, cwd=cwd, capture_output=True, text=True, timeout=timeout)
    return p.returncode, p.stdout + p.stderr
meta = {'property': prop, 'variant': os.environ.get('OUTVAR', var)}
try:
    rc, o = sh(f'/verif/tools/mkworktree.sh {wt}')
    assert rc == 0, o
    rc, o = sh(f'/venv/bin/python {src}/demo.py', cwd=wt)
    meta['demo_without_change_exit'] = rc
    rc, o = sh(f'git apply {patch}', cwd=wt)
    meta['patch_applies'] = rc == 0
    if rc != 0:
        meta['apply_error'] = o[-500:]
    else:
        rc, o = sh(f'/venv/bin/python {src}/demo.py', cwd=wt)
        meta['demo_with_change_exit'] = rc
        meta['demo_with_change_tail'] = o[-600:]
        rc, o = sh('/venv/bin/python -m pytest -q -p no:cacheprovider --continue-on-collection-errors 2>&1 | tail -1', cwd=wt)
        m = re.sub(r'\x1b\[[0-9;]*m', '', o).strip()
        meta['suite_with_change'] = m
        meta['suite_same_as_baseline'] = all(x in m for x in ('6 failed', '1010 passed', '2 errors'))
    ok = meta.get('patch_applies') and meta.get('demo_without_change_exit') == 0 and meta.get('demo_with_change_exit', 0) != 0 and meta.get('suite_same_as_baseline')
    meta['confirmed'] = bool(ok)
    if ok:
        os.makedirs(out, exist_ok=True)
        shutil.copy(patch, f'{out}/patch.diff')
        shutil.copy(f'{src}/demo.py', f'{out}/demo.py')
        notes = open(f'{src}/notes.txt').read() if os.path.exists(f'{src}/notes.txt') else ''
        meta['needs_to_manifest'] = notes[:1500]
        meta['ran'] = ['git apply patch.diff in a scratch worktree of /repo HEAD', 'demo.py without/with the change', 'full test suite with the change']
        json.dump(meta, open(f'{out}/meta.json', 'w'), indent=1)
finally:
    sh(f'git -C /repo worktree remove --force {wt}')
    sh('git -C /repo worktree prune')
print(json.dumps({k: v for k, v in meta.items() if k not in ('needs_to_manifest', 'demo_with_change_tail')}))
