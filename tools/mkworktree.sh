#!/bin/sh
# usage: mkworktree.sh <dir>  -- scratch worktree of /repo HEAD (+ current build outputs), outside /repo and /verif
set -e
d="$1"
git -C /repo worktree add --detach -f "$d" HEAD >/dev/null 2>&1
(cd /repo && for f in regions/_geometry/*.so regions/version.py regions/compiler_version*.so; do [ -e "$f" ] && cp -p "$f" "$d/$f"; done; true)
echo "$d"
