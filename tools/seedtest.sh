#!/bin/sh
# usage: seedtest.sh <patch.diff> <prop> [more props]  -- apply a seeded change to /repo, run the checks, undo it straight afterwards
p="$1"; shift
cd /repo && git apply "$p" || { echo "PATCH DOES NOT APPLY"; exit 9; }
for prop in "$@"; do (cd /verif && ./check $prop quick 2>&1 | grep -v "^UNDECIDED" | tail -4 | cut -c1-260; echo "exit=$?"); done
cd /repo && git checkout -- . && git status --short | head -3
