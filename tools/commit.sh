#!/bin/sh
# commit /verif only with evidence written by a completely quiet run of every check on the unchanged tree
cd /verif
out=$(tools/runall.sh 2>&1)
echo "$out" | grep -v "rc=0" 
if echo "$out" | grep -q "rc=[1-9]\|MISMATCH\|has uncommitted"; then echo "NOT COMMITTED"; exit 1; fi
git add -A && git commit -q -m "$1" && git log --oneline | head -1
