#!/bin/sh
# engine self-test: true_* contracts must verify completely; false_* contracts must not (violated, or reported as vacuous/error)
cd /verif
out=$(VERIF_REPO=/verif python3-vt pyvc/dev.py selftest.contracts SELF 2>&1)
python3-vt - "$out" <<'PY'
import re, sys
out = sys.argv[1]
names = sorted(set(re.findall(r'\b((?:true|false)_\w+)', out)))
bad = 0
for n in names:
    lines = [l for l in out.splitlines() if re.search(r'^(VIOLATED|UNDECIDED|ERROR) ' + n + r'\b', l)]
    viol = [l for l in lines if l.startswith(('VIOLATED', 'ERROR'))]
    und = [l for l in lines if l.startswith('UNDECIDED')]
    if n.startswith('true_'):
        ok = not lines
    else:
        ok = bool(viol)
    print(('ok   ' if ok else 'FAIL ') + n + (f'  ({len(viol)} violated/error, {len(und)} undecided)' if lines else ''))
    bad += not ok
if not names:
    print('no contracts ran:\n' + out[-1500:]); bad = 1
sys.exit(1 if bad else 0)
PY
