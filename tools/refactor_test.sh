#!/bin/sh
# usage: refactor_test.sh <file> <python-regex> <replacement> <prop> [prop...] : apply a (supposedly harmless) edit to a scratch copy and run checks
f="$1"; pat="$2"; rep="$3"; shift 3
S=$(mktemp -d /tmp/refrepo_XXXX); O=$(mktemp -d /tmp/refout_XXXX)
rsync -a --exclude .git /repo/ $S/
python3 - "$S/$f" "$pat" "$rep" <<'PY'
import re,sys
p,pat,rep=sys.argv[1:4]; s=open(p).read()
assert re.search(pat,s,re.S), 'pattern not found'
open(p,'w').write(re.sub(pat,rep,s,count=1,flags=re.S))
PY
[ $? -ne 0 ] && { rm -rf $S $O; exit 1; }
(cd $S && /venv/bin/python -c "import sys; sys.path.insert(0,'.'); import regions" ) || echo "IMPORT FAILS"
for p in "$@"; do (cd /verif && VERIF_REPO=$S VERIF_OUT=$O ./check $p quick 2>&1 | grep -v "^KNOWN" | tail -3 | cut -c1-220); done
rm -rf $S $O
