#!/usr/bin/env python3-vt
"""stability.py <Cxx> [...]: which obligations of a property are fragile?  Every obligation's SMT query is dumped (VERIF_DUMP_SMT) by a
normal quick run on a scratch output directory; queries that take more than 0.3 s with the default seed are solved again with four other
random seeds and a shuffled assertion order.  Reported: queries for which some variant needs > 15 s through the checker's solver ladder or stays undecided - these are
the ones to restructure (lemma steps, `general` lemmas) before they flip a verdict on a loaded machine."""
import glob, os, random, subprocess, sys, tempfile, time
from multiprocessing import Pool
import z3


def solve(args):
    """the checker's own ladder (pyvc.vc._solve) on the query with another seed and assertion order"""
    f, seed, shuffle, tmo = args
    sys.path.insert(0, '/verif')
    from pyvc.vc import _solve
    ctx = z3.Context()
    s0 = z3.Solver(ctx=ctx)
    s0.from_string(open(f).read())
    asserts = list(s0.assertions())
    if shuffle:
        random.Random(seed).shuffle(asserts)
    s = z3.Solver(ctx=ctx)
    s.add(*asserts)
    t = time.time()
    if not shuffle:
        s.set('timeout', tmo)
        r = str(s.check())
        return f, seed, r, time.time() - t
    idx, status, tt, model, backend, reason = _solve((0, s.to_smt2(), tmo, seed))
    return f, seed, ('unknown' if status not in ('unsat', 'sat') else status), time.time() - t


def main():
    for prop in sys.argv[1:]:
        d = tempfile.mkdtemp(prefix=f'stab_{prop}_', dir='/tmp')
        o = tempfile.mkdtemp(prefix='stabout_', dir='/tmp')
        subprocess.run(['./check', prop, 'quick'], cwd='/verif', env=dict(os.environ, VERIF_DUMP_SMT=d, VERIF_OUT=o), capture_output=True)
        files = [f for f in glob.glob(d + '/*.smt2') if not os.path.basename(f)[0].isdigit()]     # named dumps (one per obligation)
        with Pool(12) as pool:
            first = pool.map(solve, [(f, 0, False, 5000) for f in files], chunksize=4)
            slowish = [f for f, _, r, t in first if t > 0.3 or r == 'unknown']
            jobs = [(f, sd, True, 45000) for f in slowish for sd in (11, 22, 33)]
            res = pool.map(solve, jobs, chunksize=1)
        worst = {}
        for f, sd, r, t in res:
            w = worst.setdefault(f, [0.0, 0, []])
            w[0] = max(w[0], t)
            w[1] += r == 'unknown'
            w[2].append(round(t, 1))
        frag = sorted(((w[1], w[0], os.path.basename(f)[:150], w[2]) for f, w in worst.items() if w[0] > 15 or w[1]), reverse=True)
        print(f'{prop}: {len(files)} queries, {len(slowish)} above 0.3 s, {len(frag)} fragile')
        for unk, mx, name, ts in frag[:25]:
            print(f'   unknown={unk} max={mx:.1f}s {ts} {name}')
        subprocess.run(['rm', '-rf', d, o])


if __name__ == '__main__':
    main()
