#!/bin/sh
# run every registered check on the unchanged tree (refreshes evidence/), report anything that is not a quiet exit 0
cd /verif
git -C /repo status --short | grep -q . && { echo "/repo has uncommitted changes"; exit 9; }
for p in $(python3 -c "import json;print(' '.join(c['property_id'] for c in json.load(open('MANIFEST.json'))['checks']))"); do
  out=$(./check $p ${1:-quick} 2>&1); rc=$?
  echo "$out" | tail -1 | sed "s/^/[rc=$rc] /"
  [ $rc -ne 0 ] && echo "$out" | grep -v "^KNOWN" | tail -5
done
st=$(tools/selftest.sh 2>&1); src=$?
echo "[rc=$src] engine self-test: $(echo "$st" | grep -c '^ok') ok, $(echo "$st" | grep -c '^FAIL') failed"
[ $src -ne 0 ] && echo "$st" | grep -v '^ok'
python3-vt - <<'PY'
import json,jsonschema,glob
sch=json.load(open('/root/.vp/EVIDENCE.schema.json'))
for f in sorted(glob.glob('/verif/evidence/*.json')):
    d=json.load(open(f)); jsonschema.validate(d,sch)
    c=d['coverage']
    if d['level']=='proof' and c['obligations']!=c['discharged']: print('EVIDENCE MISMATCH', f, c['obligations'], c['discharged'])
jsonschema.validate(json.load(open('/verif/MANIFEST.json')), json.load(open('/root/.vp/MANIFEST.schema.json')))
print('evidence + manifest valid')
PY
