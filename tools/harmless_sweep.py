#!/usr/bin/env python3
"""harmless_sweep.py [ids...]: behaviour-preserving refactors of /repo (harmless/<id>/patch.diff, written by independent sub-agents,
suite unchanged, outputs bit-identical on their equivalence programs) must leave the property's check quiet: exit 0, no VIOLATION,
nothing undecided.  Runs on a scratch copy (VERIF_REPO), never touching /repo or the evidence."""
import json, os, shutil, subprocess, sys, tempfile
ids = sys.argv[1:] or sorted(os.listdir('/verif/harmless'))
scratch = tempfile.mkdtemp(prefix='harmrepo_', dir='/tmp')
outdir = tempfile.mkdtemp(prefix='harmout_', dir='/tmp')
bad = 0
try:
    for hid in ids:
        d = f'/verif/harmless/{hid}'
        prop = hid.split('-')[0]
        subprocess.run(f'rsync -a --delete --exclude .git /repo/ {scratch}/', shell=True, check=True)
        p = subprocess.run(f'patch -p1 -s < {d}/patch.diff', shell=True, cwd=scratch, capture_output=True, text=True)
        if p.returncode != 0:
            print(hid, 'PATCH FAILED'); bad += 1; continue
        env = dict(os.environ, VERIF_REPO=scratch, VERIF_OUT=outdir)
        r = subprocess.run(['./check', prop, 'quick'], cwd='/verif', capture_output=True, text=True, env=env, timeout=3600)
        last = r.stdout.strip().splitlines()[-1] if r.stdout.strip() else ''
        ok = r.returncode == 0 and 'VIOLATION' not in r.stdout
        bad += not ok
        json.dump({'check': f'./check {prop} quick on a scratch copy with the refactor applied', 'exit': r.returncode, 'summary': last},
                  open(f'{d}/result.json', 'w'), indent=1)
        print(hid, 'quiet' if ok else 'ALARM', r.returncode, last, flush=True)
finally:
    shutil.rmtree(scratch, ignore_errors=True)
    shutil.rmtree(outdir, ignore_errors=True)
sys.exit(1 if bad else 0)
