#!/bin/sh
# usage: mut.sh <file-relative-to-repo> <python-regex> <replacement> <contracts module> <prop> [contract names...]
# applies one textual mutation to a scratch copy of /repo and runs the dev driver on it
set -e
f="$1"; pat="$2"; rep="$3"; mod="$4"; prop="$5"; shift 5
rm -rf /tmp/mutrepo; mkdir -p /tmp/mutrepo; rsync -a --exclude .git /repo/ /tmp/mutrepo/
python3 - "$f" "$pat" "$rep" <<'PY'
import re,sys
f,pat,rep=sys.argv[1:4]
p='/tmp/mutrepo/'+f; s=open(p).read()
n=len(re.findall(pat,s)); assert n>=1, 'pattern not found'
s=re.sub(pat,rep,s,count=1); open(p,'w').write(s); print('mutated',f,'(',n,'matches, first replaced)')
PY
cd /verif && VERIF_REPO=/tmp/mutrepo python3-vt pyvc/dev.py "$mod" "$prop" "$@" 2>&1 | grep -v "obligations,\|vcgen" | cut -c1-400
rm -rf /tmp/mutrepo
