#!/bin/sh
# kernel_mutants.sh: deliberately broken kernel texts against the kernel proofs (contracts/k_kernels.py), each on a scratch copy of
# /repo (the .so files cannot be rebuilt here, so these never run; the proofs read the .pyx text).  Every mutant must fail an obligation
# (violated or, for the nonlinear ones, undecided) - a mutant that still verifies means a vacuous or too weak kernel contract.
cd /verif
bad=0
run() {   # file  sed-expression  property  contract
  S=$(mktemp -d /tmp/kmut_XXXX); rsync -a --exclude .git /repo/ $S/
  sed -i "$2" $S/$1
  if diff -q /repo/$1 $S/$1 >/dev/null; then echo "NO-OP   $1 :: $2"; bad=1; rm -rf $S; return; fi
  r=$(VERIF_REPO=$S python3-vt pyvc/dev.py contracts.k_kernels $3 $4 2>&1 | tail -1)
  case "$r" in *violated*|*undecided*) echo "killed  $4 :: $2 :: $r" ;; *) echo "SURVIVED $4 :: $2 :: $r"; bad=1 ;; esac
  rm -rf $S
}
P=regions/_geometry
run $P/pnpoly.pyx 's/result += 1/result += 2/' C01 kernel_point_in_polygon
run $P/pnpoly.pyx 's/if(((vy\[i\] > y) != (vy\[j\] > y))/if(((vy[i] >= y) != (vy[j] > y))/' C01 kernel_point_in_polygon
run $P/pnpoly.pyx 's/return result % 2/return result/' C01 kernel_point_in_polygon
run $P/pnpoly.pyx 's/(x < (vx\[j\]/(x <= (vx[j]/' C01 kernel_point_in_polygon
run $P/pnpoly.pyx 's/(y - vy\[i\]) \/ (vy\[j\] - vy\[i\])/(y - vy[j]) \/ (vy[j] - vy[i])/' C01 kernel_point_in_polygon
run $P/rectangular_overlap.pyx 's/                frac += 1\./                frac += 2./' C02 kernel_rectangle_subpixel
run $P/rectangular_overlap.pyx 's/if fabs(x_tr) < half_width and/if fabs(x_tr) <= half_width and/' C02 kernel_rectangle_subpixel
run $P/rectangular_overlap.pyx 's/    x = x0 - 0.5 \* dx/    x = x0 - 0.4 * dx/' C02 kernel_rectangle_subpixel
run $P/rectangular_overlap.pyx 's/return frac \/ (subpixels \* subpixels)/return frac \/ subpixels/' C02 kernel_rectangle_subpixel
run $P/rectangular_overlap.pyx 's/            pymin = ymin + j \* dy/            pymin = ymin + i * dy/' C02 kernel_rectangle_grid
run $P/rectangular_overlap.pyx 's/            frac\[j, i\] = rectangular/            frac[i, j] = rectangular/' C02 kernel_rectangle_grid
run $P/rectangular_overlap.pyx 's/    dx = (xmax - xmin) \/ nx/    dx = (xmax - xmin) \/ ny/' C02 kernel_rectangle_grid
run $P/elliptical_overlap.pyx 's/inv_rx_sq = 1\. \/ (rx \* rx)/inv_rx_sq = 1. \/ (rx * ry)/' C02 kernel_ellipse_subpixel
run $P/elliptical_overlap.pyx 's/    r = max(rx, ry)/    r = min(rx, ry)/' C02 kernel_ellipse_grid_is_the_sampled_fraction_everywhere
run $P/elliptical_overlap.pyx 's/    bxmax = +r + 0.5 \* dx/    bxmax = +r - 1.5 * dx/' C02 kernel_ellipse_grid_is_the_sampled_fraction_everywhere
run $P/circular_overlap.pyx 's/if d < r - pixel_radius:/if d < r:/' C02 kernel_circle_grid_is_the_sampled_fraction_everywhere
run $P/circular_overlap.pyx 's/elif d < r + pixel_radius:/elif d < r:/' C02 kernel_circle_grid_is_the_sampled_fraction_everywhere
run $P/polygonal_overlap.pyx 's/    bxmin = vx.min()/    bxmin = vx.max()/' C02 kernel_polygon_grid_is_the_sampled_fraction_everywhere
run $P/polygonal_overlap.pyx 's/            if point_in_polygon(x, y, vx, vy) == 1:/            if point_in_polygon(x, y, vx, vy) == 0:/' C02 kernel_polygon_subpixel
exit $bad
