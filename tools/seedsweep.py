#!/usr/bin/env python3
"""seedsweep.py [ids...]: run each kept seeded change against its property's check on a scratch copy of /repo
(VERIF_REPO), never touching /repo or the real evidence; records what caught it in seeded/<id>/meta.json"""
import json, os, re, shutil, subprocess, sys, tempfile
ids = sys.argv[1:] or sorted(os.listdir('/verif/seeded'))
scratch = tempfile.mkdtemp(prefix='sweeprepo_', dir='/tmp')
outdir = tempfile.mkdtemp(prefix='sweepout_', dir='/tmp')
summary = []
try:
    for sid in ids:
        d = f'/verif/seeded/{sid}'
        if not os.path.exists(f'{d}/patch.diff'):
            continue
        prop = sid.split('-')[0]
        subprocess.run(f'rsync -a --delete --exclude .git /repo/ {scratch}/', shell=True, check=True)
        p = subprocess.run(f'patch -p1 -s < {d}/patch.diff', shell=True, cwd=scratch, capture_output=True, text=True)
        if p.returncode != 0:
            summary.append((sid, 'PATCH FAILED')); continue
        env = dict(os.environ, VERIF_REPO=scratch, VERIF_OUT=outdir, VERIF_TIMEOUT_MS='8000')      # detection needs no long proofs
        r = subprocess.run(['./check', prop, 'quick'], cwd='/verif', capture_output=True, text=True, env=env, timeout=1800)
        lines = [l for l in r.stdout.splitlines() if l.startswith('VIOLATION')]
        ev = {}
        try:
            ev = json.load(open(f'{outdir}/evidence/{prop}.json'))
        except Exception:
            pass
        failed = [s['obligation'] for s in ev.get('coverage', {}).get('samples', []) if s.get('status') == 'violated'][:6]
        meta = json.load(open(f'{d}/meta.json'))
        meta['check_run'] = {'cmd': f'VERIF_REPO=<scratch copy with patch.diff applied> ./check {prop} quick', 'exit': r.returncode,
                             'violation_lines': len(lines), 'replayed_natively': sum(1 for l in lines if 'no-failing-input-found' not in l),
                             'bounded_violations': sum(1 for l in lines if '-bounded-' in l), 'failed_obligations': failed,
                             'summary': r.stdout.strip().splitlines()[-1] if r.stdout.strip() else ''}
        json.dump(meta, open(f'{d}/meta.json', 'w'), indent=1)
        summary.append((sid, r.returncode, len(lines), failed[:1]))
        print(sid, r.returncode, len(lines), failed[:1], flush=True)
finally:
    shutil.rmtree(scratch, ignore_errors=True)
    shutil.rmtree(outdir, ignore_errors=True)
