#!/bin/sh
# usage: seedtest2.sh <patch.diff> <prop> [more props]  -- like seedtest.sh but on a scratch copy of /repo (VERIF_REPO), so /repo and
# the evidence directory are never touched and background runs that read /repo are not disturbed
p="$1"; shift
S=$(mktemp -d /tmp/seedrepo_XXXX); O=$(mktemp -d /tmp/seedout_XXXX)
rsync -a --exclude .git /repo/ $S/
(cd $S && patch -p1 -s < "$p") || { echo "PATCH DOES NOT APPLY"; rm -rf $S $O; exit 9; }
for prop in "$@"; do (cd /verif && VERIF_REPO=$S VERIF_OUT=$O ./check $prop quick 2>&1 | grep -v "^KNOWN" | grep "VIOLATION\|UNDECIDED\|CHECKER-ERROR\|quick:" | tail -${TAILN:-3} | cut -c1-260); done
rm -rf $S $O
