"""small functions for the engine's self-test (never part of astropy/regions): each has a true and a false contract"""
import numpy as np


def sum_to(n):
    s = 0
    for i in range(n):
        s += i
    return s


def count_pos(a):
    c = 0
    for k in range(len(a)):
        if a[k] > 0:
            c += 1
    return c


def guarded(x, d):
    return d != 0 and x / d > 1


def rot_back(x, y, t):
    c, s = np.cos(t), np.sin(t)
    u, v = c * x - s * y, s * x + c * y
    c2, s2 = np.cos(-t), np.sin(-t)
    return c2 * u - s2 * v, s2 * u + c2 * v


def any_positive(a):
    return bool(np.any(a > 0))


def prev_index(i, n):
    return (i + n - 1) % n


def bigger(p, q):
    return p if p > q else q


def quarter_turns(angle):
    return angle % 90 == 0


from contextlib import contextmanager


@contextmanager
def _bracket(log, name):
    log.append('enter ' + name)
    try:
        yield len(log)
    finally:
        log.append('exit ' + name)


def with_generator_context(x):
    log = []
    with _bracket(log, 'a') as n:
        log.append('body %d' % n)
        if x > 0:
            return log
        log.append('tail')
    log.append('after')
    return log


def mark_if_empty(a, p, q):
    b = a * 1.0
    if not b.any():
        b[p, q] = 1.0
    return b
