"""engine self-test: every contract whose name starts with `true_` must be discharged completely, every `false_` one must have at
least one violated obligation (a false contract that verifies means the engine proves too much)"""
from pyvc.api import contract
from vprim import uf, fact, implies, lemma, general

T = 'selftest/code.py::'


def tri(k):
    """0 + 1 + ... + (k - 1) by its defining recursion"""
    t = uf('tri', 'int', k)
    fact(uf('tri', 'int', 0) == 0)
    if not (isinstance(k, int) and k <= 0):
        fact(implies(k >= 1, t == uf('tri', 'int', k - 1) + (k - 1)))
    return t


@contract(T + 'sum_to', props=['SELF'])
class true_loop_invariant:
    def setup(B):
        return dict(n=B.int('n'))
    loops = {'sum_to#0': lambda i, s: s == tri(i)}
    post = {'sum': lambda n, result: result == tri(n if n > 0 else 0)}


@contract(T + 'sum_to', props=['SELF'])
class false_loop_invariant_not_inductive:
    def setup(B):
        return dict(n=B.int('n'))
    loops = {'sum_to#0': lambda i, s: s == tri(i) + i}
    post = {'sum': lambda n, result: result >= 0}


@contract(T + 'sum_to', props=['SELF'])
class false_post_not_implied_by_invariant:
    def setup(B):
        return dict(n=B.int('n'))
    loops = {'sum_to#0': lambda i, s: s >= 0}
    post = {'sum': lambda n, result: result == tri(n if n > 0 else 0)}


@contract(T + 'sum_to', props=['SELF'])
class false_lemma_cannot_prove_itself:
    def setup(B):
        return dict(n=B.int('n'))
    loops = {'sum_to#0': lambda i, s: lemma('wishful', s == 7) and s == tri(i)}
    post = {'sum': lambda n, result: True}


@contract(T + 'guarded', props=['SELF'])
class true_unreachable_operand_is_skipped:
    def setup(B):
        return dict(x=B.real('x'), d=B.real('d'))
    post = {'meaning': lambda x, d, result: bool(result) == (d != 0 and ((d > 0 and x > d) or (d < 0 and x < d)))}


@contract(T + 'guarded', props=['SELF'])
class false_guard_ignored:
    def setup(B):
        return dict(x=B.real('x'), d=B.real('d'))
    post = {'meaning': lambda x, d, result: bool(result) == (x > d)}


@contract(T + 'rot_back', props=['SELF'])
class true_rotation_by_opposite_angles_cancels:
    def setup(B):
        return dict(x=B.real('x'), y=B.real('y'), t=B.real('t'))
    post = {'back': lambda x, y, result: result[0] == x and result[1] == y}


@contract(T + 'rot_back', props=['SELF'])
class false_rotation_is_identity:
    def setup(B):
        return dict(x=B.real('x'), y=B.real('y'), t=B.real('t'))
    call = lambda x, y, t: __import__('numpy').cos(t) * x
    post = {'identity': lambda x, result: result == x}


@contract(T + 'any_positive', props=['SELF'])
class true_any_over_two_dimensions:
    forall = {'I': 'int', 'J': 'int'}

    def setup(B):
        return dict(a=B.array('a', (B.int('n'), B.int('m'))))
    post = {'witnessed': lambda a, result, I, J: (not (0 <= I and I < a.shape[0] and 0 <= J and J < a.shape[1] and a[I, J] > 0)) or result}


@contract(T + 'any_positive', props=['SELF'])
class false_any_is_always_true:
    def setup(B):
        return dict(a=B.array('a', (B.int('n'), B.int('m'))))
    post = {'always': lambda result: result}


@contract(T + 'prev_index', props=['SELF'])
class true_cyclic_predecessor:
    def setup(B):
        return dict(i=B.int('i'), n=B.int('n'))
    pre = lambda i, n: 0 <= i and i < n
    post = {'value': lambda i, n, result: result == (i - 1 if i >= 1 else n - 1)}


@contract(T + 'prev_index', props=['SELF'])
class false_cyclic_predecessor_is_i_minus_one:
    def setup(B):
        return dict(i=B.int('i'), n=B.int('n'))
    pre = lambda i, n: 0 <= i and i < n
    post = {'value': lambda i, result: result == i - 1}


@contract(T + 'bigger', props=['SELF'])
class true_lexicographic_maximum:
    def setup(B):
        return dict(p=(B.int('a'), B.int('b')), q=(B.int('c'), B.int('d')))
    post = {'is_max': lambda p, q, result: (result == p or result == q) and (result[0] > p[0] or (result[0] == p[0] and result[1] >= p[1]))
            and (result[0] > q[0] or (result[0] == q[0] and result[1] >= q[1]))}


@contract(T + 'bigger', props=['SELF'])
class false_componentwise_maximum:
    def setup(B):
        return dict(p=(B.int('a'), B.int('b')), q=(B.int('c'), B.int('d')))
    post = {'is_max': lambda p, q, result: result[1] >= p[1] and result[1] >= q[1]}


@contract(T + 'count_pos', props=['SELF'])
class false_contradictory_fact_must_not_pass_silently:
    """a model that states a contradictory 'fact' makes everything provable: the vacuity guard has to report it"""
    def setup(B):
        fact(B.int('z') > B.int('z'))
        return dict(a=B.array('a', (3,)))
    post = {'anything': lambda result: result == 42}


@contract(T + 'quarter_turns', props=['SELF'])
class true_real_modulo_is_the_floor_remainder:
    cases = {'k=' + str(k): {'k': k} for k in (-3, 0, 2)}

    def setup(B, k=0):
        return dict(angle=B.real('t'), k=k)
    post = {'multiples': lambda angle, k, result: angle != 90 * k or result,
            'between': lambda angle, k, result: not (90 * k < angle and angle < 90 * k + 90) or not result}


@contract(T + 'quarter_turns', props=['SELF'])
class false_real_modulo_never_zero:
    def setup(B):
        return dict(angle=B.real('t'))
    post = {'never': lambda result: not result}


@contract(T + 'with_generator_context', props=['SELF'])
class true_generator_context_manager_brackets_the_body:
    cases = {'return_inside': {'x': 1}, 'falls_through': {'x': 0}}

    def setup(B, x=0):
        return dict(x=x)
    post = {'order': lambda x, result: list(result) == (['enter a', 'body 1', 'exit a'] if x > 0 else ['enter a', 'body 1', 'tail', 'exit a', 'after'])}


@contract(T + 'with_generator_context', props=['SELF'])
class false_generator_context_manager_skips_its_exit:
    def setup(B):
        return dict(x=1)
    post = {'order': lambda result: list(result) == ['enter a', 'body 1']}


@contract(T + 'mark_if_empty', props=['SELF'])
class false_conditional_store_goes_unnoticed:
    """a store into an array under `not a.any()` must be visible in the result"""
    def setup(B):
        return dict(a=B.array('a', (B.int('n'), B.int('m'))), p=B.int('p'), q=B.int('q'))
    pre = lambda a, p, q: 0 <= p and p < a.shape[0] and 0 <= q and q < a.shape[1]
    forall = {'i': 'int', 'j': 'int'}
    post = {'unchanged': lambda a, result, i, j: not (0 <= i and i < a.shape[0] and 0 <= j and j < a.shape[1]) or result[i, j] == a[i, j]}


@contract(T + 'mark_if_empty', props=['SELF'])
class true_conditional_store_is_seen:
    def setup(B):
        return dict(a=B.array('a', (B.int('n'), B.int('m'))), p=B.int('p'), q=B.int('q'))
    pre = lambda a, p, q: 0 <= p and p < a.shape[0] and 0 <= q and q < a.shape[1]
    forall = {'i': 'int', 'j': 'int'}
    post = {'never_empty': lambda a, p, q, result: bool(result.any())}
