"""bounded conformance check of the ASSUMED contracts of astropy (externals/units.py, externals/coordinates.py) against the real
library: the interpreted-Python models the verifier reasons with are imported natively (same source text) and run side by side
with astropy on seeded inputs - unit table (physical type, scale to radian), Quantity construction / conversion / arithmetic /
comparison / errors, Angle construction from numbers, quantities and the text notations the DS9 and CRTF readers hand over,
SkyCoord construction / renderings / shape predicates - and the statements of A-WCS checked as properties of real WCS objects.
What it can show: a model statement that real astropy contradicts on a sampled input (then proofs resting on it are void).
What it cannot show: that the models are right for all inputs - they stay assumptions (A-UNITS), listed in the evidence.
bound: seeded values x units x notations; distinct = (operation, unit pair / notation)."""
import sys
from common import *  # noqa: F401,F403
sys.path.insert(0, os.path.join(os.path.dirname(os.path.dirname(os.path.abspath(__file__))), 'pyvc', 'native'))
import externals.units as mu  # noqa: E402
import types  # noqa: E402


def _load_coordinates_model():
    """externals/coordinates.py with its two `astropy.units` imports bound to the units MODEL, as the verifier's module map binds them
    (natively they would bind to the real astropy and the model would not be the thing tested)"""
    path = os.path.join(os.path.dirname(os.path.dirname(os.path.abspath(__file__))), 'externals', 'coordinates.py')
    src = open(path).read()
    assert 'import astropy.units as u\n' in src and 'from astropy.units import Quantity\n' in src
    src = src.replace('import astropy.units as u\n', 'import externals.units as u\n', 1).replace(
        'from astropy.units import Quantity\n', 'from externals.units import Quantity\n', 1)
    mod = types.ModuleType('externals_coordinates_model')
    exec(compile(src, path, 'exec'), mod.__dict__)
    return mod


mc = _load_coordinates_model()
from astropy.coordinates import Angle  # noqa: E402
import re  # noqa: E402
import vprim  # noqa: E402  (the native one: pyvc/native/vprim.py)


def _tokenise(text):
    """a concrete text as the pieces the verifier sees for a symbolic one: numerals become ('num', value, None, 'exact') pieces,
    so that the natively running model takes the same branch as under the verifier"""
    if not isinstance(text, str):
        return [text]
    out = []
    for tok in re.findall(r'[0-9]+(?:\.[0-9]*)?|[^0-9]+', text):
        out.append(('num', float(tok), None, 'exact', 1 if '.' in tok else 0) if tok[0].isdigit() else tok)
    return out


vprim.fmt_pieces = _tokenise

ANGLE_UNITS = ('deg', 'rad', 'arcmin', 'arcsec', 'hourangle', 'mas')
OTHER_UNITS = ('pix', '', 'sr')


def rel_close(a, b, tol=4e-15):
    a, b = float(a), float(b)
    if a != a or b != b:
        return a != a and b != b
    if abs(a) == float('inf') or abs(b) == float('inf'):
        return a == b
    return abs(a - b) <= tol * max(abs(a), abs(b), 1e-300)


def outcome(fn):
    try:
        return ('ok', fn())
    except Exception as e:          # noqa: BLE001
        return ('raise', e)


def kinds(e):
    """the exception classes a caller can catch, by name, restricted to what the code under verification distinguishes"""
    names = {c.__name__ for c in type(e).__mro__}
    return {n for n in names if n in ('ValueError', 'TypeError', 'UnitsError', 'UnitConversionError', 'UnitTypeError')}


def same_outcome(res, what, m, r, value_of_m, value_of_r, desc, tol=4e-15):
    if m[0] == 'raise' and type(m[1]).__name__ == 'NotImplementedError':
        return          # outside the model's stated domain: the verifier reports such paths as undecided, never as proved
    if m[0] != r[0]:
        return res.violation(f'{what}: model {"raises " + type(m[1]).__name__ if m[0] == "raise" else "returns"}, '
                             f'astropy {"raises " + type(r[1]).__name__ + ": " + str(r[1])[:80] if r[0] == "raise" else "returns"}', case=desc)
    if m[0] == 'raise':
        km, kr = kinds(m[1]), kinds(r[1])
        if not (km & kr) and (km or kr):
            return res.violation(f'{what}: model raises {type(m[1]).__name__} {sorted(km)}, astropy raises {type(r[1]).__name__} {sorted(kr)}', case=desc)
        return
    a, b = value_of_m(m[1]), value_of_r(r[1])
    if isinstance(a, str) and isinstance(b, str) and a != b:
        # renderings: same layout (everything but the digits) and numerals equal up to the rounding of the unit conversion (A-REAL)
        na, nb = re.findall(r'-?[0-9]+(?:\.[0-9]*)?', a), re.findall(r'-?[0-9]+(?:\.[0-9]*)?', b)
        if re.sub(r'[0-9]', '9', a) == re.sub(r'[0-9]', '9', b) and len(na) == len(nb) and all(rel_close(x, y, 1e-13) for x, y in zip(na, nb)):
            return
    if isinstance(a, (bool, str)) or isinstance(b, (bool, str)) or a is None or b is None:
        if a != b:
            return res.violation(f'{what}: model gives {a!r}, astropy gives {b!r}', case=desc)
    elif not rel_close(a, b, tol):
        return res.violation(f'{what}: model gives {a!r}, astropy gives {b!r}', case=desc)


def check_units(res):
    for name in sorted(mu._UNITS):
        res.case(('unit', name))
        m = mu._as_unit(name)
        r = u.Unit(name) if name else u.dimensionless_unscaled
        if m.physical_type != 'unknown' and m.physical_type != str(r.physical_type):
            res.violation(f'physical type of unit {name!r}: model {m.physical_type!r}, astropy {str(r.physical_type)!r}', case=name)
        if m.dims == (1, 0):
            if not rel_close(float(mu.Quantity(1.0, m).to_value('rad')), (1.0 * r).to_value(u.rad)):
                res.violation(f'scale of unit {name!r} to radian differs', case=name)
    for a in sorted(mu._UNITS):
        for b in sorted(mu._UNITS):
            ra, rb = (u.Unit(a) if a else u.dimensionless_unscaled), (u.Unit(b) if b else u.dimensionless_unscaled)
            res.case(('unit==', a, b))
            if (mu._as_unit(a) == mu._as_unit(b)) != (ra == rb):
                res.violation(f'unit equality {a!r} == {b!r}: model {mu._as_unit(a) == mu._as_unit(b)}, astropy {ra == rb}', case=(a, b))


def check_equivalence(res):
    """Unit.is_equivalent honours the equivalencies enabled process-wide (the model: an uninterpreted boolean); physical_type does not"""
    names = sorted(n for n in mu._UNITS if n not in ('GHz', 'km', 's', 'm'))
    for enabled in (False, True):
        vprim.UF_MODEL = {'astropy_dimensionless_angles_enabled': {'entries': [], 'else': enabled}}
        ctx = u.set_enabled_equivalencies(u.dimensionless_angles() if enabled else [])
        with ctx:
            for a in names:
                for b in names:
                    res.case(('is_equivalent', enabled, a, b))
                    same_outcome(res, f'Unit({a!r}).is_equivalent({b!r}) with dimensionless_angles {"enabled" if enabled else "not enabled"}',
                                 outcome(lambda: bool(mu._as_unit(a).is_equivalent(mu._as_unit(b)))), outcome(lambda: bool(runit(a).is_equivalent(runit(b)))),
                                 bool, bool, (enabled, a, b))
                pt = str(runit(a).physical_type)
                if mu._as_unit(a).physical_type != 'unknown' and mu._as_unit(a).physical_type != pt:
                    res.violation(f'physical_type of {a!r} under enabled={enabled}: model {mu._as_unit(a).physical_type!r}, astropy {pt!r}')
    vprim.UF_MODEL = {}


def runit(name):
    return u.Unit(name) if name else u.dimensionless_unscaled


def check_quantities(res, rng, n):
    special = (0.0, -0.0, 1.0, -1.0, 90.0, 1e-12, 1e12, float('inf'), float('nan'))
    for k in range(n):
        v = special[k] if k < len(special) else rng.uniform(-1, 1) * 10 ** rng.randint(-6, 6)
        w = rng.uniform(-1, 1) * 10 ** rng.randint(-3, 3)
        for ua in ANGLE_UNITS + OTHER_UNITS:
            for ub in ANGLE_UNITS + OTHER_UNITS:
                desc = (v, ua, w, ub)
                mq, rq = mu.Quantity(v, ua), u.Quantity(v, runit(ua))
                mw, rw = mu.Quantity(w, ub), u.Quantity(w, runit(ub))
                val = lambda q: q.value
                res.case(('to', ua, ub))
                same_outcome(res, f'Quantity({v!r}, {ua!r}).to({ub!r}).value', outcome(lambda: mq.to(ub)), outcome(lambda: rq.to(runit(ub))), val, val, desc)
                same_outcome(res, f'Quantity({v!r}, {ua!r}).to_value({ub!r})', outcome(lambda: mq.to_value(ub)), outcome(lambda: rq.to_value(runit(ub))),
                             float, float, desc)
                res.case(('+', ua, ub))
                same_outcome(res, f'({v!r} {ua}) + ({w!r} {ub}) in the unit of the left operand', outcome(lambda: mq + mw), outcome(lambda: rq + rw), val, val, desc, 1e-13)
                same_outcome(res, f'unit of ({v!r} {ua}) - ({w!r} {ub})', outcome(lambda: (mq - mw).unit.name), outcome(lambda: str((rq - rw).unit)),
                             lambda s: s, lambda s: {'': ''}.get(s, s), desc)
                res.case(('<', ua, ub))
                for opn, op in (('<', lambda a, b: a < b), ('<=', lambda a, b: a <= b), ('>', lambda a, b: a > b), ('>=', lambda a, b: a >= b)):
                    m, r = outcome(lambda: op(mq, mw)), outcome(lambda: op(rq, rw))
                    # values equal up to conversion rounding are not decided by the model's exact arithmetic: skip ties
                    if m[0] == 'ok' and r[0] == 'ok' and rel_close(float(mq.si), float(mw.si), 1e-12):
                        continue
                    same_outcome(res, f'({v!r} {ua}) {opn} ({w!r} {ub})', m, r, bool, bool, desc)
                res.case(('==', ua, ub))
                m, r = outcome(lambda: mq == mw), outcome(lambda: rq == rw)
                if not (m[0] == 'ok' and r[0] == 'ok' and rel_close(float(mq.si), float(mw.si), 1e-12) and float(mq.si) != 0):
                    same_outcome(res, f'({v!r} {ua}) == ({w!r} {ub})', m, r, bool, bool, desc)
            # one-operand operations
            desc = (v, ua)
            res.case(('unary', ua))
            same_outcome(res, f'float(Quantity({v!r}, {ua!r}))', outcome(lambda: float(mq)), outcome(lambda: float(rq)), float, float, desc)
            same_outcome(res, f'Quantity({v!r}, {ua!r}) > 0', outcome(lambda: mq > 0), outcome(lambda: rq > 0), bool, bool, desc)
            same_outcome(res, f'-Quantity({v!r}, {ua!r})', outcome(lambda: -mq), outcome(lambda: -rq), val, val, desc)
            same_outcome(res, f'abs(Quantity({v!r}, {ua!r}))', outcome(lambda: abs(mq)), outcome(lambda: abs(rq)), val, val, desc)
            same_outcome(res, f'Quantity({v!r}, {ua!r}) * 2.5', outcome(lambda: mq * 2.5), outcome(lambda: rq * 2.5), val, val, desc)
            same_outcome(res, f'Quantity({v!r}, {ua!r}) / 4', outcome(lambda: mq / 4), outcome(lambda: rq / 4), val, val, desc)
            same_outcome(res, f'Quantity({v!r}, {ua!r}).isscalar', outcome(lambda: mq.isscalar), outcome(lambda: rq.isscalar), bool, bool, desc)
            same_outcome(res, f'physical type of Quantity(.., {ua!r})', outcome(lambda: mq.unit.physical_type), outcome(lambda: str(rq.unit.physical_type)),
                         str, str, desc)
            same_outcome(res, f'Angle(Quantity({v!r}, {ua!r}))', outcome(lambda: mc.Angle(mq)), outcome(lambda: Angle(rq)), val, val, desc)


def num(rng, dots):
    """numerals around the field limits of sexagesimal notation as well (24, 60)"""
    if dots:
        return rng.choice((f'{rng.uniform(0, 75):.{rng.randint(1, 6)}f}', '60.0', '59.999', '60.5', '0.0'))
    return str(rng.choice((rng.randint(0, 75), 24, 25, 59, 60, 61, 0, 23)))


def check_angle_texts(res, rng, n):
    """the notations the DS9 / CRTF lexers hand to Angle: value in radians must agree"""
    rad = lambda q: q.to_value('rad') if not hasattr(q, 'radian') else q.radian
    for k in range(n):
        a, b, c, v = num(rng, 0), num(rng, 0), num(rng, 1), num(rng, k % 2)
        for sign in ('', '-', '+'):
            texts = [(f'{sign}{v}', 'deg'), (f'{sign}{v}', 'rad'), (f'{sign}{v}', 'hourangle'), (f'{sign}{v}', 'hour'), (f'{sign}{v}', None),
                     (f'{sign}{a}:{b}:{c}', 'deg'), (f'{sign}{a}:{b}:{c}', 'hourangle'), (f'{sign}{a}:{b}:{c}', 'hour'), (f'{sign}{a}:{b}:{c}', None),
                     (f'{sign}{a}h{b}m{c}s', None), (f'{sign}{a}d{b}m{c}s', None), (f'{sign}{a}h{b}m{c}s', 'deg'),
                     (f'{sign}{v}deg', None), (f'{sign}{v}rad', None), (f'{sign}{v}arcmin', None), (f'{sign}{v}arcsec', None),
                     (f'{sign}{v}deg', 'deg'), (f'{sign}{v}rad', 'deg'), (f'{sign}{c}:{b}:{c}', 'deg'), (f'{sign}{a}:{c}:{c}', 'hourangle')]
            for text, unit in texts:
                res.case(('Angle-text', text.translate(str.maketrans('0123456789', '9' * 10)), unit))
                ru = None if unit is None else (u.hour if unit == 'hour' else u.Unit(unit))
                mun = None if unit is None else (mu.hour if unit == 'hour' else unit)
                m = outcome(lambda: mc.Angle(text, mun) if mun is not None else mc.Angle(text))
                r = outcome(lambda: Angle(text, ru) if ru is not None else Angle(text))
                if m[0] == 'raise' and type(m[1]).__name__ in ('NotImplementedError', 'Unsupported'):
                    continue            # outside the model: the verifier reports such paths as undecided, never as proved
                same_outcome(res, f'Angle({text!r}, {unit!r}) in radians', m, r, lambda q: float(q.to_value('rad')), lambda q: float(q.radian), (text, unit), 1e-14)


def check_skycoord(res, rng, n):
    """SkyCoord / Angle / Quantity as the writers and validators use them, inside the type invariant of a celestial position
    (longitude in [0, 360) deg, latitude in [-90, 90] deg: outside it astropy wraps / refuses, which the model does not describe)"""
    for k in range(n):
        lon, lat = rng.uniform(0, 359.999), rng.uniform(-90, 90)
        if k == 0:
            lon, lat = 0.0, -90.0
        for frame in ('icrs', 'fk5', 'fk4', 'galactic'):
            for ul in ('deg', 'rad', 'arcmin'):
                desc = (lon, lat, frame, ul)
                res.case(('SkyCoord', frame, ul))
                mlon, mlat = mu.Quantity(lon, 'deg').to(ul), mu.Quantity(lat, 'deg').to(ul)
                rlon, rlat = (lon * u.deg).to(u.Unit(ul)), (lat * u.deg).to(u.Unit(ul))
                m = outcome(lambda: mc.SkyCoord(mlon, mlat, frame=frame))
                r = outcome(lambda: SkyCoord(rlon, rlat, frame=frame))
                same_outcome(res, 'SkyCoord(lon, lat, frame).spherical.lon in rad', m, r, lambda c: float(c.spherical.lon.to_value('rad')),
                             lambda c: float(c.spherical.lon.rad), desc, 1e-14)
                same_outcome(res, 'SkyCoord(lon, lat, frame).spherical.lat in rad', m, r, lambda c: float(c.spherical.lat.to_value('rad')),
                             lambda c: float(c.spherical.lat.rad), desc, 1e-14)
                same_outcome(res, 'SkyCoord.frame.name', m, r, lambda c: c.frame.name, lambda c: c.frame.name, desc)
                same_outcome(res, 'SkyCoord.isscalar', m, r, lambda c: bool(c.isscalar), lambda c: bool(c.isscalar), desc)
                if m[0] == 'ok' and r[0] == 'ok':
                    for prec in (0, 3, 6, 10):
                        res.case(('to_string', prec))
                        same_outcome(res, f'SkyCoord.to_string("decimal", precision={prec})', outcome(lambda: m[1].to_string('decimal', precision=prec)),
                                     outcome(lambda: r[1].to_string('decimal', precision=prec)), str, str, desc)
                    other_m, other_r = mc.SkyCoord(mlon, mlat, frame='galactic'), SkyCoord(rlon, rlat, frame='galactic')
                    same_outcome(res, 'SkyCoord == SkyCoord of another / the same frame', outcome(lambda: bool(m[1] == other_m)),
                                 outcome(lambda: bool(r[1] == other_r)), bool, bool, desc)
        # text renderings used by the serialisers
        v = rng.uniform(-400, 400)
        for ua in ANGLE_UNITS[:4]:
            for ub in ANGLE_UNITS[:4]:
                for prec in (0, 2, 6, 9):
                    res.case(('Angle.to_string', ua, ub, prec))
                    same_outcome(res, f'Angle({v!r}, {ua!r}).to_string(unit={ub!r}, decimal=True, precision={prec})',
                                 outcome(lambda: mc.Angle(v, ua).to_string(unit=ub, decimal=True, precision=prec)),
                                 outcome(lambda: Angle(v, u.Unit(ua)).to_string(unit=u.Unit(ub), decimal=True, precision=prec)), str, str, (v, ua, ub, prec))
                    same_outcome(res, f'Quantity({v!r}, {ua!r}).to_string(unit={ub!r}, precision={prec})',
                                 outcome(lambda: mu.Quantity(v, ua).to_string(unit=ub, precision=prec)),
                                 outcome(lambda: u.Quantity(v, u.Unit(ua)).to_string(unit=u.Unit(ub), precision=prec)), str, str, (v, ua, ub, prec))
    # a reshaped scalar is a view: converting the view in place rescales the buffer the scalar still holds in its own unit
    for ua in ANGLE_UNITS[:4]:
        for ub in ANGLE_UNITS[:4]:
            res.case(('view <<=', ua, ub))
            v = rng.uniform(0.1, 9)
            mq, rq = mu.Quantity(v, ua), u.Quantity(v, u.Unit(ua))
            mv, rv = mq._np_atleast_1d(), np.atleast_1d(rq)
            mv <<= ub
            rv <<= u.Unit(ub)
            same_outcome(res, f'value of a {ua} scalar after np.atleast_1d(scalar) <<= {ub}', ('ok', mq.value), ('ok', float(rq.value)), float, float, (v, ua, ub), 1e-13)
            same_outcome(res, 'its unit', ('ok', mq.unit.name), ('ok', str(rq.unit)), str, str, (v, ua, ub))
            same_outcome(res, 'value of the view', ('ok', float(np.asarray(mv.value).ravel()[0])), ('ok', float(rv.value[0])), float, float, (v, ua, ub), 1e-13)
    # vectors: shape predicates the validators rely on
    for shape in ((3,), (2, 3), (1,), (0,)):
        res.case(('shape', shape))
        arr = np.arange(int(np.prod(shape)), dtype=float).reshape(shape)
        mq, rq = mu.Quantity(arr, 'deg'), u.Quantity(arr, u.deg)
        for what, f in (('isscalar', lambda q: bool(q.isscalar)), ('ndim', lambda q: int(q.ndim)), ('shape', lambda q: str(tuple(q.shape))),
                        ('size', lambda q: int(q.size)), ('len', lambda q: len(q))):
            same_outcome(res, f'Quantity(array{shape}).{what}', outcome(lambda: f(mq)), outcome(lambda: f(rq)), lambda x: x, lambda x: x, shape)
        mcd, rcd = outcome(lambda: mc.SkyCoord(mq, mq, frame='icrs')), outcome(lambda: SkyCoord(rq, rq, frame='icrs'))
        for what, f in (('isscalar', lambda c: bool(c.isscalar)), ('ndim', lambda c: int(c.ndim)), ('shape', lambda c: str(tuple(c.shape)))):
            same_outcome(res, f'SkyCoord(array{shape}).{what}', outcome(lambda: f(mcd[1])), outcome(lambda: f(rcd[1])), lambda x: x, lambda x: x, shape)


def check_wcs(res, rng, n):
    """A-WCS (externals/wcs_model.py, wcs_utils.py) states, about a celestial WCS: pixel->world and world->pixel are inverse to each
    other for equal (origin, mode); origin 1 is origin 0 shifted by one pixel; the world side is expressed in the WCS's own frame and
    positions given in another frame are transformed into it first.  Checked here as properties of real astropy WCS objects."""
    from astropy.wcs import WCS
    from astropy.wcs.utils import pixel_to_skycoord, skycoord_to_pixel, wcs_to_celestial_frame
    for k in range(n):
        proj = ('TAN', 'SIN', 'STG', 'ZEA', 'CAR', 'ARC')[k % 6]
        ctype = (('RA---', 'DEC--'), ('GLON-', 'GLAT-'))[(k // 6) % 2]
        w = WCS(naxis=2)
        w.wcs.ctype = [ctype[0] + proj, ctype[1] + proj]
        w.wcs.crval = [rng.uniform(5, 355), rng.uniform(-70, 70)]
        w.wcs.crpix = [rng.uniform(-100, 400), rng.uniform(-100, 400)]
        th, sc = rng.uniform(0, 6.283), 10 ** rng.uniform(-5, -3)
        w.wcs.cd = [[-sc * math.cos(th), sc * math.sin(th)], [sc * math.sin(th), sc * math.cos(th)]]
        if ctype[0] == 'RA---' and k % 3 == 0:
            w.wcs.radesys = 'FK5'
            w.wcs.equinox = 2000.0
        fname = wcs_to_celestial_frame(w).name
        for _ in range(6):
            x, y = w.wcs.crpix[0] + rng.uniform(-300, 300), w.wcs.crpix[1] + rng.uniform(-300, 300)
            for mode in ('all', 'wcs'):
                desc = (proj, ctype[0], fname, x, y, mode)
                res.case(('wcs', proj, fname, mode))
                c0 = pixel_to_skycoord(x, y, w, origin=0, mode=mode)
                c1 = pixel_to_skycoord(x + 1, y + 1, w, origin=1, mode=mode)
                if c0.frame.name != fname:
                    res.violation(f'pixel_to_skycoord returns frame {c0.frame.name}, the WCS frame is {fname}', case=desc)
                if c0.separation(c1).deg > 1e-10:
                    res.violation('origin=1 is not origin=0 shifted by one pixel', case=desc)
                for o in (0, 1):
                    bx, by = skycoord_to_pixel(pixel_to_skycoord(x, y, w, origin=o, mode=mode), w, origin=o, mode=mode)
                    if abs(float(bx) - x) > 1e-6 or abs(float(by) - y) > 1e-6:
                        res.violation(f'world->pixel does not invert pixel->world (origin={o}, mode={mode}): {(float(bx), float(by))} for {(x, y)}', case=desc)
                other = c0.transform_to('galactic' if fname != 'galactic' else 'icrs')
                bx, by = skycoord_to_pixel(other, w, origin=0, mode=mode)
                if abs(float(bx) - x) > 1e-6 or abs(float(by) - y) > 1e-6:
                    res.violation('a position given in another frame is not transformed into the WCS frame first', case=desc)
                lon, lat = rng.uniform(-0.02, 0.02), rng.uniform(-0.02, 0.02)
                c = SkyCoord((w.wcs.crval[0] + lon / max(0.2, math.cos(math.radians(w.wcs.crval[1])))) * u.deg, (w.wcs.crval[1] + lat) * u.deg, frame=fname)
                px, py = skycoord_to_pixel(c, w, origin=0, mode=mode)
                back = pixel_to_skycoord(px, py, w, origin=0, mode=mode)
                if back.separation(c).deg > 1e-9:
                    res.violation('pixel->world does not invert world->pixel', case=desc)


def main():
    prop, tier, seed, out = sys.argv[1], sys.argv[2], int(sys.argv[3]), sys.argv[4]
    rng = random.Random(seed)
    n = 14 if tier == 'quick' else 120
    res = Result('models', f'unit table; {n} seeded value pairs x {len(ANGLE_UNITS) + len(OTHER_UNITS)}^2 unit pairs; {n} seeded numerals x 3 signs x 18 '
                 f'Angle notations (seed {seed})',
                 'the assumed contracts externals/units.py and externals/coordinates.py (same source text the verifier interprets) executed natively '
                 'next to real astropy: same value (4e-15 relative; sums 1e-13) or the same catchable exception class for every sampled operation; '
                 'the statements of A-WCS (inverse maps per (origin, mode), origin shift, frame of the world side) as properties of real WCS objects')
    try:
        check_units(res)
        check_equivalence(res)
        check_quantities(res, rng, n)
        check_angle_texts(res, rng, n)
        check_skycoord(res, rng, max(3, n // 4))
        check_wcs(res, rng, max(12, n // 2))
    except Exception as e:          # noqa: BLE001
        import traceback
        res.violation(f'runner error {type(e).__name__}: {e}', trace=traceback.format_exc()[-800:])
    res.write(out)


if __name__ == '__main__':
    main()
