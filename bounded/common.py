"""shared by the bounded runners: deterministic enumeration of real regions, comparison helpers, result file"""
import itertools
import json
import math
import os
import random
import sys
import time
import warnings

REPO = os.environ.get('VERIF_REPO', '/repo')
sys.path[:0] = [REPO, os.path.dirname(os.path.dirname(os.path.abspath(__file__)))]
warnings.simplefilter('ignore')

import numpy as np  # noqa: E402
import astropy.units as u  # noqa: E402
from astropy.coordinates import SkyCoord  # noqa: E402
import regions  # noqa: E402
from regions import (CircleAnnulusPixelRegion, CircleAnnulusSkyRegion, CirclePixelRegion, CircleSkyRegion,  # noqa: E402
                     EllipseAnnulusPixelRegion, EllipseAnnulusSkyRegion, EllipsePixelRegion, EllipseSkyRegion,
                     LinePixelRegion, LineSkyRegion, PixCoord, PointPixelRegion, PointSkyRegion, PolygonPixelRegion,
                     PolygonSkyRegion, RectangleAnnulusPixelRegion, RectangleAnnulusSkyRegion, RectanglePixelRegion,
                     RectangleSkyRegion, RegionMeta, Regions, RegionVisual, RegularPolygonPixelRegion, TextPixelRegion,
                     TextSkyRegion)

assert os.path.abspath(regions.__file__).startswith(os.path.abspath(REPO)), regions.__file__

KINDS = ('circle', 'ellipse', 'rectangle', 'polygon', 'circle_annulus', 'ellipse_annulus', 'rectangle_annulus', 'line', 'point', 'text')
MAGS = (0.37, 12.5, 1234.5678)


def known_findings(prop):
    out = []
    p = os.path.join(os.path.dirname(os.path.dirname(os.path.abspath(__file__))), 'KNOWN_FINDINGS.jsonl')
    for line in open(p):
        line = line.strip()
        if line and not line.startswith('#'):
            d = json.loads(line)
            if d.get('property') == prop and not d.get('fixed') and d.get('bounded'):
                out.append(d)
    return out


def make_region(kind, frame, rng, mag=12.5, meta=None, visual=None, angle_unit='deg'):
    """a real region of the given kind in 'image' or a celestial frame; sizes scale with `mag`"""
    m = RegionMeta(meta or {})
    v = RegionVisual(visual or {})
    sk = frame != 'image'
    f = lambda: mag * (0.3 + rng.random())

    def P():
        if sk:
            return SkyCoord(rng.uniform(5, 355) * u.deg, rng.uniform(-80, 80) * u.deg, frame=frame)
        return PixCoord(rng.uniform(-3, 3) * mag, rng.uniform(-3, 3) * mag)

    def S(x):
        return x * u.arcsec if sk else x
    a = (rng.uniform(-170, 350) * u.deg).to(angle_unit)
    if kind == 'circle':
        return (CircleSkyRegion if sk else CirclePixelRegion)(P(), S(f()), meta=m, visual=v)
    if kind == 'ellipse':
        return (EllipseSkyRegion if sk else EllipsePixelRegion)(P(), S(f()), S(f()), a, meta=m, visual=v)
    if kind == 'rectangle':
        return (RectangleSkyRegion if sk else RectanglePixelRegion)(P(), S(f()), S(f()), a, meta=m, visual=v)
    if kind == 'polygon':
        n = rng.choice((3, 4, 7))
        if sk:
            c = SkyCoord([rng.uniform(5, 355) for _ in range(n)] * u.deg, [rng.uniform(-80, 80) for _ in range(n)] * u.deg, frame=frame)
            return PolygonSkyRegion(c, meta=m, visual=v)
        return PolygonPixelRegion(PixCoord([rng.uniform(-3, 3) * mag for _ in range(n)], [rng.uniform(-3, 3) * mag for _ in range(n)]), meta=m, visual=v)
    if kind == 'circle_annulus':
        r = f()
        return (CircleAnnulusSkyRegion if sk else CircleAnnulusPixelRegion)(P(), S(r), S(r * 1.7), meta=m, visual=v)
    if kind in ('ellipse_annulus', 'rectangle_annulus'):
        w, h = f(), f()
        cls = {('ellipse_annulus', True): EllipseAnnulusSkyRegion, ('ellipse_annulus', False): EllipseAnnulusPixelRegion,
               ('rectangle_annulus', True): RectangleAnnulusSkyRegion, ('rectangle_annulus', False): RectangleAnnulusPixelRegion}[(kind, sk)]
        return cls(P(), S(w), S(w * 1.6), S(h), S(h * 1.9), a, meta=m, visual=v)
    if kind == 'line':
        return (LineSkyRegion if sk else LinePixelRegion)(P(), P(), meta=m, visual=v)
    if kind == 'point':
        return (PointSkyRegion if sk else PointPixelRegion)(P(), meta=m, visual=v)
    if kind == 'text':
        return (TextSkyRegion if sk else TextPixelRegion)(P(), 'some text', meta=m, visual=v)
    raise ValueError(kind)


def val(x, unit=None):
    if hasattr(x, 'unit'):
        return float(x.to_value(unit or 'deg'))
    return float(x)


def coords(c):
    """flat list of comparable floats of a PixCoord / SkyCoord (degrees)"""
    if isinstance(c, PixCoord):
        return list(np.atleast_1d(c.x).astype(float)) + list(np.atleast_1d(c.y).astype(float)), False
    return list(np.atleast_1d(c.spherical.lon.deg)) + list(np.atleast_1d(c.spherical.lat.deg)), True


def geometry_diff(a, b, tol_pos, tol_size, tol_angle, axes_double=False):
    """None if the two regions have the same class and parameters within the tolerances, else a description"""
    if type(a) is not type(b):
        return f'class {type(a).__name__} != {type(b).__name__}'
    for name in a._params:
        va, vb = getattr(a, name), getattr(b, name)
        if isinstance(va, (PixCoord, SkyCoord)):
            ca, ska = coords(va)
            cb, skb = coords(vb)
            if ska and va.frame.name != vb.frame.name:
                return f'{name}: frame {va.frame.name} != {vb.frame.name}'
            if len(ca) != len(cb):
                return f'{name}: {len(ca) // 2} != {len(cb) // 2} points'
            for x, y in zip(ca, cb):
                d = abs(x - y)
                if ska:
                    d = min(d, 360 - d)
                if d > tol_pos:
                    return f'{name}: {x!r} vs {y!r} (tol {tol_pos})'
        elif name == 'angle':
            d = abs(val(va) - val(vb)) % 360
            if min(d, 360 - d) > tol_angle:
                return f'angle: {va} vs {vb}'
        elif name == 'text':
            if va != vb:
                return f'text: {va!r} vs {vb!r}'
        elif name in ('nvertices',):
            continue
        else:
            t = tol_size * (2 if axes_double else 1)
            if abs(val(va) - val(vb)) > t:
                return f'{name}: {va} vs {vb} (tol {t})'
    return None


class Result:
    def __init__(self, name, bound, rule):
        self.d = dict(name=name, bound=bound, rule=rule, evaluations=0, distinct_nontrivial=0, samples=[], violations=[], known=[])
        self.t0 = time.time()
        self.seen = set()

    def case(self, key, nontrivial=True, sample=None):
        self.d['evaluations'] += 1
        if nontrivial and key not in self.seen:
            self.seen.add(key)
            self.d['distinct_nontrivial'] += 1
        if sample is not None and len(self.d['samples']) < 6:
            self.d['samples'].append(sample)

    def violation(self, what, **detail):
        self.d['violations'].append(dict(what=what, **{k: repr(v)[:600] for k, v in detail.items()}))

    def known(self, fid, what):
        if not any(k['id'] == fid for k in self.d['known']):
            self.d['known'].append({'id': fid, 'what': what})

    def write(self, path):
        self.d['wall_s'] = round(time.time() - self.t0, 2)
        json.dump(self.d, open(path, 'w'), indent=1, default=repr)
