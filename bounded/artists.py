"""bounded run-time check of C18 against the REAL matplotlib (the verifier works with an assumed geometry of the patch constructors,
A-MPL; here the path that matplotlib actually builds is asked): for every pixel region kind, the path of `as_artist(origin)` -
transformed to data coordinates - contains `q - origin` exactly when the region contains q, for sample positions q that are not
within the curve tolerance of the boundary; annuli are one outer and one oppositely oriented inner outline; points / text sit at the
position minus the origin; lines run from start to end; caller keywords win over the stored visual.
bound: seeded regions x angles {0, 90, 180, 270, -90, 45, 360, seeded} in deg / rad / arcmin x origins {(0,0), (0,4), (3,0), seeded}
x 60 seeded positions per region."""
import sys
from common import *  # noqa: F401,F403
import matplotlib  # noqa: E402
matplotlib.use('Agg')
from matplotlib.colors import to_rgba  # noqa: E402
from matplotlib.path import Path  # noqa: E402

ANGLES = (0.0, 90.0, 180.0, 270.0, -90.0, 45.0, 360.0, None, None)
ORIGINS = ((0, 0), (0, 4), (3, 0), None)
PATCHES = ('circle', 'ellipse', 'rectangle', 'polygon', 'circle_annulus', 'ellipse_annulus', 'rectangle_annulus')


def region_of(kind, rng, mag, angle):
    vis = {'color': 'red', 'linewidth': 2}
    if kind != 'text':
        vis['fill'] = rng.random() < 0.5      # patches take the flag, points map it to a marker fill style; a Text artist has no such notion
    r = make_region(kind, 'image', rng, mag, {}, vis)
    if angle is not None and 'angle' in getattr(r, '_params', ()):
        unit = rng.choice((u.deg, u.rad, u.arcmin))
        r.angle = (angle * u.deg).to(unit)
    return r


def extent(r):
    b = r.bounding_box
    return b.ixmin - 1.0, b.ixmax + 1.0, b.iymin - 1.0, b.iymax + 1.0


def signed_area(verts):
    x, y = verts[:, 0], verts[:, 1]
    return 0.5 * float(np.sum(x * np.roll(y, -1) - np.roll(x, -1) * y))


def subpaths(path):
    out, cur = [], []
    codes = path.codes if path.codes is not None else [Path.MOVETO] + [Path.LINETO] * (len(path.vertices) - 1)
    for v, c in zip(path.vertices, codes):
        if c == Path.MOVETO and cur:
            out.append(np.array(cur))
            cur = []
        if c != Path.CLOSEPOLY:
            cur.append(v)
    if cur:
        out.append(np.array(cur))
    return out


def pieces(path):
    """the closed outlines of a (possibly compound) path, each as a Path of its own (codes kept, so curves stay curves)"""
    if path.codes is None:
        return [path]
    starts = [i for i, c in enumerate(path.codes) if c == Path.MOVETO] + [len(path.codes)]
    return [Path(path.vertices[a:b], path.codes[a:b]) for a, b in zip(starts, starts[1:]) if b - a > 1]


def check_patch(res, r, kind, origin, rng, desc):
    from matplotlib.transforms import Affine2D
    art = r.as_artist(origin=origin, edgecolor='blue', linewidth=5)
    x0, x1, y0, y1 = extent(r)
    size = max(x1 - x0, y1 - y0)
    # matplotlib flattens curves with a tolerance meant for display units: the path is first magnified (about its own middle) so that
    # the region spans ~1e4 units; Path.contains_point takes the union of the outlines of a compound path, so holes are decided here
    # by parity over the separate outlines (their opposite orientation, which is what makes the renderer leave a hole, is checked below)
    mid = ((x0 + x1) / 2 - origin[0], (y0 + y1) / 2 - origin[1])
    zoom = Affine2D().translate(-mid[0], -mid[1]).scale(1e4 / size)
    outlines = pieces(zoom.transform_path(art.get_patch_transform().transform_path(art.get_path())))

    class path:            # noqa: N801
        @staticmethod
        def contains_point(p):
            z = zoom.transform([p])[0]
            return sum(bool(o.contains_point(z)) for o in outlines) % 2 == 1
    eps = 2e-3 * size
    tested = 0
    for _ in range(60):
        qx, qy = rng.uniform(x0, x1), rng.uniform(y0, y1)
        ring = [(qx + eps * math.cos(t), qy + eps * math.sin(t)) for t in (0, 0.8, 1.6, 2.4, 3.2, 4.0, 4.8, 5.6)]
        c0 = bool(r.contains(PixCoord(qx, qy)))
        if any(bool(r.contains(PixCoord(a, b))) != c0 for a, b in ring):
            continue                      # within the curve-approximation tolerance of the boundary
        tested += 1
        inside = bool(path.contains_point((qx - origin[0], qy - origin[1])))
        if inside != c0:
            return res.violation(f'{type(art).__name__} path {"contains" if inside else "does not contain"} the position minus the origin '
                                 f'while the region {"contains" if c0 else "does not contain"} it', case=desc, region=str(r).replace('\n', ' '),
                                 origin=origin, position=(qx, qy))
    if kind.endswith('annulus'):
        sp = subpaths(art.get_path())
        if len(sp) != 2:
            return res.violation(f'annulus artist has {len(sp)} outlines, 2 expected', case=desc)
        a0, a1 = signed_area(sp[0]), signed_area(sp[1])
        if not (a0 * a1 < 0 and abs(a0) > abs(a1)):
            return res.violation(f'annulus outlines are not an outer one plus an oppositely oriented inner one (signed areas {a0:.4g}, {a1:.4g})',
                                 case=desc, region=str(r).replace('\n', ' '))
    if to_rgba(art.get_edgecolor()) != to_rgba('blue') or art.get_linewidth() != 5:
        return res.violation('caller keywords (edgecolor, linewidth) do not override the stored visual', case=desc)
    plain = r.as_artist(origin=origin)
    if to_rgba(plain.get_edgecolor()) != to_rgba('red') or plain.get_linewidth() != 2:
        return res.violation('stored visual attributes (color, linewidth) are not used when the caller gives none', case=desc)
    return tested


def close2(a, b, scale):
    return abs(float(a[0]) - float(b[0])) <= 1e-9 * scale and abs(float(a[1]) - float(b[1])) <= 1e-9 * scale


def check_other(res, r, kind, origin, desc, mag):
    scale = max(1.0, 10 * mag)
    if kind == 'point':
        art = r.as_artist(origin=origin, markersize=3)
        got = (art.get_xdata()[0], art.get_ydata()[0])
        if len(art.get_xdata()) != 1 or not close2(got, (r.center.x - origin[0], r.center.y - origin[1]), scale):
            return res.violation(f'point marker at {got}, position minus origin is {(r.center.x - origin[0], r.center.y - origin[1])}', case=desc)
        if art.get_markersize() != 3:
            return res.violation('caller keyword markersize does not override', case=desc)
    elif kind == 'text':
        art = r.as_artist(origin=origin, fontsize=7)
        got = art.get_position()
        if not close2(got, (r.center.x - origin[0], r.center.y - origin[1]), scale) or art.get_text() != r.text:
            return res.violation(f'text at {got}, position minus origin is {(r.center.x - origin[0], r.center.y - origin[1])}', case=desc, origin=origin)
        if art.get_fontsize() != 7:
            return res.violation('caller keyword fontsize does not override', case=desc)
    else:
        art = r.as_artist(origin=origin, linewidth=5)
        ends = art.get_patch_transform().transform([(0.0, 0.0), (1.0, 0.0)])
        want = ((r.start.x - origin[0], r.start.y - origin[1]), (r.end.x - origin[0], r.end.y - origin[1]))
        if not (close2(ends[0], want[0], scale) and close2(ends[1], want[1], scale)):
            return res.violation(f'line arrow runs from {tuple(ends[0])} to {tuple(ends[1])}, start/end minus origin are {want}', case=desc, origin=origin)
        if art.get_linewidth() != 5:
            return res.violation('caller keyword linewidth does not override', case=desc)


def main():
    prop, tier, seed, out = sys.argv[1], sys.argv[2], int(sys.argv[3]), sys.argv[4]
    rng = random.Random(seed)
    n = 1 if tier == 'quick' else 12
    res = Result('artists', f'{n} seeded regions per (kind, angle, origin): 10 pixel kinds x {len(ANGLES)} angles x {len(ORIGINS)} origins, '
                 f'60 positions each (seed {seed})',
                 'real matplotlib: transformed patch path contains (q - origin) iff region.contains(q) for positions away from the boundary by '
                 '0.2% of the extent; annulus = outer + oppositely oriented inner outline; point/text/line placement; keyword precedence')
    tested = 0
    for kind in KINDS:
        for ai, angle in enumerate(ANGLES):
            if kind in ('circle', 'polygon', 'circle_annulus', 'line', 'point', 'text') and ai not in (0, 7):
                continue
            for oi, origin in enumerate(ORIGINS):
                for k in range(n):
                    mag = (0.37, 12.5, 1234.5678)[(k + ai + oi) % 3]
                    o = origin if origin is not None else (rng.uniform(-5, 5) * mag, rng.uniform(-5, 5) * mag)
                    desc = (kind, angle, o, k)
                    res.case((kind, ai, oi))
                    try:
                        r = region_of(kind, rng, mag, angle)
                        if kind in PATCHES:
                            t = check_patch(res, r, kind, o, rng, desc)
                            tested += t if isinstance(t, int) else 0
                        else:
                            check_other(res, r, kind, o, desc, mag)
                    except Exception as e:
                        res.violation(f'{type(e).__name__}: {e}', case=desc)
    res.d['positions_compared'] = tested
    res.write(out)


if __name__ == '__main__':
    main()
