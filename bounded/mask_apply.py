"""bounded run-time check of C05 on machine values (the verifier's arrays hold reals; this runner adds NaN/inf pixels, dtypes and
Quantity images): to_image / cutout / multiply / get_values of RegionMask against explicit per-pixel placement loops, plus
"the input image is never modified" bit for bit.
bound: seeded boxes in every position relative to the image (inside, straddling each edge and corner, larger than the image,
touching, disjoint) x image kinds {float64 with NaN/inf pixels, float32, int32, float64 Quantity} x fill values {0, finite, nan, inf}
x user mask {absent, present}."""
import sys
from common import *  # noqa: F401,F403
from regions import RegionMask, RegionBoundingBox  # noqa: E402

KINDS_IMG = ('float64', 'float64-nonfinite', 'float32', 'int32', 'quantity')
FILLS = (0.0, 2.5, float('nan'), float('inf'))


F27 = ('cutout()/multiply() of an integer image with a fractional finite fill_value: the cutout is allocated with the image dtype, so pixels '
       'outside the image take int(fill_value) instead of fill_value (RegionMask(np.ones((2, 2)), RegionBoundingBox(-1, 1, 0, 2))'
       '.cutout(np.arange(9).reshape(3, 3), fill_value=2.5)[0, 0] == 2)')


def same(a, b):
    """value identity including units; nan equals nan"""
    ua, ub = getattr(a, 'unit', None), getattr(b, 'unit', None)
    fb0 = float(getattr(b, 'value', b))
    special = fb0 == 0 or fb0 != fb0 or abs(fb0) == float('inf')      # 0, nan, inf mean the same in any unit
    if ub is not None and ua != ub:
        return False
    if ub is None and ua is not None and not special:
        return False
    fa, fb = float(getattr(a, 'value', a)), float(getattr(b, 'value', b))
    return (fa != fa and fb != fb) or fa == fb


def snapshot(a):
    v = np.asarray(getattr(a, 'value', a))
    return (v.dtype.str, v.shape, v.tobytes(), str(getattr(a, 'unit', '')))


def make_image(rng, kind, ny, nx):
    vals = np.array([[rng.uniform(-5, 5) for _ in range(nx)] for _ in range(ny)]).reshape(ny, nx)
    if kind == 'float64':
        return vals
    if kind == 'float64-nonfinite':
        for _ in range(max(1, ny * nx // 3)):
            if ny and nx:
                vals[rng.randrange(ny), rng.randrange(nx)] = rng.choice((float('nan'), float('inf'), -float('inf')))
        return vals
    if kind == 'float32':
        return vals.astype('float32')
    if kind == 'int32':
        return np.round(vals * 10).astype('int32')
    return vals * u.Jy


def make_box(rng, k, ny, nx):
    h, w = rng.randint(1, 4), rng.randint(1, 4)
    pos = k % 9
    if pos == 0:      # inside (if it fits)
        x0, y0 = rng.randint(0, max(0, nx - w)), rng.randint(0, max(0, ny - h))
    elif pos == 1:    # left/bottom straddle
        x0, y0 = -rng.randint(1, w), -rng.randint(1, h)
    elif pos == 2:    # right/top straddle
        x0, y0 = nx - rng.randint(0, w), ny - rng.randint(0, h)
    elif pos == 3:    # disjoint far away
        x0, y0 = rng.choice((-w - rng.randint(0, 3), nx + rng.randint(0, 3))), rng.randint(-2, ny + 2)
    elif pos == 4:    # larger than the image, or exactly the image
        w, h = nx + rng.randint(0, 3), ny + rng.randint(0, 3)
        x0, y0 = -rng.randint(0, min(2, w - nx)), -rng.randint(0, min(2, h - ny))
    elif pos == 5:    # touching from outside (shares an edge, no pixel)
        x0, y0 = -w, rng.randint(-1, ny)
    elif pos == 6:
        x0, y0 = rng.randint(-w, nx), ny
    elif pos == 7:    # straddle one edge only
        x0, y0 = rng.randint(0, max(0, nx - w)), -rng.randint(1, h)
    else:
        x0, y0 = nx - rng.randint(1, w), rng.randint(0, max(0, ny - h))
    wt = np.array([[rng.choice((0.0, 0.0, 1.0, 1.0, rng.random())) for _ in range(w)] for _ in range(h)])
    return RegionMask(wt, RegionBoundingBox(x0, x0 + w, y0, y0 + h))


def check(res, rng, kind, fill, k, desc):
    ny, nx = rng.choice(((6, 7), (1, 5), (4, 1), (3, 3)))
    img = make_image(rng, kind, ny, nx)
    m = make_box(rng, k, ny, nx)
    b = m.bbox
    h, w = m.data.shape
    common = [(Y, X) for Y in range(max(b.iymin, 0), min(b.iymax, ny)) for X in range(max(b.ixmin, 0), min(b.ixmax, nx))]
    before, wbefore = snapshot(img), snapshot(m.data)
    W = lambda Y, X: m.data[Y - b.iymin, X - b.ixmin]
    unit = getattr(img, 'unit', None)
    if unit is not None and fill not in (0.0,) and fill == fill and abs(fill) != float('inf'):
        fillv = fill * unit
    else:
        fillv = fill
    trunc_fill = np.asarray(getattr(img, 'value', img)).dtype.kind in 'iu' and fill == fill and abs(fill) != float('inf') and fill != int(fill)
    umask = None
    if k % 2:
        umask = np.array([[rng.random() < 0.3 for _ in range(nx)] for _ in range(ny)]).reshape(ny, nx)

    def unchanged(op):
        if snapshot(img) != before:
            res.violation(f'{op} modified the input image', case=desc, bbox=str(b), image_kind=kind)
            return False
        if snapshot(m.data) != wbefore:
            res.violation(f'{op} modified the mask weights', case=desc)
            return False
        return True
    # ---- to_image
    ti = m.to_image((ny, nx))
    if (ti is None) != (not common):
        return res.violation(f'to_image: None={ti is None} but common pixels={len(common)}', case=desc, bbox=str(b), shape=(ny, nx))
    if ti is not None:
        if np.shares_memory(ti, m.data):
            return res.violation('to_image returns an array that shares memory with the mask weights (editing the image in place would alter the mask)',
                                 case=desc, bbox=str(b), shape=(ny, nx))
        if ti.shape != (ny, nx):
            return res.violation(f'to_image shape {ti.shape}', case=desc)
        for Y in range(ny):
            for X in range(nx):
                want = W(Y, X) if (b.iymin <= Y < b.iymax and b.ixmin <= X < b.ixmax) else 0
                if ti[Y, X] != want:
                    return res.violation(f'to_image[{Y},{X}] = {ti[Y, X]!r}, placement gives {want!r}', case=desc, bbox=str(b), shape=(ny, nx))
    # ---- cutout (view and copy)
    for cp in (False, True):
        co = m.cutout(img, fill_value=fillv, copy=cp)
        if (co is None) != (not common):
            return res.violation(f'cutout: None={co is None} but common pixels={len(common)}', case=desc, bbox=str(b), shape=(ny, nx))
        if co is None:
            continue
        if co.shape != (h, w):
            return res.violation(f'cutout shape {co.shape} is not the mask shape {(h, w)}', case=desc)
        for j in range(h):
            for i in range(w):
                Y, X = j + b.iymin, i + b.ixmin
                want = img[Y, X] if (0 <= Y < ny and 0 <= X < nx) else fillv
                if not same(co[j, i], want):
                    if trunc_fill and not (0 <= Y < ny and 0 <= X < nx) and float(co[j, i]) == float(int(fill)):
                        res.known('F27', F27)
                        continue
                    return res.violation(f'cutout[{j},{i}] = {co[j, i]!r}, placement gives {want!r} (fill {fill!r}, image {kind})', case=desc, bbox=str(b), shape=(ny, nx))
        if cp and len(common) and np.asarray(getattr(co, 'value', co)).size:
            np.asarray(getattr(co, 'value', co))[...] = 7
            if not unchanged('writing to cutout(copy=True)'):
                return
    if not unchanged('cutout'):
        return
    # ---- multiply
    mu = m.multiply(img, fill_value=fillv)
    if (mu is None) != (not common):
        return res.violation(f'multiply: None={mu is None} but common pixels={len(common)}', case=desc, bbox=str(b))
    if not unchanged('multiply'):
        return
    if mu is not None:
        if mu.shape != (h, w):
            return res.violation(f'multiply shape {mu.shape}', case=desc)
        for j in range(h):
            for i in range(w):
                Y, X = j + b.iymin, i + b.ixmin
                wt = m.data[j, i]
                inside = (0 <= Y < ny and 0 <= X < nx)
                if wt == 0:
                    want = fillv
                else:
                    with np.errstate(all='ignore'):
                        want = (img[Y, X] if inside else fillv) * wt
                if not same(mu[j, i], want):
                    if trunc_fill and not inside and wt != 0 and same(mu[j, i], int(fill) * wt):
                        res.known('F27', F27)
                        continue
                    return res.violation(f'multiply[{j},{i}] = {mu[j, i]!r}, placement gives {want!r} (weight {wt!r}, fill {fill!r}, image {kind})', case=desc, bbox=str(b), shape=(ny, nx))
    # ---- get_values
    gv = m.get_values(img, mask=umask)
    if not unchanged('get_values'):
        return
    want = []
    for (Y, X) in common:
        if W(Y, X) > 0 and not (umask is not None and umask[Y, X]):
            with np.errstate(all='ignore'):
                want.append(img[Y, X] * W(Y, X))
    if np.ndim(gv) != 1 or len(gv) != len(want):
        return res.violation(f'get_values returns shape {np.shape(gv)}, {len(want)} values expected', case=desc, bbox=str(b), shape=(ny, nx))
    if common:
        for g, wv in zip(gv, want):
            if not same(g, wv):
                return res.violation(f'get_values gives {g!r} where placement gives {wv!r} (image {kind})', case=desc, bbox=str(b))


def main():
    prop, tier, seed, out = sys.argv[1], sys.argv[2], int(sys.argv[3]), sys.argv[4]
    rng = random.Random(seed)
    n = 18 if tier == 'quick' else 450
    res = Result('mask_apply', f'{n} seeded (box, weights, image) draws x {len(KINDS_IMG)} image kinds x {len(FILLS)} fill values (seed {seed})',
                 'to_image/cutout/multiply/get_values compared pixel by pixel with placement at (ixmin, iymin); None/empty exactly when no common pixel; '
                 'input image and weights compared bit for bit before/after; distinct = distinct (image kind, fill, box position class)')
    for kind in KINDS_IMG:
        for fill in FILLS:
            for k in range(n):
                desc = (kind, repr(fill), k)
                res.case((kind, repr(fill), k % 9))
                try:
                    check(res, rng, kind, fill, k, desc)
                except Exception as e:
                    res.violation(f'{type(e).__name__}: {e}', case=desc)
    res.write(out)


if __name__ == '__main__':
    main()
