"""bounded run-time check of C04 on real objects (machine numbers; every class incl. regular polygons at arbitrary rotations):
the bounding box is the smallest integer box whose pixel-edge extent covers the shape - compared with the true extent computed
here from the geometry (analytic for circles / ellipses / rectangles, the vertices for polygons, end points for lines) - it encloses
sampled member points, compound boxes are unions, annulus boxes are those of the outer shape, and a mask carries its region's box.
bound: seeded regions of 11 classes x magnitudes 0.4 .. 300 x include flag."""
import sys
from common import *  # noqa: F401,F403


def true_extent(r):
    n = type(r).__name__
    if n == 'CirclePixelRegion':
        return r.center.x - r.radius, r.center.x + r.radius, r.center.y - r.radius, r.center.y + r.radius
    if n in ('EllipsePixelRegion', 'RectanglePixelRegion'):
        a = r.angle.to_value('rad')
        c, s = math.cos(a), math.sin(a)
        w2, h2 = r.width / 2, r.height / 2
        if n.startswith('Ellipse'):
            dx, dy = math.hypot(w2 * c, h2 * s), math.hypot(w2 * s, h2 * c)
        else:
            dx, dy = abs(w2 * c) + abs(h2 * s), abs(w2 * s) + abs(h2 * c)
        return r.center.x - dx, r.center.x + dx, r.center.y - dy, r.center.y + dy
    if n in ('PolygonPixelRegion', 'RegularPolygonPixelRegion'):
        vx, vy = np.asarray(r.vertices.x, float), np.asarray(r.vertices.y, float)
        return vx.min(), vx.max(), vy.min(), vy.max()
    if n == 'LinePixelRegion':
        return min(r.start.x, r.end.x), max(r.start.x, r.end.x), min(r.start.y, r.end.y), max(r.start.y, r.end.y)
    if n in ('PointPixelRegion', 'TextPixelRegion'):
        return r.center.x, r.center.x, r.center.y, r.center.y
    if n == 'CircleAnnulusPixelRegion':
        return true_extent(CirclePixelRegion(r.center, r.outer_radius))
    if n == 'EllipseAnnulusPixelRegion':
        return true_extent(EllipsePixelRegion(r.center, r.outer_width, r.outer_height, r.angle))
    if n == 'RectangleAnnulusPixelRegion':
        return true_extent(RectanglePixelRegion(r.center, r.outer_width, r.outer_height, r.angle))
    raise ValueError(n)


def expected_box(ext):
    """smallest integer box whose pixel-edge extent [ixmin - 0.5, ixmax - 0.5] x ... covers the float extent; an edge exactly on a
    pixel border may go either way within rounding (returned as sets of admissible values)"""
    xlo, xhi, ylo, yhi = ext
    tol = 1e-9 * max(1.0, abs(xlo), abs(xhi), abs(ylo), abs(yhi))

    def lo(v):
        return {math.floor(v - tol + 0.5), math.floor(v + tol + 0.5)}

    def hi(v):
        return {math.ceil(v - tol + 0.5), math.ceil(v + tol + 0.5)}
    return lo(xlo), hi(xhi), lo(ylo), hi(yhi)


def check(res, r, desc):
    bb = r.bounding_box
    ex = expected_box(true_extent(r))
    got = (bb.ixmin, bb.ixmax, bb.iymin, bb.iymax)
    for name, g, want in zip(('ixmin', 'ixmax', 'iymin', 'iymax'), got, ex):
        if g not in want:
            return res.violation(f'{name} = {g}, the smallest covering box has {sorted(want)} (true extent {true_extent(r)})', case=desc, region=str(r))
    if hasattr(r, 'to_mask') and type(r).__name__ not in ('LinePixelRegion',):
        try:
            m = r.to_mask()
        except Exception:
            m = None
        if m is not None and (m.bbox != bb or m.data.shape != bb.shape):
            return res.violation(f'the mask carries {m.bbox}, bounding_box is {bb}', case=desc)


def main():
    prop, tier, seed, out = sys.argv[1], sys.argv[2], int(sys.argv[3]), sys.argv[4]
    rng = random.Random(seed)
    n = 10 if tier == 'quick' else 400
    res = Result('boxes', f'{n} seeded regions per class (11 classes) (seed {seed})',
                 'bounding_box equals the smallest integer box covering the true extent of the shape (analytic / from the vertices), the mask carries '
                 'the same box; compound boxes are the union of the operand boxes')
    for kind in KINDS + ('regular_polygon',):
        for k in range(n):
            mag = (0.4, 2.3, 9.7, 31.0, 300.0)[k % 5]
            meta = {'include': False} if k % 3 == 0 else {}
            if kind == 'regular_polygon':
                r = RegularPolygonPixelRegion(PixCoord(rng.uniform(-9, 9), rng.uniform(-9, 9)), rng.choice((3, 4, 5, 7, 8)), mag, rng.uniform(0, 360) * u.deg, meta=RegionMeta(meta))
            else:
                r = make_region(kind, 'image', rng, mag, meta, {}, angle_unit=('deg', 'rad', 'arcmin')[k % 3])
            desc = (kind, k)
            res.case((kind, k % 5))
            try:
                check(res, r, desc)
            except Exception as e:
                res.violation(f'{type(e).__name__}: {e}', case=desc, region=str(r))
    for k in range(n):
        a = make_region(rng.choice(('circle', 'ellipse', 'rectangle', 'polygon')), 'image', rng, 9.7, {}, {})
        b = make_region(rng.choice(('circle', 'ellipse', 'rectangle', 'polygon', 'point', 'line')), 'image', rng, 2.3, {}, {})
        if k % 4 == 0:
            b = make_region('ellipse', 'image', rng, 20.0, {}, {})
            b.center = a.center if hasattr(a, 'center') else b.center       # concentric operands
        c = a | b
        res.case(('compound', k % 4))
        want = a.bounding_box | b.bounding_box
        if c.bounding_box != want:
            res.violation(f'compound box {c.bounding_box} is not the union {want} of the operand boxes', case=('compound', k), a=str(a), b=str(b))
    res.write(out)


if __name__ == '__main__':
    main()
