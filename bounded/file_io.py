"""bounded run-time check of C14 on a real file system (temporary directory).
bound: formats {ds9, crtf, fits} x destination {absent, file, symlink to file, dangling symlink} x overwrite {False, True} x
failing input {none, unserialisable region first/middle/last, invalid option, unknown format, unidentifiable extension} x
Region.write / Regions.write x format {given, from extension} ; read back: format given / from extension / from content
signature of a renamed copy and of a gzip copy."""
import gzip
import shutil
import sys
import tempfile
from common import *  # noqa: F401,F403
from regions import CompoundPixelRegion
import operator

EXT = {'ds9': ('.reg', '.ds9'), 'crtf': ('.crtf',), 'fits': ('.fits', '.fit', '.fts')}


def state(path):
    """observable state of the destination: (lexists, link target, bytes of the file it leads to)"""
    if not os.path.lexists(path):
        return ('absent',)
    link = os.readlink(path) if os.path.islink(path) else None
    data = open(path, 'rb').read() if os.path.exists(path) else None
    return ('present', link, data)


def good_regions(rng, fmt):
    frame = 'image' if fmt == 'fits' else rng.choice(('fk5', 'icrs', 'galactic'))
    kinds = {'ds9': ('circle', 'ellipse', 'rectangle', 'point'), 'crtf': ('circle', 'ellipse', 'rectangle'), 'fits': ('circle', 'ellipse', 'point', 'rectangle')}[fmt]
    regs = [make_region(rng.choice(kinds), frame, rng, 12.5, {}, {}) for _ in range(rng.randint(1, 3))]
    if fmt != 'fits' and rng.random() < 0.4:
        regs[0].meta['text' if fmt == 'ds9' else 'label'] = '\u03b1 Cen'          # labels need not be ASCII
    return regs


def bad_region(fmt, rng):
    if fmt == 'crtf':
        c = make_region('circle', 'image', rng)
        return CompoundPixelRegion(c, make_region('circle', 'image', rng), operator.or_)
    return None


def prepare(d, dest_state, name):
    path = os.path.join(d, name)
    target = os.path.join(d, 'target_of_link.bin')
    if dest_state == 'file':
        open(path, 'wb').write(b'PRECIOUS OLD CONTENT')
    elif dest_state == 'symlink':
        open(target, 'wb').write(b'PRECIOUS LINKED CONTENT')
        os.symlink(target, path)
    elif dest_state == 'dangling':
        os.symlink(os.path.join(d, 'does_not_exist'), path)
    return path


def check_write(res, rng, fmt, dest_state, overwrite, fail, use_regions_cls, fmt_given):
    desc = (fmt, dest_state, overwrite, fail, 'Regions.write' if use_regions_cls else 'Region.write', 'format given' if fmt_given else 'from extension')
    with tempfile.TemporaryDirectory() as d:
        ext = rng.choice(EXT[fmt])
        name = 'out' + ext
        if fail == 'unidentifiable_extension':
            name, fmt_given = 'out.txt', False
        path = prepare(d, dest_state, name)
        before = state(path)
        regs = good_regions(rng, fmt)
        kwargs = {}
        fmt_arg = fmt if fmt_given else None
        if fail in ('bad_first', 'bad_middle', 'bad_last'):
            b = bad_region(fmt, rng)
            if b is None:
                return None
            pos = {'bad_first': 0, 'bad_middle': len(regs) // 2, 'bad_last': len(regs)}[fail]
            regs = regs[:pos] + [b] + regs[pos:]
        elif fail == 'late_region':
            if fmt != 'crtf':
                return None
            regs = regs + [make_region('circle', 'image', rng)]        # a pixel region in a celestial CRTF file fails in the last stage
        elif fail == 'late_option':
            if fmt != 'crtf':
                return None
            kwargs.update(coordsys='image', radunit='arcsec')
        elif fail == 'bad_option':
            if fmt == 'ds9':
                kwargs['precision'] = 'x'
            elif fmt == 'crtf':
                kwargs['coordsys'] = 'nosuchframe'
            else:
                kwargs['nosuchoption'] = 1
        elif fail == 'unknown_format':
            fmt_arg = 'nosuchformat'
        obj = Regions(regs) if use_regions_cls or len(regs) != 1 else regs[0]
        try:
            obj.write(path, format=fmt_arg, overwrite=overwrite, **kwargs)
            outcome = 'ok'
        except OSError as e:
            outcome = 'OSError'
        except Exception as e:
            outcome = type(e).__name__
        after = state(path)
        must_refuse = before[0] == 'present' and not overwrite
        if must_refuse and fail == 'none':
            if outcome != 'OSError':
                res.violation(f'existing destination without overwrite: outcome {outcome}, expected OSError', case=desc)
            if after != before:
                res.violation('existing destination changed although the write was refused', case=desc, before=before, after=after)
        elif fail != 'none':
            if outcome == 'ok':
                res.violation('write with a failing element / option succeeded', case=desc)
            if after != before:
                res.violation(f'failed write ({outcome}) changed the destination', case=desc, before=before, after=after)
        else:
            if outcome != 'ok':
                res.violation(f'valid write failed: {outcome}', case=desc)
            else:
                check_readback(res, rng, fmt, path, regs, d, desc)
    return desc


def same_regions(a, b):
    return len(a) == len(b) and all(x == y for x, y in zip(a, b))


def check_readback(res, rng, fmt, path, regs, d, desc):
    ser = Regions(regs).serialize(format=fmt)
    expect = Regions.parse(ser, format=fmt)
    try:
        got1 = Regions.read(path, format=fmt)
        got2 = Regions.read(path)
        if not same_regions(got1, expect):
            res.violation('read(format given) differs from parse(serialize)', case=desc)
        if not same_regions(got2, expect):
            res.violation('read(format from extension) differs from parse(serialize)', case=desc)
        if fmt != 'fits':
            if open(path).read() != ser:
                res.violation('file content is not the serialised text', case=desc)
        renamed = os.path.join(d, 'copy_without_known_extension.dat')
        shutil.copy(path, renamed)
        got3 = Regions.read(renamed)
        if not same_regions(got3, expect):
            res.violation('renamed copy not read back by content signature', case=desc)
        gz = os.path.join(d, 'copy.dat.gz')
        with open(path, 'rb') as fi, gzip.open(gz, 'wb') as fo:
            fo.write(fi.read())
        got4 = Regions.read(gz)
        if not same_regions(got4, expect):
            res.violation('gzip copy not read back by content signature', case=desc)
    except Exception as e:
        res.violation(f'read back failed: {type(e).__name__}: {e}', case=desc)


def main():
    prop, tier, seed, out = sys.argv[1], sys.argv[2], int(sys.argv[3]), sys.argv[4]
    rng = random.Random(seed)
    res = Result('file_io', 'all combinations of 3 formats x 4 destination states x overwrite x 7 failure modes x 2 entry points x '
                 '2 ways of giving the format (region lists seeded, 1-3 regions)',
                 'each case prepares the destination in a temporary directory, snapshots (lexists, link target, bytes), writes, and '
                 'compares outcome and destination state with the statement; successful writes are read back four ways')
    res.d['exhaustive'] = True
    fails = ('none', 'bad_first', 'bad_middle', 'bad_last', 'bad_option', 'late_region', 'late_option', 'unknown_format', 'unidentifiable_extension')
    for fmt, ds, ow, fail, cls, given in itertools.product(('ds9', 'crtf', 'fits'), ('absent', 'file', 'symlink', 'dangling'), (False, True),
                                                           fails, (False, True), (True, False)):
        if tier == 'quick' and cls and fail in ('bad_middle',) :
            continue
        desc = check_write(res, rng, fmt, ds, ow, fail, cls, given)
        if desc is not None:
            res.case(desc, sample=list(desc) if len(res.d['samples']) < 4 else None)
    res.write(out)


if __name__ == '__main__':
    main()
