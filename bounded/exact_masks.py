"""bounded run-time check of C03: 'exact' masks of circles and ellipses against an independent area computation
(polygon-disk intersection by edge-wise triangle/sector sums after mapping the ellipse to the unit disk), and convergence
of subpixel masks.  bound: radii / semi-axes 1e-3 .. 1e3 (13 values), axis ratios to 1:100, 24 angles, seeded sub-pixel
offsets plus the half-integer lattice; every pixel of every mask; subpixels n in {1, 2, 5, 10, 20, 50}."""
import sys
from common import *  # noqa: F401,F403


def seg_disk_area(px, py, qx, qy, R):
    """signed area of (triangle O, p, q) intersected with the disk of radius R centred on O"""
    dx, dy = qx - px, qy - py
    a = dx * dx + dy * dy
    if a == 0.0:
        return 0.0
    b = 2 * (px * dx + py * dy)
    c = px * px + py * py - R * R
    disc = b * b - 4 * a * c
    ts = [0.0, 1.0]
    if disc > 0:
        sq = math.sqrt(disc)
        for t in ((-b - sq) / (2 * a), (-b + sq) / (2 * a)):
            if 0.0 < t < 1.0:
                ts.append(t)
    ts.sort()
    total = 0.0
    for t0, t1 in zip(ts, ts[1:]):
        ax, ay = px + t0 * dx, py + t0 * dy
        bx, by = px + t1 * dx, py + t1 * dy
        mx, my = 0.5 * (ax + bx), 0.5 * (ay + by)
        # a piece of the edge is a chord iff its midpoint is strictly inside the disk (a tangent edge only touches: outside)
        if mx * mx + my * my < R * R * (1 - 1e-12):
            total += 0.5 * (ax * by - ay * bx)
        else:
            ang = math.atan2(ax * by - ay * bx, ax * bx + ay * by)
            total += 0.5 * R * R * ang
    return total


def polygon_disk_area(pts, R=1.0):
    s = 0.0
    n = len(pts)
    for i in range(n):
        p, q = pts[i], pts[(i + 1) % n]
        s += seg_disk_area(p[0], p[1], q[0], q[1], R)
    return abs(s)


def pixel_overlap(cx, cy, rx, ry, theta, ix, iy):
    """area of (unit pixel centred on (ix, iy)) intersected with the ellipse (centre (cx, cy), semi-axes rx, ry, angle theta)"""
    c, s = math.cos(theta), math.sin(theta)
    pts = []
    for (x, y) in ((ix - 0.5, iy - 0.5), (ix + 0.5, iy - 0.5), (ix + 0.5, iy + 0.5), (ix - 0.5, iy + 0.5)):
        dx, dy = x - cx, y - cy
        pts.append(((c * dx + s * dy) / rx, (-s * dx + c * dy) / ry))
    return polygon_disk_area(pts, 1.0) * rx * ry


def check_mask(res, reg, kind, desc, tol=1e-8):
    m = reg.to_mask(mode='exact')
    b = m.bbox
    if m.data.shape != b.shape:
        res.violation('mask shape differs from its box', case=desc)
        return
    if not np.all(np.isfinite(m.data)) or m.data.min() < -1e-12 or m.data.max() > 1 + 1e-12:
        res.violation(f'mask value outside [0, 1] or not finite: min {m.data.min()}, max {m.data.max()}', case=desc)
    if kind == 'circle':
        cx, cy, rx, ry, th = reg.center.x, reg.center.y, reg.radius, reg.radius, 0.0
    else:
        cx, cy, rx, ry, th = reg.center.x, reg.center.y, reg.width / 2, reg.height / 2, reg.angle.to_value('rad')
    worst = 0.0
    for j in range(b.shape[0]):
        for i in range(b.shape[1]):
            want = pixel_overlap(cx, cy, rx, ry, th, b.ixmin + i, b.iymin + j)
            got = float(m.data[j, i])
            err = abs(got - want)
            worst = max(worst, err)
            if err > tol:
                res.violation(f'pixel ({b.ixmin + i}, {b.iymin + j}): mask {got!r}, true overlap {want!r}', case=desc)
                return
            if want >= 1 - 1e-15 and got != 1.0:
                if kind == 'ellipse' and abs(got - 1) <= 1e-12:
                    res.known('F26', f'fully covered pixel of an exact ellipse mask has value {got!r}')
                elif abs(got - 1) > 4e-16:
                    res.violation(f'fully covered pixel has value {got!r}', case=desc)
                    return
            if want == 0.0 and got != 0.0:
                res.violation(f'uncovered pixel has value {got!r}', case=desc)
                return
    area = math.pi * rx * ry
    if abs(m.data.sum() - area) > max(1e-8 * b.shape[0] * b.shape[1], 1e-9 * area):
        res.violation(f'mask sum {m.data.sum()!r} differs from the analytic area {area!r}', case=desc)
    return worst


def check_large_mask(res, rng, desc):
    """masks of more than a million pixels: still float64 and still exact on the boundary pixels (400 sampled ones; every pixel is too many)"""
    r = 520.0 + rng.random()
    reg = CirclePixelRegion(PixCoord(rng.uniform(-3, 3), rng.uniform(-3, 3)), r)
    m = reg.to_mask(mode='exact')
    b = m.bbox
    if m.data.dtype != np.float64:
        return res.violation(f'exact mask of a {b.shape[0]} x {b.shape[1]} pixel circle has dtype {m.data.dtype}', case=desc)
    for _ in range(400):
        a = rng.uniform(0, 2 * math.pi)
        ix, iy = int(round(reg.center.x + r * math.cos(a))), int(round(reg.center.y + r * math.sin(a)))
        i, j = ix - b.ixmin, iy - b.iymin
        if not (0 <= i < b.shape[1] and 0 <= j < b.shape[0]):
            continue
        want = pixel_overlap(reg.center.x, reg.center.y, r, r, 0.0, ix, iy)
        if abs(float(m.data[j, i]) - want) > 1e-8:
            return res.violation(f'pixel ({ix}, {iy}) of a large mask: {float(m.data[j, i])!r}, true overlap {want!r}', case=desc)
    area = math.pi * r * r
    if abs(float(m.data.sum(dtype=np.float64)) - area) > 1e-9 * area:
        res.violation(f'large mask: sum {float(m.data.sum())!r} differs from the analytic area {area!r}', case=desc)


def check_convergence(res, reg, desc):
    ex = reg.to_mask(mode='exact').data if not isinstance(reg, (RectanglePixelRegion, PolygonPixelRegion)) else None
    nref = 200
    if ex is None:
        # no exact mode for these shapes: the reference is a dense sampling computed here with numpy from the definition
        # (not by the library, whose own sampling is what is being judged)
        from sampled_masks import expected_mask
        ex = expected_mask(reg, reg.bounding_box, nref)[0]
    if not check_sample_count(res, reg, desc):
        return
    for n in (1, 2, 5, 10, 20, 50, 100):
        sub = reg.to_mask(mode='subpixels', subpixels=n).data
        bound = 8.0 / n + 4.0 / (n * n) + (8.0 / nref if isinstance(reg, (RectanglePixelRegion, PolygonPixelRegion)) else 0) + 1e-9
        err = float(np.abs(sub - ex).max())
        if err > bound:
            res.violation(f'subpixels={n}: max pixel error {err} exceeds the boundary-length bound {bound}', case=desc)
            return


def _clip(poly, xlo, xhi, ylo, yhi):
    """Sutherland-Hodgman: a simple polygon clipped to an axis-parallel box"""
    def clip(pts, inside, inter):
        out = []
        for i, p in enumerate(pts):
            q = pts[(i + 1) % len(pts)]
            if inside(p):
                out.append(p)
                if not inside(q):
                    out.append(inter(p, q))
            elif inside(q):
                out.append(inter(p, q))
        return out
    ix = lambda c: (lambda p, q: (c, p[1] + (q[1] - p[1]) * (c - p[0]) / (q[0] - p[0])))
    iy = lambda c: (lambda p, q: (p[0] + (q[0] - p[0]) * (c - p[1]) / (q[1] - p[1]), c))
    pts = list(poly)
    for inside, inter in ((lambda p: p[0] >= xlo, ix(xlo)), (lambda p: p[0] <= xhi, ix(xhi)), (lambda p: p[1] >= ylo, iy(ylo)), (lambda p: p[1] <= yhi, iy(yhi))):
        if not pts:
            break
        pts = clip(pts, inside, inter)
    return pts


def _shoelace(pts):
    if len(pts) < 3:
        return 0.0
    return 0.5 * abs(sum(pts[i][0] * pts[(i + 1) % len(pts)][1] - pts[(i + 1) % len(pts)][0] * pts[i][1] for i in range(len(pts))))


def _outline_in_box(poly, xlo, xhi, ylo, yhi):
    """length of the polygon outline inside the closed box (Liang-Barsky per edge)"""
    total = 0.0
    for i, p in enumerate(poly):
        q = poly[(i + 1) % len(poly)]
        dx, dy = q[0] - p[0], q[1] - p[1]
        t0, t1 = 0.0, 1.0
        ok = True
        for d, a, lo, hi in ((dx, p[0], xlo, xhi), (dy, p[1], ylo, yhi)):
            if d == 0:
                if a < lo or a > hi:
                    ok = False
                    break
            else:
                ta, tb = (lo - a) / d, (hi - a) / d
                if ta > tb:
                    ta, tb = tb, ta
                t0, t1 = max(t0, ta), min(t1, tb)
                if t0 > t1:
                    ok = False
                    break
        if ok:
            total += (t1 - t0) * math.hypot(dx, dy)
    return total


def check_sample_count(res, reg, desc):
    """convergence presupposes that a subpixel mask really is the count of n x n samples, for every n (also n beyond any 'reasonable'
    value and n prime): compared with the numpy reference of bounded/sampled_masks.py"""
    from sampled_masks import expected_mask
    for n in (37, 101):
        if n * n * reg.bounding_box.shape[0] * reg.bounding_box.shape[1] > 3_000_000:
            continue
        m = reg.to_mask(mode='subpixels', subpixels=n)
        want, slack = expected_mask(reg, m.bbox, n)
        bad = np.abs(m.data - want) > slack + 1e-12
        if bad.any():
            j, i = np.argwhere(bad)[0]
            res.violation(f'subpixels={n}: pixel ({m.bbox.ixmin + i}, {m.bbox.iymin + j}) holds {m.data[j, i]!r}; {n}x{n} sample centres give {want[j, i]!r}',
                          case=desc, region=str(reg))
            return False
    return True


def check_polygon_convergence(res, reg, verts, desc):
    """convex polygons / rectangles have no exact mode: the true overlap of every pixel is computed here by clipping, and the subpixel
    mask must approach it within (outline length inside the pixel) / n, the bound the property states"""
    if not check_sample_count(res, reg, desc):
        return
    bb = reg.bounding_box
    for n in (3, 10, 40, 160):
        m = reg.to_mask(mode='subpixels', subpixels=n)
        for j in range(bb.shape[0]):
            for i in range(bb.shape[1]):
                xlo, ylo = bb.ixmin + i - 0.5, bb.iymin + j - 0.5
                true = _shoelace(_clip(verts, xlo, xlo + 1, ylo, ylo + 1))
                L = _outline_in_box(verts, xlo, xlo + 1, ylo, ylo + 1)
                # each sample cell (side 1/n) is misjudged only if the outline passes through it: at most ~ (2 L n + 4) cells of area 1/n^2
                bound = 2.0 * L / n + 4.0 / (n * n) + 1e-9
                if abs(m.data[j, i] - true) > bound:
                    res.violation(f'subpixels={n}: pixel ({bb.ixmin + i}, {bb.iymin + j}) holds {m.data[j, i]!r}, true overlap {true!r}, outline length in the '
                                  f'pixel {L!r}: error exceeds {bound!r}', case=desc, region=str(reg))
                    return


def main():
    prop, tier, seed, out = sys.argv[1], sys.argv[2], int(sys.argv[3]), sys.argv[4]
    rng = random.Random(seed)
    res = Result('exact_masks', 'radii/semi-axes in {1e-3 .. 1e3} (13 values), axis ratios to 1:100, 24 angles, seeded generic sub-pixel offsets and the '
                 'half-integer lattice; every pixel of every mask (radii above 8 are skipped in the quick tier, above 61 in the thorough tier)',
                 'each mask pixel is compared with the independently computed overlap area (1e-8), range, exact 1/0 for covered/uncovered pixels, '
                 'sum = analytic area; subpixel masks converge to the exact one within the boundary-length bound')
    sizes = [1e-3, 3e-3, 1e-2, 0.03, 0.1, 0.3, 1.0, 2.5, 7.7, 23.0, 61.0, 250.0, 1000.0]
    limit = 8 if tier == 'quick' else 61          # every pixel is re-computed in Python: larger masks cost minutes each
    offsets = [(0.0, 0.0), (0.5, 0.5), (0.5, 0.0), (0.0, 0.5)] + [(rng.random(), rng.random()) for _ in range(4 if tier == 'quick' else 12)]
    n = 0
    for r in sizes:
        if r > limit:
            continue
        for (ox, oy) in offsets:
            c = PixCoord(round(rng.uniform(-20, 20)) + ox, round(rng.uniform(-20, 20)) + oy)
            desc = ('circle', r, c.x, c.y)
            res.case(desc, sample={'circle': r, 'centre': (c.x, c.y)} if n < 2 else None)
            n += 1
            try:
                check_mask(res, CirclePixelRegion(c, r), 'circle', desc)
            except Exception as e:
                res.violation(f'{type(e).__name__}: {e}', case=desc)
    angles = [k * 15.0 for k in range(24)]
    for a in sizes:
        for ratio in (1.0, 0.5, 0.1, 0.01):
            b = a * ratio
            if a > limit or b < 5e-4:
                continue
            for k in range(3 if tier == 'quick' else 24):
                th = angles[(k * 7 + int(a * 10)) % 24] + (0.0 if k % 2 == 0 else rng.uniform(-7, 7))
                ox, oy = offsets[(k + int(ratio * 100)) % len(offsets)]
                c = PixCoord(round(rng.uniform(-20, 20)) + ox, round(rng.uniform(-20, 20)) + oy)
                desc = ('ellipse', 2 * a, 2 * b, th, c.x, c.y)
                res.case(desc, sample={'ellipse': (2 * a, 2 * b, th), 'centre': (c.x, c.y)} if n < 60 and k == 0 and ratio == 0.5 and a == 1.0 else None)
                n += 1
                try:
                    check_mask(res, EllipsePixelRegion(c, 2 * a, 2 * b, th * u.deg), 'ellipse', desc)
                except Exception as e:
                    res.violation(f'{type(e).__name__}: {e}', case=desc)
    for kind in ('circle', 'ellipse', 'rectangle', 'polygon'):
        for k in range(4 if tier == 'quick' else 40):
            reg = make_region(kind, 'image', rng, rng.choice((0.7, 3.3, 9.1)), {}, {})
            desc = ('convergence', kind, str(reg))
            res.case(desc)
            try:
                check_convergence(res, reg, desc)
            except Exception as e:
                res.violation(f'{type(e).__name__}: {e}', case=desc)
    for k in range(1 if tier == 'quick' else 4):
        desc = ('large-mask', k)
        res.case(desc)
        try:
            check_large_mask(res, rng, desc)
        except Exception as e:
            res.violation(f'{type(e).__name__}: {e}', case=desc)
    for k in range(6 if tier == 'quick' else 60):
        mag = rng.choice((0.8, 2.6, 6.3))
        if k % 3 == 0:
            reg = RegularPolygonPixelRegion(PixCoord(rng.uniform(-9, 9), rng.uniform(-9, 9)), rng.choice((3, 4, 5, 7)), mag, rng.uniform(0, 360) * u.deg)
            verts = list(zip(map(float, reg.vertices.x), map(float, reg.vertices.y)))
        elif k % 3 == 1:
            vx = [rng.uniform(-3, 3) * mag for _ in range(3)]
            vy = [rng.uniform(-3, 3) * mag for _ in range(3)]
            reg = PolygonPixelRegion(PixCoord(vx, vy))
            verts = list(zip(vx, vy))
        else:
            reg = RectanglePixelRegion(PixCoord(rng.uniform(-9, 9), rng.uniform(-9, 9)), mag * rng.uniform(0.5, 3), mag * rng.uniform(0.5, 3), rng.uniform(0, 360) * u.deg)
            c, s_ = math.cos(reg.angle.to_value('rad')), math.sin(reg.angle.to_value('rad'))
            verts = [(reg.center.x + c * a - s_ * b, reg.center.y + s_ * a + c * b) for a, b in
                     ((-reg.width / 2, -reg.height / 2), (reg.width / 2, -reg.height / 2), (reg.width / 2, reg.height / 2), (-reg.width / 2, reg.height / 2))]
        desc = ('polygon-convergence', k, str(reg))
        res.case(desc)
        try:
            check_polygon_convergence(res, reg, verts, desc)
        except Exception as e:
            res.violation(f'{type(e).__name__}: {e}', case=desc)
    res.write(out)


if __name__ == '__main__':
    main()
