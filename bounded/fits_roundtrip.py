"""bounded run-time check of C12: FITS region tables in memory and through a file on disk.
bound: lists of 1-8 FITS-representable pixel regions (7 classes, mixed so that columns need padding) x include in
{absent, True, False, 0, 1} x component in {absent, all given, partially given} x {in-memory table, file};
read side: the other accepted notations box / rectangle / rotrectangle."""
import sys
import tempfile
from common import *  # noqa: F401,F403
from astropy.table import QTable

FKINDS = ('point', 'circle', 'ellipse', 'circle_annulus', 'ellipse_annulus', 'rectangle', 'polygon', 'regular_polygon')
INCS = (None, True, False, 0, 1)


def make(kind, rng, inc, comp, nvert):
    m = {}
    if inc is not None:
        m['include'] = inc
    if comp is not None:
        m['component'] = comp
    if kind == 'regular_polygon':
        return RegularPolygonPixelRegion(PixCoord(rng.uniform(-50, 50), rng.uniform(-50, 50)), nvert, rng.uniform(1, 30), rng.uniform(0, 360) * u.deg,
                                         meta=RegionMeta(m))
    if kind == 'polygon':
        return PolygonPixelRegion(PixCoord([rng.uniform(1, 99) for _ in range(nvert)], [rng.uniform(1, 99) for _ in range(nvert)]), meta=RegionMeta(m))
    return make_region(kind, 'image', rng, MAGS[rng.randrange(3)], m, {}, angle_unit=rng.choice(('deg', 'rad', 'arcmin')))


def excluded(r):
    return not bool(r.meta.get('include', True))


def compare(res, regs, back, desc):
    if len(back) != len(regs):
        res.violation(f'{len(regs)} regions written, {len(back)} read', case=desc)
        return
    comps = []
    for a, b in zip(regs, back):
        a2 = a.to_polygon() if isinstance(a, RegularPolygonPixelRegion) else a
        d = geometry_diff(a2, b, 0.0, 0.0, 1e-10)
        if d:
            res.violation('geometry not identical: ' + d, case=desc)
        if excluded(a) != excluded(b):
            res.violation(f'exclude flag changed: {a.meta.get("include", "absent")} -> {b.meta.get("include", "absent")}', case=desc)
        ca, cb = a.meta.get('component', None), b.meta.get('component', None)
        if ca is not None and ca != cb:
            res.violation(f'component {ca} read back as {cb}', case=desc)
        comps.append(cb)
    given = [a.meta.get('component', None) for a in regs]
    if any(g is not None for g in given):
        if any(c is None for c in comps) or len(set(comps)) != len(comps):
            res.violation(f'components not distinct / missing: {comps}', case=desc)
    elif any(c is not None for c in comps):
        res.violation(f'components invented although none given: {comps}', case=desc)


def check_list(res, rng, n, through_file):
    nvert = rng.choice((3, 4, 6))
    kinds = [rng.choice(FKINDS) for _ in range(n)]
    mode = rng.choice(('none', 'all', 'partial'))
    regs = []
    for i, k in enumerate(kinds):
        comp = None
        if mode == 'all' or (mode == 'partial' and rng.random() < 0.5):
            comp = 3 * i + rng.randrange(3)       # includes component number 0
        regs.append(make(k, rng, rng.choice(INCS), comp, nvert))
    desc = (kinds, mode, 'file' if through_file else 'memory', [r.meta.get('include', 'absent') for r in regs])
    try:
        if through_file:
            with tempfile.TemporaryDirectory() as d:
                path = os.path.join(d, 'r.fits')
                Regions(regs).write(path, format='fits')
                back = Regions.read(path, format='fits')
        else:
            tbl = Regions(regs).serialize(format='fits')
            back = Regions.parse(tbl, format='fits')
            tbl2 = back.serialize(format='fits')
            again = Regions.parse(tbl2, format='fits')
            if len(again) != len(back) or any(x != y for x, y in zip(back, again)):
                res.violation('parse -> serialise -> parse is not a fixed point', case=desc)
        compare(res, regs, back, desc)
    except Exception as e:
        res.violation(f'{type(e).__name__}: {e}', case=desc)
    return desc


def check_other_notations(res, rng):
    """read side: box / rectangle / rotrectangle rows become rectangles"""
    x0, x1, y0, y1 = sorted([rng.uniform(0, 50), rng.uniform(51, 99)]) + sorted([rng.uniform(0, 50), rng.uniform(51, 99)])
    ang = rng.uniform(0, 90)
    for shape, cols, want in (
            ('box', dict(X=[[10.0]], Y=[[20.0]], R=[[4.0, 6.0]]), (10.0, 20.0, 4.0, 6.0, 0.0)),
            ('rotbox', dict(X=[[10.0]], Y=[[20.0]], R=[[4.0, 6.0]], ROTANG=[[ang]]), (10.0, 20.0, 4.0, 6.0, ang)),
            ('rectangle', dict(X=[[x0, x1]], Y=[[y0, y1]]), ((x0 + x1) / 2, (y0 + y1) / 2, x1 - x0, y1 - y0, 0.0)),
            ('rotrectangle', dict(X=[[x0, x1]], Y=[[y0, y1]], ROTANG=[[ang]]), ((x0 + x1) / 2, (y0 + y1) / 2, x1 - x0, y1 - y0, ang))):
        t = QTable()
        t['SHAPE'] = [shape]
        for k, v in cols.items():
            t[k] = np.array(v) * (u.deg if k == 'ROTANG' else u.pix)
        try:
            back = Regions.parse(t, format='fits')
            r = back[0]
            got = (r.center.x, r.center.y, r.width, r.height, r.angle.to_value('deg'))
            if type(r).__name__ != 'RectanglePixelRegion' or any(abs(a - b) > 1e-9 for a, b in zip(got, want)):
                res.violation(f'{shape} row read as {r}', expected=want)
        except Exception as e:
            res.violation(f'{shape}: {type(e).__name__}: {e}')
        res.case(('notation', shape))


def main():
    prop, tier, seed, out = sys.argv[1], sys.argv[2], int(sys.argv[3]), sys.argv[4]
    rng = random.Random(seed)
    n = 250 if tier == 'quick' else 5000
    res = Result('fits_roundtrip', f'{n} lists of 1-8 regions (seed {seed}), one in four through a file on disk; 4 alternative notations on the read side',
                 'each list: serialise (and write/read), parse, compare classes, identical geometry, exclude flag, components; '
                 'in memory also the parse->serialise->parse fixed point; distinct = distinct (classes, component mode, route, include values)')
    for i in range(n):
        desc = check_list(res, rng, rng.randint(1, 8), through_file=(i % 4 == 0))
        res.case(repr(desc), sample={'classes': desc[0], 'components': desc[1], 'route': desc[2]} if i < 3 else None)
    check_other_notations(res, rng)
    # recorded limitation: polygons of different sizes in one table (the shorter one is padded with zero vertices)
    try:
        p3 = PolygonPixelRegion(PixCoord([1.0, 5.0, 3.0], [1.0, 1.0, 4.0]))
        p5 = PolygonPixelRegion(PixCoord([1.0, 5.0, 6.0, 3.0, 0.5], [1.0, 1.0, 3.0, 5.0, 3.0]))
        back = Regions.parse(Regions([p3, p5]).serialize(format='fits'), format='fits')
        if len(back[0].vertices) != 3:
            res.known('F25', f'a 3-vertex polygon written next to a 5-vertex polygon is read back with {len(back[0].vertices)} vertices (zero padding of the X/Y columns becomes vertices)')
    except Exception as e:
        res.known('F25', f'polygons of different sizes in one FITS table: {type(e).__name__}: {e}')
    res.write(out)


if __name__ == '__main__':
    main()
