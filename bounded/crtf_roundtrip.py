"""bounded run-time check of C11: CRTF serialise -> parse round trip and CASA reading conventions on generated lines.
bound: 8 CRTF-representable classes x 6 celestial frames (+ image for circle/ellipse/rotbox) x fmt {.3f, .6f, .10f} x radunit
{deg, arcmin} x include x metadata (label, color, linewidth, range, corr, frame, veltype, restfreq, symsize) x lists of 1-4;
reading: generated lines with global/inline keys, coord=, leading '-', 'ann', [major, minor] semi-axes, box/centerbox/rotbox,
degree / sexagesimal / rad / pix notations, missing units."""
import sys
from common import *  # noqa: F401,F403
from astropy.coordinates import Angle

CKINDS = ('circle', 'circle_annulus', 'ellipse', 'rectangle', 'polygon', 'line', 'text', 'symbol')
FRAMES = ('fk5', 'fk4', 'icrs', 'galactic', 'supergalactic', 'geocentrictrueecliptic')
METAS = [({}, {}), ({'label': 'my label'}, {'color': 'blue'}), ({'frame': 'BARY', 'veltype': 'RADIO'}, {'linewidth': 2}),
         ({'range': [1 * u.GHz, 2 * u.GHz], 'corr': ['I', 'Q']}, {}), ({'restfreq': '1.42GHz'}, {'symsize': 2})]


def build(kind, frame, rng, meta, visual, mag):
    if kind == 'symbol':
        v = dict(visual, symbol=rng.choice(('.', 'o', '+', 'x', 's', 'D')))
        return make_region('point', frame, rng, mag, meta, v)
    return make_region(kind, frame, rng, mag, meta, visual)


def included(r):
    return bool(r.meta.get('include', True))


def check_roundtrip(res, regs, frame, fmt, radunit, desc):
    nd = int(fmt[1:-1])
    text = Regions(regs).serialize(format='crtf', coordsys=frame, fmt=fmt, radunit=radunit)
    if Regions(regs).serialize(format='crtf', coordsys=frame, fmt=fmt, radunit=radunit) != text:
        res.violation('serialising twice gives different text', case=desc, text=text)
    back = Regions.parse(text, format='crtf')
    if len(back) != len(regs):
        res.violation(f'{len(regs)} regions written, {len(back)} read back', case=desc, text=text)
        return
    half_deg = 0.5 * 10 ** (-nd)
    half_size = half_deg * (1 / 60.0 if radunit == 'arcmin' else 1.0)
    for a, b in zip(regs, back):
        d = geometry_diff(a, b, half_deg * 1.0001 + 1e-11, half_size * 1.0001 + 1e-11, half_deg * 1.0001 + 1e-9,
                          axes_double=type(a).__name__.startswith('Ellipse'))
        if d:
            res.violation('geometry not recovered within half a unit: ' + d, case=desc, text=text)
        if included(a) != included(b):
            res.violation(f'include sense changed: {a.meta.get("include", "absent")} -> {b.meta.get("include")}', case=desc, text=text)
        la = getattr(a, 'text', None) or a.meta.get('label')
        lb = getattr(b, 'text', None) or b.meta.get('label')
        if (la or None) != (lb or None):
            res.violation(f'label/text changed: {la!r} -> {lb!r}', case=desc, text=text)
        for key in ('frame', 'veltype', 'restfreq', 'corr'):
            if key in a.meta and str(a.meta[key]).replace(' ', '') != str(b.meta.get(key)).replace(' ', '') and \
                    [str(x) for x in a.meta[key]] != [str(x) for x in (b.meta.get(key) or [])]:
                res.violation(f'meta {key}: {a.meta[key]!r} -> {b.meta.get(key)!r}', case=desc, text=text)
        if b.meta.get('type', 'reg') != a.meta.get('type', 'reg'):
            res.violation('annotation type changed', case=desc, text=text)
    text2 = back.serialize(format='crtf', coordsys=frame, fmt=fmt, radunit=radunit)
    again = Regions.parse(text2, format='crtf')
    text3 = again.serialize(format='crtf', coordsys=frame, fmt=fmt, radunit=radunit)
    if text3 != text2:
        res.violation('parse -> serialise -> parse -> serialise is not a fixed point', case=desc, text2=text2, text3=text3)


def reading_conventions(res, rng):
    """lines written by the generator in CASA notation with a known meaning"""
    def sky(r, lon, lat, frame):
        ok = r.center.frame.name == frame and abs(r.center.spherical.lon.deg - lon) < 1e-7 and abs(r.center.spherical.lat.deg - lat) < 1e-7
        return ok
    lon, lat = round(rng.uniform(1, 359), 4), round(rng.uniform(-80, 80), 4)
    rad = round(rng.uniform(0.01, 2), 4)
    a, b = round(rng.uniform(0.2, 2), 4), round(rng.uniform(0.01, 0.19), 4)
    pa = round(rng.uniform(0, 180), 3)
    cases = []
    # global default frame, inline override, leading '-', ann
    cases.append((f'#CRTF\nglobal coord=GALACTIC, color=green\ncircle[[{lon}deg, {lat}deg], {rad}deg]',
                  lambda rs: len(rs) == 1 and sky(rs[0], lon, lat, 'galactic') and abs(rs[0].radius.to_value('deg') - rad) < 1e-9
                  and rs[0].visual.get('color') == 'green' and included(rs[0]), 'global coord= and colour apply'))
    cases.append((f'#CRTF\nglobal coord=GALACTIC, color=green\ncircle[[{lon}deg, {lat}deg], {rad}deg], coord=J2000, color=red',
                  lambda rs: sky(rs[0], lon, lat, 'fk5') and rs[0].visual.get('color') == 'red', 'inline keys override global ones'))
    cases.append((f'#CRTF\nglobal coord=B1950\n-circle[[{lon}deg, {lat}deg], {rad * 60}arcmin]',
                  lambda rs: sky(rs[0], lon, lat, 'fk4') and not included(rs[0]) and abs(rs[0].radius.to_value('deg') - rad) < 1e-9, "leading '-' excludes; arcmin"))
    cases.append((f'#CRTF\nglobal coord=ICRS\nann circle[[{lon}deg, {lat}deg], {rad * 3600}arcsec]',
                  lambda rs: rs[0].meta.get('type') == 'ann' and sky(rs[0], lon, lat, 'icrs') and abs(rs[0].radius.to_value('deg') - rad) < 1e-9, "'ann' marks annotations; arcsec"))
    cases.append((f'#CRTF\nglobal coord=J2000\nellipse[[{lon}deg, {lat}deg], [{a}deg, {b}deg], {pa}deg]',
                  lambda rs: type(rs[0]).__name__ == 'EllipseSkyRegion' and abs(rs[0].height.to_value('deg') - 2 * a) < 1e-9
                  and abs(rs[0].width.to_value('deg') - 2 * b) < 1e-9 and abs(rs[0].angle.to_value('deg') - pa) < 1e-9, 'ellipse axes are [major, minor] semi-axes'))
    cases.append((f'#CRTF\nglobal coord=J2000\nrotbox[[{lon}deg, {lat}deg], [{a}deg, {b}deg], {pa}deg]',
                  lambda rs: type(rs[0]).__name__ == 'RectangleSkyRegion' and abs(rs[0].width.to_value('deg') - a) < 1e-9
                  and abs(rs[0].height.to_value('deg') - b) < 1e-9 and abs(rs[0].angle.to_value('deg') - pa) < 1e-9, 'rotbox is a rectangle'))
    cases.append((f'#CRTF\nglobal coord=J2000\ncenterbox[[{lon}deg, {lat}deg], [{a}deg, {b}deg]]',
                  lambda rs: type(rs[0]).__name__ == 'RectangleSkyRegion' and abs(rs[0].width.to_value('deg') - a) < 1e-9
                  and abs(rs[0].height.to_value('deg') - b) < 1e-9, 'centerbox is a rectangle'))
    x0, y0, w, h = 10.0, 20.0, 6.0, 4.0
    cases.append((f'#CRTF\nglobal coord=J2000\nbox[[{x0}pix, {y0}pix], [{x0 + w}pix, {y0 + h}pix]], coord=image',
                  lambda rs: type(rs[0]).__name__ == 'RectanglePixelRegion' and abs(rs[0].center.x - (x0 + w / 2)) < 1e-9 and abs(rs[0].center.y - (y0 + h / 2)) < 1e-9
                  and abs(rs[0].width - w) < 1e-9 and abs(rs[0].height - h) < 1e-9, 'box corners become a rectangle'))
    cases.append((f'#CRTF\nglobal coord=J2000\ncircle[[{lon}deg, {lat}deg], {rad}]', 'error', 'lengths require units'))
    hh = Angle(lon * u.deg).to_string(unit=u.hourangle, sep='hms', precision=4)
    dd = Angle(lat * u.deg).to_string(unit=u.deg, sep='dms', precision=3)
    ee = (Angle(hh).deg, Angle(dd).deg)
    cases.append((f'#CRTF\nglobal coord=J2000\ncircle[[{hh}, {dd}], {rad}deg]',
                  lambda rs: sky(rs[0], ee[0], ee[1], 'fk5'), 'sexagesimal hms / dms notation'))
    cases.append((f'#CRTF\nglobal coord=J2000\ncircle[[{math.radians(lon)}rad, {math.radians(lat)}rad], {math.radians(rad)}rad]',
                  lambda rs: sky(rs[0], lon, lat, 'fk5') and abs(rs[0].radius.to_value('deg') - rad) < 1e-9, 'rad notation'))
    cases.append((f'#CRTF\nglobal coord=J2000\ncircle[[{x0}pix, {y0}pix], 3pix], coord=image',
                  lambda rs: type(rs[0]).__name__ == 'CirclePixelRegion' and abs(rs[0].center.x - x0) < 1e-9 and abs(rs[0].radius - 3) < 1e-9, 'pix notation / image frame'))
    # a pixel ellipse / rotbox angle keeps its own unit; successive global lines accumulate
    ar = round(rng.uniform(0.1, 1.4), 3)
    cases.append((f'#CRTF\nglobal coord=J2000\nellipse[[{x0}pix, {y0}pix], [5pix, 2pix], {ar}rad], coord=image',
                  lambda rs: type(rs[0]).__name__ == 'EllipsePixelRegion' and abs(rs[0].angle.to_value('rad') - ar) < 1e-9, 'pixel ellipse angle in rad'))
    cases.append((f'#CRTF\nglobal coord=J2000\nrotbox[[{x0}pix, {y0}pix], [5pix, 2pix], {ar}rad], coord=image',
                  lambda rs: type(rs[0]).__name__ == 'RectanglePixelRegion' and abs(rs[0].angle.to_value('rad') - ar) < 1e-9, 'pixel rotbox angle in rad'))
    cases.append((f'#CRTF\nglobal coord=GALACTIC\nglobal color=green\ncircle[[{lon}deg, {lat}deg], {rad}deg]',
                  lambda rs: sky(rs[0], lon, lat, 'galactic') and rs[0].visual.get('color') == 'green', 'two global lines: both apply'))
    cases.append((f'#CRTF\nglobal coord=GALACTIC, color=green\nglobal color=red\ncircle[[{lon}deg, {lat}deg], {rad}deg]',
                  lambda rs: sky(rs[0], lon, lat, 'galactic') and rs[0].visual.get('color') == 'red', 'a later global line overrides only the keys it repeats'))
    # the text of a text region is what stands between its quotes, verbatim (also a quote character of the other kind at either end)
    for quoted, want in (("'scale 12\"'", 'scale 12"'), ('"beam 30\'"', "beam 30'"), ("'plain words'", 'plain words'), ('"\'quoted\' name"', "'quoted' name")):
        cases.append((f'#CRTF\nglobal coord=J2000\ntext[[{lon}deg, {lat}deg], {quoted}]',
                      (lambda w: (lambda rs: type(rs[0]).__name__ == 'TextSkyRegion' and rs[0].text == w))(want), f'text {quoted} is kept verbatim'))
    for whole in (True, False):
        dg, mn = rng.randint(0, 80), rng.randint(0, 59)
        sc = rng.randint(1, 59) if whole else round(rng.uniform(1, 59), 3)
        sgn = rng.choice(('-', '+'))
        tok = f'{sgn}{dg:03d}.{mn:02d}.{sc:02d}' if whole else f'{sgn}{dg:03d}.{mn:02d}.{sc:06.3f}'
        val = (-1 if sgn == '-' else 1) * (dg + mn / 60 + sc / 3600)
        cases.append((f'#CRTF\nglobal coord=J2000\ncircle[[{hh}, {tok}], {rad}deg]',
                      (lambda v: (lambda rs: abs(rs[0].center.spherical.lat.deg - v) < 1e-7))(val),
                      'dotted dd.mm.ss declination, ' + ('whole' if whole else 'fractional') + ' seconds'))
    for text, expect, what in cases:
        res.case(('read', what))
        try:
            rs = Regions.parse(text, format='crtf')
            if expect == 'error':
                res.violation(f'CASA rule not honoured ({what}): no error', text=text)
            elif not expect(rs):
                res.violation(f'CASA rule not honoured ({what})', text=text, parsed=str(rs))
        except Exception as e:
            if expect != 'error':
                res.violation(f'CASA rule not honoured ({what}): {type(e).__name__}: {e}', text=text)


def known_deviations(res, rng):
    """recorded findings of the unchanged tree, reproduced here so that they stay visible (and anything else still alarms)"""
    def attempt(fid, what, fn):
        try:
            if fn():
                res.known(fid, what)
        except Exception as e:
            res.known(fid, what + f' ({type(e).__name__})')
    c = SkyCoord(10 * u.deg, 20 * u.deg, frame='fk5')

    def f18():
        p = PolygonPixelRegion(PixCoord([1, 5, 3], [1, 1, 4]))
        Regions.parse(Regions([p]).serialize(format='crtf', coordsys='image'), format='crtf')
        return False

    def f19():
        r = CircleAnnulusSkyRegion(c, 1 * u.arcsec, 2 * u.arcsec)
        Regions.parse(Regions([r]).serialize(format='crtf', radunit='arcsec'), format='crtf')
        return False

    def f20():
        Regions.parse(Regions([PointSkyRegion(c)]).serialize(format='crtf'), format='crtf')
        return False

    def f21():
        r = CircleSkyRegion(c, 1 * u.deg, visual=RegionVisual({'linewidth': 2}))
        b = Regions.parse(Regions([r]).serialize(format='crtf'), format='crtf')[0]
        return b.visual.get('linewidth') != 2
    attempt('F18', 'image-frame CRTF output writes pixel positions with the deg suffix; polygons and lines written that way cannot be parsed', f18)
    attempt('F19', "radunit='arcsec' writes lengths with a '\"' suffix that the reader's own grammar rejects for length pairs", f19)
    attempt('F20', 'a point region without a symbol visual is written as point[[...]], which the CRTF reader rejects', f20)
    attempt('F21', 'CRTF metadata values come back as strings (linewidth=2 -> \'2\')', f21)


def main():
    prop, tier, seed, out = sys.argv[1], sys.argv[2], int(sys.argv[3]), sys.argv[4]
    rng = random.Random(seed)
    n_single = 300 if tier == 'quick' else 5000
    n_lists = 60 if tier == 'quick' else 1000
    res = Result('crtf_roundtrip', f'{n_single} single regions + {n_lists} lists of 2-4 (seed {seed}) from 8 classes x 6 frames x fmt x radunit x include x 5 metadata entries; 12 reading rules',
                 'serialise, parse, compare class/frame/geometry (half a unit of fmt)/include/label/meta, fixed point of parse->serialise; '
                 'reading rules on generated lines with known meaning')
    import copy
    combos = list(itertools.product(CKINDS, FRAMES, ('.3f', '.6f', '.10f'), ('deg', 'arcmin'), (None, True, False), range(len(METAS))))
    rng.shuffle(combos)
    for i, (kind, frame, fmt, radunit, inc, mi) in enumerate(combos[:n_single]):
        m, v = copy.deepcopy(METAS[mi])
        if inc is not None:
            m['include'] = inc
        nd = int(fmt[1:-1])
        if kind == 'text':
            m.pop('label', None)          # a CRTF text region has one string: its text
        mag = max(MAGS[i % 2], 40 * 10.0 ** (-nd) * 3600)
        try:
            r = build(kind, frame, rng, m, v, mag)
            res.case((kind, frame, fmt, radunit, inc, mi), sample={'class': type(r).__name__, 'frame': frame, 'fmt': fmt, 'radunit': radunit})
            check_roundtrip(res, [r], frame, fmt, radunit, (kind, frame, fmt, radunit, inc, mi))
        except Exception as e:
            res.violation(f'{type(e).__name__}: {e}', case=(kind, frame, fmt, radunit, inc, mi))
    # image frame: circle / ellipse / rotbox (the shapes whose image-frame output reads back), angles in any unit
    for i in range(60 if tier == 'quick' else 600):
        kind = ('circle', 'ellipse', 'rectangle')[i % 3]
        unit = ('deg', 'rad', 'arcmin', 'hourangle')[(i // 3) % 4]
        fmt = ('.3f', '.6f')[i % 2]
        r = make_region(kind, 'image', rng, MAGS[1 + i % 2], {}, {}, angle_unit=unit)
        res.case((kind, 'image', fmt, unit))
        try:
            check_roundtrip(res, [r], 'image', fmt, 'deg', (kind, 'image', fmt, unit))
        except Exception as e:
            res.violation(f'{type(e).__name__}: {e}', case=(kind, 'image', fmt, unit))
    for i in range(n_lists):
        frame = rng.choice(FRAMES)
        regs, desc = [], []
        for j in range(rng.choice((2, 3, 4))):
            kind = rng.choice(CKINDS)
            m, v = copy.deepcopy(rng.choice(METAS))
            if kind == 'text':
                m.pop('label', None)
            regs.append(build(kind, frame, rng, m, v, 1234.5))      # a CRTF file has one frame: regions are generated in it
            desc.append(kind)
        res.case(('list', tuple(desc), frame))
        try:
            check_roundtrip(res, regs, frame, '.6f', 'deg', ('list', desc, frame))
        except Exception as e:
            res.violation(f'{type(e).__name__}: {e}', case=('list', desc, frame))
    reading_conventions(res, rng)
    known_deviations(res, rng)
    res.write(out)


if __name__ == '__main__':
    main()
