"""bounded run-time check of C01 (safety net for changes that leave the verifier's subset): contains() of every pixel class
against the spec membership functions on sampled parameters and query points.
bound: 10 classes x seeded parameters (sizes over 6 decades, any angle in deg/rad/arcmin, fractional vertices) x query shapes
{scalar float, scalar int, 0-length, 1-D, 2-D} x include in {absent, True, False, 1, 0}; points closer than 1e-9 (relative) to
the boundary are skipped."""
import sys
from common import *  # noqa: F401,F403
sys.path.insert(0, os.path.join(os.path.dirname(os.path.dirname(os.path.abspath(__file__))), 'pyvc', 'native'))
from spec.geometry import disk_open, disk_closed, ellipse_open, ellipse_closed, rect_open, rect_closed  # noqa: E402
from spec.polygon import crossings_odd  # noqa: E402

INCS = (None, True, False, 1, 0)


def spec_member(r, x, y, grow):
    """spec membership with all sizes scaled by `grow` (slightly > 1: closed-ish, < 1: open-ish) -> boundary-agnostic bounds"""
    n = type(r).__name__
    if n in ('PointPixelRegion', 'LinePixelRegion', 'TextPixelRegion'):
        return False
    if n == 'CirclePixelRegion':
        return disk_open(r.center.x, r.center.y, r.radius * grow, x, y)
    cs = (lambda a: (math.cos(a.to_value('rad')), math.sin(a.to_value('rad'))))
    if n == 'EllipsePixelRegion':
        c, s = cs(r.angle)
        return ellipse_open(r.center.x, r.center.y, r.width * grow, r.height * grow, c, s, x, y)
    if n == 'RectanglePixelRegion':
        c, s = cs(r.angle)
        return rect_open(r.center.x, r.center.y, r.width * grow, r.height * grow, c, s, x, y)
    if n == 'CircleAnnulusPixelRegion':
        return disk_open(r.center.x, r.center.y, r.outer_radius * grow, x, y) and not disk_open(r.center.x, r.center.y, r.inner_radius / grow, x, y)
    if n in ('EllipseAnnulusPixelRegion', 'RectangleAnnulusPixelRegion'):
        c, s = cs(r.angle)
        f = ellipse_open if n.startswith('Ellipse') else rect_open
        return f(r.center.x, r.center.y, r.outer_width * grow, r.outer_height * grow, c, s, x, y) and \
            not f(r.center.x, r.center.y, r.inner_width / grow, r.inner_height / grow, c, s, x, y)
    raise ValueError(n)


def poly_near_edge(r, x, y, tol):
    vx, vy = np.asarray(r.vertices.x, float), np.asarray(r.vertices.y, float)
    n = len(vx)
    for i in range(n):
        j = (i + 1) % n
        ax, ay, bx, by = vx[i], vy[i], vx[j], vy[j]
        dx, dy = bx - ax, by - ay
        L2 = dx * dx + dy * dy
        t = 0.0 if L2 == 0 else max(0.0, min(1.0, ((x - ax) * dx + (y - ay) * dy) / L2))
        if math.hypot(x - (ax + t * dx), y - (ay + t * dy)) <= tol:
            return True
        if abs(y - ay) <= tol:       # the horizontal ray through a vertex height is the rule's own tie-break
            return True
    return False


def check_region(res, r, rng, desc):
    inc = bool(r.meta.get('include', True))
    scale = getattr(r, 'radius', None) or getattr(r, 'outer_radius', None) or getattr(r, 'width', None) or getattr(r, 'outer_width', None) or 10.0
    if isinstance(r, (PolygonPixelRegion,)):
        c = PixCoord(float(np.mean(r.vertices.x)), float(np.mean(r.vertices.y)))
        scale = float(np.ptp(r.vertices.x) + np.ptp(r.vertices.y)) or 1.0
    elif isinstance(r, LinePixelRegion):
        c = r.start
    else:
        c = r.center
    pts = [(c.x + rng.uniform(-1.3, 1.3) * scale, c.y + rng.uniform(-1.3, 1.3) * scale) for _ in range(40)]
    pts += [(c.x, c.y), (c.x + 0.49 * scale, c.y), (c.x, c.y - 0.51 * scale)]
    xs = np.array([p[0] for p in pts])
    ys = np.array([p[1] for p in pts])
    queries = [('1d', PixCoord(xs, ys)), ('2d', PixCoord(xs[:42].reshape(6, 7), ys[:42].reshape(6, 7))), ('empty', PixCoord(xs[:0], ys[:0])),
               ('scalar', PixCoord(pts[0][0], pts[0][1])), ('scalar-int', PixCoord(int(round(c.x)), int(round(c.y))))]
    for qname, q in queries:
        out = r.contains(q)
        if q.isscalar:
            if not isinstance(out, (bool, np.bool_)):
                res.violation(f'scalar query gives {type(out).__name__} of shape {np.shape(out)}', case=desc + (qname,))
                continue
        else:
            if not isinstance(out, np.ndarray) or out.dtype != bool or out.shape != np.shape(q.x):
                res.violation(f'array query of shape {np.shape(q.x)} gives {type(out).__name__} {getattr(out, "dtype", "")} {np.shape(out)}', case=desc + (qname,))
                continue
        xf, yf, of = np.ravel(np.asarray(q.x, float)), np.ravel(np.asarray(q.y, float)), np.ravel(out)
        for x, y, o in zip(xf, yf, of):
            if isinstance(r, PolygonPixelRegion):
                if poly_near_edge(r, x, y, 1e-9 * max(1.0, scale)):
                    continue
                want = crossings_odd(np.asarray(r.vertices.x, float), np.asarray(r.vertices.y, float), x, y)
                lo = hi = want
            else:
                lo, hi = spec_member(r, x, y, 1 - 1e-9), spec_member(r, x, y, 1 + 1e-9)
            if lo != hi:
                continue          # within rounding of the boundary: excepted by the property
            if bool(o) != (lo == inc):
                res.violation(f'point ({x!r}, {y!r}): contains -> {bool(o)}, geometric definition {lo}, include {r.meta.get("include", "absent")}', case=desc + (qname,), region=str(r))
                return
    if q.isscalar and (PixCoord(pts[1][0], pts[1][1]) in r) != bool(r.contains(PixCoord(pts[1][0], pts[1][1]))):
        res.violation('`in` differs from contains', case=desc)


def check_integer_inputs(res, rng, k):
    """regions with Python-int parameters queried with narrow integer arrays far from the region: machine integers must not wrap"""
    cx, cy, a, b = rng.randint(-50, 50), rng.randint(-50, 50), rng.randint(3, 40), rng.randint(3, 40)
    ang = (0, 30, 90, 215)[k % 4] * u.deg
    c = PixCoord(cx, cy)
    regs = [CirclePixelRegion(c, a), EllipsePixelRegion(c, a, b, ang), RectanglePixelRegion(c, a, b, ang),
            CircleAnnulusPixelRegion(c, a, a + b), EllipseAnnulusPixelRegion(c, a, a + b, b, 2 * b, ang),
            RectangleAnnulusPixelRegion(c, a, a + b, b, 2 * b, ang),
            PolygonPixelRegion(PixCoord([cx, cx + a, cx + a, cx], [cy, cy, cy + b, cy + b]))]
    for dt, lim in (('int16', 30000), ('int32', 2 * 10 ** 9), ('int64', 2 ** 40), ('int8', 60)):   # differences with the centre always fit the dtype; squares need not
        far = [rng.randint(-lim, lim) for _ in range(12)] + [cx + 1, cx, min(lim, cx + 2 * a + b), -lim, lim, 182 + cx, 46341 % lim]
        fary = [rng.randint(-lim, lim) for _ in range(12)] + [cy + 1, cy, cy, -lim, lim, cy, cy + 1]
        near = [max(-lim, min(lim, cx + rng.randint(-2 * a, 2 * a))) for _ in range(10)]
        neary = [max(-lim, min(lim, cy + rng.randint(-2 * b, 2 * b))) for _ in range(10)]
        clip = lambda L: [max(-lim, min(lim, v)) for v in L]
        xs, ys = np.array(clip(far + near), dt), np.array(clip(fary + neary), dt)
        for r in regs:
            desc = ('integer-inputs', type(r).__name__, dt, k)
            res.case(desc[:3])
            try:
                out = np.asarray(r.contains(PixCoord(xs, ys)))
            except Exception as e:
                res.violation(f'{type(e).__name__}: {e}', case=desc, region=str(r))
                continue
            if out.shape != xs.shape or out.dtype != bool:
                res.violation(f'{dt} query of shape {xs.shape} gives {out.dtype} {out.shape}', case=desc)
                continue
            for x, y, o in zip(xs.tolist(), ys.tolist(), out.tolist()):
                if isinstance(r, PolygonPixelRegion):
                    if poly_near_edge(r, x, y, 1e-9):
                        continue
                    lo = hi = crossings_odd(np.asarray(r.vertices.x, float), np.asarray(r.vertices.y, float), float(x), float(y))
                else:
                    lo, hi = spec_member(r, float(x), float(y), 1 - 1e-9), spec_member(r, float(x), float(y), 1 + 1e-9)
                if lo == hi and bool(o) != lo:
                    res.violation(f'{dt} point ({x}, {y}): contains -> {bool(o)}, geometric definition {lo}', case=desc, region=str(r))
                    break


def main():
    prop, tier, seed, out = sys.argv[1], sys.argv[2], int(sys.argv[3]), sys.argv[4]
    rng = random.Random(seed)
    n = 12 if tier == 'quick' else 300
    res = Result('membership', f'{n} seeded parameter sets per class (10 classes + regular polygons) x 5 include values x 5 query shapes x 43 points (seed {seed})',
                 'contains() is compared point by point with the geometric definition (boundary excepted), result type/shape with the query, '
                 'include=False with the complement; distinct = distinct (class, include, parameter set)')
    kinds = KINDS + ('regular_polygon',)
    for kind in kinds:
        for k in range(n):
            inc = INCS[k % 5]
            m = {} if inc is None else {'include': inc}
            mag = (0.003, 0.37, 12.5, 1234.5678, 3.3e5)[k % 5]
            if kind == 'regular_polygon':
                r = RegularPolygonPixelRegion(PixCoord(rng.uniform(-9, 9) + 0.5, rng.uniform(-9, 9)), rng.choice((3, 5, 8)), mag, rng.uniform(0, 360) * u.deg, meta=RegionMeta(m))
            elif kind == 'polygon' and k % 2 == 0:
                nv = rng.choice((3, 4, 6))
                r = PolygonPixelRegion(PixCoord([rng.uniform(0, 10) * mag + 0.5 for _ in range(nv)], [rng.uniform(0, 10) * mag + 0.75 for _ in range(nv)]),
                                       meta=RegionMeta(m), origin=PixCoord(0.25 * (k % 3), 0.5))
            else:
                r = make_region(kind, 'image', rng, mag, m, {}, angle_unit=('deg', 'rad', 'arcmin')[k % 3])
            desc = (kind, repr(inc), k)
            res.case(desc, sample=str(r) if k == 0 and kind in ('ellipse', 'polygon') else None)
            try:
                check_region(res, r, rng, desc)
            except Exception as e:
                res.violation(f'{type(e).__name__}: {e}', case=desc, region=str(r))
    for k in range(4 if tier == 'quick' else 60):
        check_integer_inputs(res, rng, k)
    res.write(out)


if __name__ == '__main__':
    main()
