"""bounded run-time check of C16 on real objects and machine numbers (the verifier compares reals): copies, copies with changes,
equality (reflexive, symmetric, unit-invariant, sensitive to every parameter / meta / visual entry), independence of copies under
in-place edits (incl. in-place operators on Quantity parameters), Regions slicing / copying.
bound: seeded regions of every pixel and sky class x changes; distinct = (class, kind of comparison)."""
import copy
import sys
from common import *  # noqa: F401,F403

SKYKINDS = ('circle', 'ellipse', 'rectangle', 'polygon', 'circle_annulus', 'ellipse_annulus', 'rectangle_annulus', 'line', 'point', 'text')
F29 = ('Region.__eq__ compares Quantity parameters exactly after a unit conversion, so a copy whose angular quantities were only '
       're-expressed in another unit is unequal in one or both directions for a few percent of values (floating-point rounding of '
       'the conversion): CircleSkyRegion(c, 0.806*u.arcsec) == its copy with radius.to(u.rad) is False while the reverse is True')


def params_of(r):
    return list(r._params) if getattr(r, '_params', None) else []


def ulp_close(a, b, unit):
    fa, fb = float(a.to_value(unit)), float(b.to_value(unit))
    return abs(fa - fb) <= 8 * np.spacing(max(abs(fa), abs(fb)))


def check(res, r, rng, desc):
    cls = type(r).__name__
    # ---- copy: equal, fresh
    cp = r.copy()
    res.case((cls, 'copy'))
    if not (cp == r and r == cp) or (cp != r):
        return res.violation('a copy does not compare equal to the original', case=desc, region=str(r))
    if type(cp) is not type(r) or cp is r or cp.meta is r.meta or cp.visual is r.visual:
        return res.violation('copy shares the object / meta / visual with the original', case=desc)
    snap = repr(r) + repr(dict(r.meta)) + repr(dict(r.visual))
    # ---- edits of the copy never show in the original
    cp.meta['label'] = 'edited'
    cp.visual['color'] = 'magenta'
    if 'tag' in cp.meta:
        cp.meta['tag'].append('x')
    for p in params_of(cp):
        v = getattr(cp, p)
        try:
            if isinstance(v, u.Quantity):
                v *= 3                      # in place: the copy must own its quantities
            elif isinstance(v, PixCoord) and not v.isscalar:
                np.asarray(v.x)[...] = -7.0
            elif isinstance(v, SkyCoord):
                pass
        except Exception:
            pass
    if repr(r) + repr(dict(r.meta)) + repr(dict(r.visual)) != snap:
        return res.violation('editing a copy (meta / visual / in-place parameter update) changed the original', case=desc, region=cls)
    # ---- equality: reflexive; every differing field makes regions unequal
    if not (r == r):
        return res.violation('== is not reflexive', case=desc)
    for p in params_of(r):
        v = getattr(r, p)
        other = None
        if isinstance(v, u.Quantity) and p != 'angle':
            other = r.copy(**{p: v * 1.25})
        elif p == 'angle':
            other = r.copy(angle=v + 10 * u.deg)
        elif isinstance(v, (int, float)) and not isinstance(v, bool):
            other = r.copy(**{p: v * 1.25})
        elif isinstance(v, str):
            other = r.copy(**{p: v + '!'})
        if other is None:
            continue
        res.case((cls, 'differs:' + p))
        try:
            eq1, eq2 = (r == other), (other == r)
        except Exception as e:
            return res.violation(f'== raised {type(e).__name__}: {e}', case=desc)
        if eq1 or eq2:
            return res.violation(f'regions differing in {p} compare equal', case=desc, a=str(r), b=str(other))
    for which in ('meta', 'visual'):
        d = copy.deepcopy(dict(getattr(r, which)))
        d['label' if which == 'meta' else 'linewidth'] = 'zzz' if which == 'meta' else 11
        other = r.copy(**{which: (RegionMeta if which == 'meta' else RegionVisual)(d)})
        res.case((cls, 'differs:' + which))
        if (r == other) or (other == r):
            return res.violation(f'regions differing in a {which} entry compare equal', case=desc)
    # ---- a region of another class with the same parameter names and values is a different region
    TWINS = {'EllipsePixelRegion': 'RectanglePixelRegion', 'RectanglePixelRegion': 'EllipsePixelRegion',
             'EllipseSkyRegion': 'RectangleSkyRegion', 'RectangleSkyRegion': 'EllipseSkyRegion',
             'EllipseAnnulusPixelRegion': 'RectangleAnnulusPixelRegion', 'RectangleAnnulusPixelRegion': 'EllipseAnnulusPixelRegion',
             'EllipseAnnulusSkyRegion': 'RectangleAnnulusSkyRegion', 'RectangleAnnulusSkyRegion': 'EllipseAnnulusSkyRegion'}
    if cls in TWINS:
        import regions as _rg
        twin = getattr(_rg, TWINS[cls])(**{p: getattr(r, p) for p in params_of(r)}, meta=r.meta.copy(), visual=r.visual.copy())
        res.case((cls, 'other-class-same-fields'))
        if (r == twin) or (twin == r) or not (r != twin):
            return res.violation(f'a {cls} equals a {TWINS[cls]} with the same parameters', case=desc)
    # ---- angular quantities re-expressed in another unit: still equal, both ways
    changes = {}
    for p in params_of(r):
        v = getattr(r, p)
        if isinstance(v, u.Quantity) and v.unit.physical_type == 'angle':
            changes[p] = v.to(rng.choice([un for un in (u.deg, u.arcmin, u.arcsec, u.rad) if un != v.unit]))
    if changes:
        other = r.copy(**changes)
        res.case((cls, 'units'))
        e1, e2 = (r == other), (other == r)
        if not (e1 and e2):
            if all(ulp_close(getattr(r, p), changes[p], getattr(r, p).unit) for p in changes):
                res.known('F29', F29)
            else:
                return res.violation(f'regions differing only by the unit of {sorted(changes)} compare unequal ({e1}, {e2})', case=desc,
                                     a=str(r), b=str(other))
    # ---- copy with changes differs exactly in the named fields
    ps = params_of(r)
    if ps:
        p = ps[-1]
        v = getattr(r, p)
        if isinstance(v, (u.Quantity, int, float)) and not isinstance(v, bool):
            new = v * 1.5 if p != 'angle' else v + 5 * u.deg
            other = r.copy(**{p: new})
            for q in ps:
                if q == p:
                    continue
                a, b = getattr(r, q), getattr(other, q)
                same = (a == b)
                if not (bool(np.all(same)) if not isinstance(same, bool) else same):
                    return res.violation(f'copy({p}=...) also changed {q}', case=desc)
            if dict(other.meta) != dict(r.meta) or dict(other.visual) != dict(r.visual):
                return res.violation(f'copy({p}=...) changed meta/visual', case=desc)


def check_list(res, rng, desc):
    regs = [make_region(rng.choice(KINDS), 'image', rng, 12.5, {'label': str(i)}, {}) for i in range(5)]
    rs = Regions(regs)
    for name, sub in (('slice', rs[1:4]), ('copy', rs.copy()), ('full-slice', rs[:])):
        res.case(('Regions', name))
        if not isinstance(sub, Regions):
            return res.violation(f'{name} of Regions is a {type(sub).__name__}', case=desc)
        before = [id(x) for x in rs.regions], len(rs), [repr(x) for x in rs.regions]
        sub.append(regs[0])
        sub.pop(0)
        sub.regions.reverse() if hasattr(sub, 'regions') else None
        after = [id(x) for x in rs.regions], len(rs), [repr(x) for x in rs.regions]
        if before[1] != after[1] or before[0] != after[0]:
            return res.violation(f'editing a {name} of a Regions list altered the source list', case=desc)


def main():
    prop, tier, seed, out = sys.argv[1], sys.argv[2], int(sys.argv[3]), sys.argv[4]
    rng = random.Random(seed)
    n = 6 if tier == 'quick' else 150
    res = Result('values', f'{n} seeded regions per class (10 pixel + 10 sky classes) (seed {seed})',
                 'copy equal and fresh; edits of the copy (meta, visual, nested lists, in-place Quantity / array updates) never show in the '
                 'original; == reflexive, symmetric, false for any differing parameter/meta/visual entry, true for unit-only differences; '
                 'copy(field=...) changes only that field; slices/copies of Regions are independent lists')
    for frame in ('image', 'icrs', 'galactic'):
        for kind in (KINDS if frame == 'image' else SKYKINDS):
            for k in range(n):
                meta = {'label': 'a', 'tag': ['g1']} if k % 2 else {'include': False}
                vis = {'color': 'red', 'dashes': [1, 2]} if k % 3 == 0 else {}
                r = make_region(kind, frame, rng, (0.37, 12.5, 1234.5678)[k % 3], meta, vis, angle_unit=('deg', 'rad', 'arcmin')[k % 3])
                desc = (kind, frame, k)
                try:
                    check(res, r, rng, desc)
                except Exception as e:
                    res.violation(f'{type(e).__name__}: {e}', case=desc, region=type(r).__name__)
    for k in range(n):
        try:
            check_list(res, rng, ('Regions', k))
        except Exception as e:
            res.violation(f'{type(e).__name__}: {e}', case=('Regions', k))
    res.write(out)


if __name__ == '__main__':
    main()
