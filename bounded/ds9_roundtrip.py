"""bounded run-time check of C09 / C10 text layer: serialise -> parse round trip of real regions through the real DS9 text.
bound: 10 classes x 6 frames x precision {1,3,8,12} x 3 magnitudes x 12 metadata entries x lists of 1-4 regions (quick: a seeded
sample of that product; thorough: larger sample)."""
import sys
from common import *  # noqa: F401,F403

FRAMES = ('image', 'icrs', 'fk5', 'fk4', 'galactic', 'barycentricmeanecliptic')
VOCAB = [
    ({}, {}),
    ({'text': 'my label; with # and = signs'}, {}),
    ({'include': False}, {}),
    ({'include': True}, {}),
    ({'tag': ['group 1', 'b']}, {'color': 'red'}),
    ({}, {'edgecolor': '#00ff00', 'facecolor': '#00ff00', 'linewidth': 2, 'fill': True}),
    ({}, {'color': 'blue', 'linestyle': 'dashed'}),
    ({}, {'linestyle': (0, (8, 3))}),
    ({'text': 'x'}, {'fontname': 'helvetica', 'fontsize': 12, 'fontweight': 'bold', 'fontstyle': 'normal'}),
    ({'source': 1, 'edit': 0}, {}),
    ({'text': 'NGC 1333 "core"', 'tag': ["fov 5'", 'beam 12"']}, {}),
    ({'text': "'quoted'"}, {}),
]


def included(r):
    return bool(r.meta.get('include', True))


def check_roundtrip(res, regs, prec, desc):
    import copy
    text = Regions(regs).serialize(format='ds9', precision=prec)
    if Regions(regs).serialize(format='ds9', precision=prec) != text:
        res.violation('serialising twice gives different text', case=desc)
    back = Regions.parse(text, format='ds9')
    if len(back) != len(regs):
        res.violation(f'{len(regs)} regions written, {len(back)} read back', case=desc, text=text)
        return
    half = 0.5 * 10 ** (-prec)
    for a, b in zip(regs, back):
        a2 = a.to_polygon() if isinstance(a, RegularPolygonPixelRegion) else a
        kind_axes = type(a2).__name__.startswith('Ellipse')
        d = geometry_diff(a2, b, half * 1.0000001 + 1e-12, half * 1.0000001 + 1e-12, half * 1.0000001 + 1e-9, axes_double=kind_axes)
        if d:
            res.violation('geometry not recovered within half a unit: ' + d, case=desc, text=text)
        if included(a) != included(b):
            res.violation(f'include sense changed: {a.meta.get("include", "absent")} -> {b.meta.get("include", "absent")}', case=desc, text=text)
        ta = a.meta.get('text', getattr(a, 'text', None)) if not hasattr(a, 'text') else a.text
        tb = b.meta.get('text', getattr(b, 'text', None)) if not hasattr(b, 'text') else b.text
        if (ta or None) != (tb or None):
            res.violation(f'text changed: {ta!r} -> {tb!r}', case=desc, text=text)
        if list(a.meta.get('tag', [])) != list(b.meta.get('tag', [])):
            res.violation(f'tags changed: {a.meta.get("tag")} -> {b.meta.get("tag")}', case=desc, text=text)
    # fixed point: parse -> serialise -> parse
    text2 = back.serialize(format='ds9', precision=prec)
    again = Regions.parse(text2, format='ds9')
    if len(again) != len(back) or any(x != y for x, y in zip(back, again)):
        res.violation('parse -> serialise -> parse is not a fixed point', case=desc, text=text, text2=text2)


def main():
    prop, tier, seed, out = sys.argv[1], sys.argv[2], int(sys.argv[3]), sys.argv[4]
    rng = random.Random(seed)
    n_single = 400 if tier == 'quick' else 6000
    n_lists = 120 if tier == 'quick' else 2000
    res = Result('ds9_roundtrip', f'{n_single} single regions + {n_lists} lists of 2-4 regions sampled (seed {seed}) from 10 classes x 6 frames x '
                 'precision {1,3,8,12} x 3 magnitudes x 10 metadata entries',
                 'each case: serialise, parse, compare class/frame/geometry (half a unit of the precision)/include/text/tags, then '
                 'parse->serialise->parse fixed point; distinct = distinct (class, frame, precision, metadata entry, list shape)')
    combos = list(itertools.product(KINDS, FRAMES, (1, 3, 8, 12), range(len(VOCAB))))
    rng.shuffle(combos)
    # make sure every class x frame and every metadata entry occurs
    for i, (kind, frame, prec, vi) in enumerate(combos[:n_single]):
        mag = MAGS[i % 3]
        if frame != 'image':
            mag = MAGS[i % 2]
        # sizes must survive rounding at the requested precision (several units of the last written decimal)
        unit_size = 10.0 ** (-prec) * (3600 if frame != 'image' else 1)
        mag = max(mag, 40 * unit_size)
        m, v = VOCAB[vi]
        if kind == 'text':
            m = {k: x for k, x in m.items() if k != 'text'}
        import copy
        try:
            r = make_region(kind, frame, rng, mag, copy.deepcopy(m), copy.deepcopy(v), angle_unit=('deg', 'rad')[i % 2])
            res.case((kind, frame, prec, vi), sample={'class': type(r).__name__, 'frame': frame, 'precision': prec, 'meta': m, 'visual': str(v)})
            check_roundtrip(res, [r], prec, (kind, frame, prec, vi, mag))
        except Exception as e:
            res.violation(f'{type(e).__name__}: {e}', case=(kind, frame, prec, vi))
    for i in range(n_lists):
        n = rng.choice((2, 3, 4))
        regs = []
        share = rng.random() < 0.5
        vi0 = rng.randrange(len(VOCAB))
        frame0 = rng.choice(FRAMES)
        desc = []
        import copy
        prec = rng.choice((3, 8))
        for j in range(n):
            kind = rng.choice(KINDS)
            frame = frame0 if rng.random() < 0.6 else rng.choice(FRAMES)
            vi = vi0 if share else rng.randrange(len(VOCAB))
            m, v = VOCAB[vi]
            if kind == 'text':
                m = {k: x for k, x in m.items() if k != 'text'}
            regs.append(make_region(kind, frame, rng, max(MAGS[1 + j % 2], 40 * 10.0 ** (-prec) * (3600 if frame != 'image' else 1)), copy.deepcopy(m), copy.deepcopy(v)))
            desc.append((kind, frame, vi))
        res.case(('list', tuple(desc)))
        try:
            check_roundtrip(res, regs, prec, ('list', desc, prec))
        except Exception as e:
            res.violation(f'{type(e).__name__}: {e}', case=('list', desc))
    res.write(out)


if __name__ == '__main__':
    main()
