"""bounded run-time check of C10: files generated from a grammar of the supported DS9 subset are parsed by the real reader and
compared with the regions the generator intended (the generator is the independent reference: it renders known regions in
randomly chosen notations, so the expected result is known by construction).
bound: files of 1-8 statements; shapes x frames (incl. aliases j2000/b1950 and unsupported frames/shapes) x coordinate
notations (bare, d, r, i, sexagesimal : and hms/dms) x size units (bare, ", ', d, r, i) x separators (newline / ;, commas or
spaces, with or without parentheses) x case x include sign / include= property x global lines x text delimiters."""
import sys
from common import *  # noqa: F401,F403
from astropy.coordinates import Angle

SUPPORTED = {'image': 'image', 'icrs': 'icrs', 'fk5': 'fk5', 'j2000': 'fk5', 'fk4': 'fk4', 'b1950': 'fk4', 'galactic': 'galactic',
             'ecliptic': 'barycentricmeanecliptic'}
UNSUPPORTED_FRAMES = ['physical', 'linear', 'amplifier', 'detector', 'tile', 'wcs', 'wcs0', 'wcsa', 'wcsq']
UNSUPPORTED_SHAPES = ['vector', 'ruler', 'compass', 'projection', 'panda', 'epanda', 'bpanda']
EQUATORIAL = ('icrs', 'fk5', 'j2000', 'fk4', 'b1950')


def q(x, nd=4):
    return round(x, nd)


def fmt(x):
    return np.format_float_positional(float(x), unique=True, trim='0')


def sexa(value_deg, hours, rng, style):
    """sexagesimal rendering of an angle given in degrees; hours=True renders it as hours of right ascension"""
    v = value_deg / 15.0 if hours else value_deg
    sign = '-' if v < 0 else ''
    v = abs(v)
    a = int(v)
    b = int((v - a) * 60)
    c = round(((v - a) * 60 - b) * 60, 4)
    if c >= 60:
        c -= 60
        b += 1
    if b >= 60:
        b -= 60
        a += 1
    exact = (a + b / 60 + c / 3600) * (15.0 if hours else 1.0) * (-1 if sign else 1)
    if style == ':':
        return f'{sign}{a}:{b:02d}:{c}', exact
    if hours:
        return f'{sign}{a}h{b:02d}m{c}s', exact
    return f'{sign}{a}d{b:02d}m{c}s', exact


class Gen:
    def __init__(self, rng):
        self.rng = rng

    def position(self, frameword):
        """(text tokens, expected (x, y) | (lon deg, lat deg))"""
        rng = self.rng
        if frameword == 'image':
            x, y = q(rng.uniform(-50, 500), 3), q(rng.uniform(-50, 500), 3)
            tx = fmt(x + 1) + rng.choice(('', 'i'))
            ty = fmt(y + 1) + rng.choice(('', 'i'))
            return [tx, ty], (x, y)
        lon, lat = q(rng.uniform(0.5, 359.5), 5), q(rng.uniform(-85, 85), 5)
        style = rng.choice(('bare', 'd', 'r', ':', 'hms'))
        if style == 'bare':
            return [fmt(lon), fmt(lat)], (lon, lat)
        if style == 'd':
            return [fmt(lon) + 'd', fmt(lat) + 'd'], (lon, lat)
        if style == 'r':
            return [fmt(math.radians(lon)) + 'r', fmt(math.radians(lat)) + 'r'], (lon, lat)
        if style == ':':
            # a:b:c longitudes are hours for equatorial frames only, degrees for galactic / ecliptic
            t1, e1 = sexa(lon, frameword in EQUATORIAL, rng, ':')
            t2, e2 = sexa(lat, False, rng, ':')
            return [t1, t2], (e1, e2)
        t1, e1 = sexa(lon, True, rng, 'hms') if frameword in EQUATORIAL else sexa(lon, False, rng, 'dms')
        t2, e2 = sexa(lat, False, rng, 'dms')
        return [t1, t2], (e1, e2)

    def size(self, frameword):
        rng = self.rng
        if frameword == 'image':
            v = q(rng.uniform(0.5, 80), 3)
            return fmt(v) + rng.choice(('', 'i')), v
        v = q(rng.uniform(0.001, 0.5), 6)      # degrees
        style = rng.choice(('bare', '"', "'", 'd', 'r'))
        if style == 'bare':
            return fmt(v), v
        if style == '"':
            return fmt(v * 3600) + '"', v
        if style == "'":
            return fmt(v * 60) + "'", v
        if style == 'd':
            return fmt(v) + 'd', v
        return fmt(math.radians(v)) + 'r', v

    def angle(self):
        rng = self.rng
        v = q(rng.uniform(-180, 360), 3)
        style = rng.choice(('bare', 'd', 'r'))
        if style == 'r':
            return fmt(math.radians(v)) + 'r', v
        return fmt(v) + ('d' if style == 'd' else ''), v

    def region(self, frameword):
        """returns (shape word, tokens, [expected dicts])"""
        rng = self.rng
        shape = rng.choice(('circle', 'ellipse', 'box', 'annulus', 'polygon', 'line', 'point', 'text', 'annulus3', 'ellipse2', 'box2', 'ellipse3', 'box3'))
        if shape == 'circle':
            p, c = self.position(frameword)
            s, r = self.size(frameword)
            return 'circle', p + [s], [dict(kind='circle', center=c, radius=r)]
        if shape in ('ellipse', 'box'):
            p, c = self.position(frameword)
            s1, a = self.size(frameword)
            s2, b = self.size(frameword)
            t, ang = self.angle()
            k = 2.0 if shape == 'ellipse' else 1.0       # ellipse radii are semi-axes
            return shape, p + [s1, s2, t], [dict(kind='ellipse' if shape == 'ellipse' else 'rectangle', center=c, width=k * a, height=k * b, angle=ang)]
        if shape in ('annulus', 'annulus3'):
            p, c = self.position(frameword)
            n = 2 if shape == 'annulus' else 4
            ss = sorted([self.size(frameword) for _ in range(n)], key=lambda t: t[1])
            if any(abs(ss[i][1] - ss[i + 1][1]) < 1e-9 for i in range(n - 1)):
                return self.region(frameword)
            exp = [dict(kind='circle_annulus', center=c, inner_radius=ss[i][1], outer_radius=ss[i + 1][1]) for i in range(n - 1)]
            return 'annulus', p + [t[0] for t in ss], exp
        if shape in ('ellipse3', 'box3'):
            # three radius pairs: two consecutive annuli sharing the middle pair
            p, c = self.position(frameword)
            w = sorted([self.size(frameword) for _ in range(3)], key=lambda t: t[1])
            h = sorted([self.size(frameword) for _ in range(3)], key=lambda t: t[1])
            if any(abs(x[i][1] - x[i + 1][1]) < 1e-9 for x in (w, h) for i in range(2)):
                return self.region(frameword)
            t, ang = self.angle()
            k = 2.0 if shape == 'ellipse3' else 1.0
            kind = 'ellipse_annulus' if shape == 'ellipse3' else 'rectangle_annulus'
            exp = [dict(kind=kind, center=c, inner_width=k * w[i][1], outer_width=k * w[i + 1][1], inner_height=k * h[i][1], outer_height=k * h[i + 1][1], angle=ang)
                   for i in range(2)]
            toks = p + [w[0][0], h[0][0], w[1][0], h[1][0], w[2][0], h[2][0], t]
            return ('ellipse' if shape == 'ellipse3' else 'box'), toks, exp
        if shape in ('ellipse2', 'box2'):
            p, c = self.position(frameword)
            w = sorted([self.size(frameword) for _ in range(2)], key=lambda t: t[1])
            h = sorted([self.size(frameword) for _ in range(2)], key=lambda t: t[1])
            if abs(w[0][1] - w[1][1]) < 1e-9 or abs(h[0][1] - h[1][1]) < 1e-9:
                return self.region(frameword)
            t, ang = self.angle()
            k = 2.0 if shape == 'ellipse2' else 1.0
            exp = [dict(kind='ellipse_annulus' if shape == 'ellipse2' else 'rectangle_annulus', center=c, inner_width=k * w[0][1], outer_width=k * w[1][1],
                        inner_height=k * h[0][1], outer_height=k * h[1][1], angle=ang)]
            return ('ellipse' if shape == 'ellipse2' else 'box'), p + [w[0][0], h[0][0], w[1][0], h[1][0], t], exp
        if shape == 'polygon':
            n = rng.choice((3, 4, 5))
            toks, pts = [], []
            for _ in range(n):
                p, c = self.position(frameword)
                toks += p
                pts.append(c)
            return 'polygon', toks, [dict(kind='polygon', vertices=pts)]
        if shape == 'line':
            p1, c1 = self.position(frameword)
            p2, c2 = self.position(frameword)
            return 'line', p1 + p2, [dict(kind='line', start=c1, end=c2)]
        p, c = self.position(frameword)
        return shape, p, [dict(kind=shape, center=c)]


def render(shape, toks, rng, sign, props):
    name = shape.upper() if rng.random() < 0.2 else shape
    sep = rng.choice((',', ' ', ', '))
    body = sep.join(toks)
    body = f'({body})' if rng.random() < 0.8 else f' {body}'
    line = f'{sign}{name}{body}'
    if props:
        # property names are case-insensitive in DS9 files
        def recase(pr):
            k, _, v = pr.partition('=')
            r = rng.random()
            return (k.upper() if r < 0.15 else k.capitalize() if r < 0.25 else k) + '=' + v
        line += ' # ' + ' '.join(recase(pr) for pr in props)
    return line


def check_file(res, rng):
    g = Gen(rng)
    lines = []
    expected = []          # (frame name, expected dict, include, text)
    frame = None
    glob = {}
    nst = rng.randint(1, 8)
    for _ in range(nst):
        what = rng.random()
        if what < 0.25 or frame is None and what < 0.6:
            w = rng.choice(list(SUPPORTED) + (UNSUPPORTED_FRAMES if rng.random() < 0.25 else []))
            lines.append(w.upper() if rng.random() < 0.15 else w)
            frame = w if w in SUPPORTED else None
            continue
        if what < 0.32:
            lines.append('# a comment line')
            continue
        if what < 0.40:
            # successive global lines accumulate; a later one overrides the keys it repeats
            gl = rng.choice(('global color=green dashlist=8 3 width=1', 'global color=blue font="helvetica 10 normal roman"',
                             'global color=green dashlist=8 3 width=1 select=1 highlite=1 dash=0 fixed=0 edit=1 move=1 delete=1 include=1 source=1',
                             'global width=4', 'global color=magenta width=2'))
            lines.append(gl)
            for kv in gl.split()[1:]:
                if kv.startswith('color=') or kv.startswith('width='):
                    glob[kv.split('=')[0]] = kv.split('=')[1]
            continue
        if what < 0.47:
            sh = rng.choice(UNSUPPORTED_SHAPES)
            lines.append(f'{sh}(10,10,20,20)')
            continue
        fw = frame if frame is not None else rng.choice(list(SUPPORTED))
        shape, toks, exps = g.region(fw)
        sign = rng.choice(('', '', '+', '-'))
        props = []
        include = 0 if sign == '-' else 1
        if rng.random() < 0.15:
            iv = rng.choice((0, 1))
            props.append(f'include={iv}')
            include = iv            # per-region property overrides the sign
        text = None
        if shape == 'text' or rng.random() < 0.3:
            text = rng.choice(('hello', 'two words', 'semi;colon', 'a=b', 'NGC 1 (core)', 'f(x) = (a)'))
            d = rng.choice(('{}', '""', "''"))
            props.append(f'text={d[0]}{text}{d[1]}')
        color = glob.get('color')
        if rng.random() < 0.3:
            props.append('color=red')
            color = 'red'               # per-region property overrides the global one
        lines.append(render(shape, toks, rng, sign, props))
        if frame is not None:
            for e in exps:
                expected.append((SUPPORTED[frame], e, include, text, color, glob.get('width')))
    content = ('\n' if rng.random() < 0.8 else ';').join(lines) if not any('semi;colon' in l for l in lines) or True else '\n'.join(lines)
    # ';' may replace newlines only when no line carries a '#' property list or comment (DS9 itself treats # to end of line)
    if ';' in content and '\n' not in content and any('#' in l for l in lines):
        content = '\n'.join(lines)
    try:
        got = Regions.parse(content, format='ds9')
    except Exception as e:
        res.violation(f'{type(e).__name__}: {e}', file=content)
        return content, len(expected)
    if len(got) != len(expected):
        res.violation(f'{len(expected)} regions expected, {len(got)} parsed', file=content, parsed=[type(r).__name__ for r in got])
        return content, len(expected)
    for r, (fr, e, inc, text, color, width) in zip(got, expected):
        d = compare(r, fr, e, inc, text)
        if not d:
            gc = r.visual.get('color', r.visual.get('edgecolor'))
            if gc != color:
                d = f'colour: got {gc!r}, expected {color!r} (global lines and per-region property)'
            gw = r.visual.get('linewidth', r.visual.get('markeredgewidth'))
            if not d and (None if gw is None else float(gw)) != (None if width is None else float(width)):
                d = f'line width: got {gw!r}, expected {width!r} (from the global lines)'
        if d:
            res.violation(d, file=content, region=str(r))
    return content, len(expected)


KIND_CLASS = {'circle': 'Circle', 'ellipse': 'Ellipse', 'rectangle': 'Rectangle', 'polygon': 'Polygon', 'line': 'Line', 'point': 'Point',
              'text': 'Text', 'circle_annulus': 'CircleAnnulus', 'ellipse_annulus': 'EllipseAnnulus', 'rectangle_annulus': 'RectangleAnnulus'}


def near(a, b, tol):
    return abs(a - b) <= tol * max(1.0, abs(a), abs(b))


def pos_ok(c, exp, sky):
    if sky:
        return near(float(c.spherical.lon.deg), exp[0], 1e-9) and near(float(c.spherical.lat.deg), exp[1], 1e-9)
    return near(float(c.x), exp[0], 1e-9) and near(float(c.y), exp[1], 1e-9)


def compare(r, frame, e, inc, text):
    sky = frame != 'image'
    want = KIND_CLASS[e['kind']] + ('SkyRegion' if sky else 'PixelRegion')
    if type(r).__name__ != want:
        return f'class {type(r).__name__}, expected {want}'
    for name, v in e.items():
        if name == 'kind':
            continue
        got = getattr(r, name)
        if name in ('center', 'start', 'end'):
            if sky and got.frame.name != frame:
                return f'frame {got.frame.name}, expected {frame}'
            if not pos_ok(got, v, sky):
                return f'{name}: got {got}, expected {v}'
        elif name == 'vertices':
            for i, p in enumerate(v):
                if not pos_ok(got[i], p, sky):
                    return f'vertex {i}: got {got[i]}, expected {p}'
            if len(got) != len(v):
                return 'vertex count'
        elif name == 'angle':
            if not near(float(got.to_value('deg')), v, 1e-9):
                return f'angle: got {got}, expected {v} deg'
        else:
            g = float(got.to_value('deg')) if sky else float(got)
            if not near(g, v, 1e-9):
                return f'{name}: got {got}, expected {v} ({"deg" if sky else "pix"})'
    if bool(r.meta.get('include', True)) != bool(inc):
        return f'include: got {r.meta.get("include")}, expected {inc}'
    if text is not None:
        t = r.text if hasattr(r, 'text') else r.meta.get('text')
        if t != text:
            return f'text: got {t!r}, expected {text!r}'
    return None


def main():
    prop, tier, seed, out = sys.argv[1], sys.argv[2], int(sys.argv[3]), sys.argv[4]
    rng = random.Random(seed)
    n = 600 if tier == 'quick' else 20000
    res = Result('ds9_grammar', f'{n} files of 1-8 statements generated from the grammar of the supported DS9 subset (seed {seed})',
                 'each file is rendered from known regions in randomly chosen notations and parsed by the real reader; the parsed '
                 'regions must be exactly the intended ones (class, frame, geometry to 1e-9 relative, include sense, text); '
                 'non-trivial = file with at least one expected region')
    for i in range(n):
        content, nexp = check_file(res, rng)
        res.case(content, nontrivial=nexp > 0, sample=content if nexp > 1 else None)
    res.write(out)


if __name__ == '__main__':
    main()
