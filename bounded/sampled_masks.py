"""bounded run-time check of C02 against the compiled kernels themselves (the deductive proof reads the .pyx text; this runner executes
the .so): centre and subpixel masks of every maskable class equal the fraction of member sample centres, computed here independently
with numpy from the definition (n x n regular sample centres per pixel; membership from spec/geometry.py, even-odd rule for polygons).
no member pixel centre lies outside the mask grid (searched in a frame as wide as the grid around it).
bound: seeded regions of 7 classes x modes {center, subpixels n in 1, 2, 3, 5, 33, 64} x include {absent, False}; sample points closer
than 1e-9 to the boundary are tolerated (one sample's weight per such point)."""
import sys
from common import *  # noqa: F401,F403


def member_grid(r, X, Y):
    """vectorised spec membership of sample points (X, Y); returns (inside, near_boundary)"""
    n = type(r).__name__
    tol = 1e-9

    def rot(cx, cy, a):
        c, s = math.cos(a), math.sin(a)
        dx, dy = X - cx, Y - cy
        return c * dx + s * dy, -s * dx + c * dy
    if n == 'CirclePixelRegion':
        d = np.hypot(X - r.center.x, Y - r.center.y)
        return d < r.radius, np.abs(d - r.radius) < tol * max(1.0, r.radius)
    if n == 'EllipsePixelRegion':
        u_, v_ = rot(r.center.x, r.center.y, r.angle.to_value('rad'))
        q = (u_ / (r.width / 2)) ** 2 + (v_ / (r.height / 2)) ** 2
        return q < 1, np.abs(q - 1) < 1e-7
    if n == 'RectanglePixelRegion':
        u_, v_ = rot(r.center.x, r.center.y, r.angle.to_value('rad'))
        ins = (np.abs(u_) < r.width / 2) & (np.abs(v_) < r.height / 2)
        near = (np.abs(np.abs(u_) - r.width / 2) < tol * max(1.0, r.width)) | (np.abs(np.abs(v_) - r.height / 2) < tol * max(1.0, r.height))
        return ins, near
    if n in ('PolygonPixelRegion', 'RegularPolygonPixelRegion'):
        vx, vy = np.asarray(r.vertices.x, float), np.asarray(r.vertices.y, float)
        odd = np.zeros(X.shape, bool)
        near = np.zeros(X.shape, bool)
        m = len(vx)
        for k in range(m):
            j = (k + m - 1) % m
            strad = (vy[k] > Y) != (vy[j] > Y)
            with np.errstate(all='ignore'):
                xi = vx[k] + (Y - vy[k]) * (vx[j] - vx[k]) / (vy[j] - vy[k])
            odd ^= strad & (X < xi)
            near |= (strad & (np.abs(X - xi) < 1e-9)) | (np.abs(Y - vy[k]) < 1e-12)
        return odd, near
    raise ValueError(n)


def expected_mask(r, bbox, n):
    ny, nx = bbox.shape
    # sample centres of pixel (i, j): ixmin + i - 0.5 + (a + 0.5) / n
    xs = bbox.ixmin - 0.5 + (np.arange(nx * n) + 0.5) / n
    ys = bbox.iymin - 0.5 + (np.arange(ny * n) + 0.5) / n
    X, Y = np.meshgrid(xs, ys)
    ins, near = member_grid(r, X, Y)
    cnt = ins.reshape(ny, n, nx, n).sum(axis=(1, 3)) / (n * n)
    slack = near.reshape(ny, n, nx, n).sum(axis=(1, 3)) / (n * n)
    return cnt, slack


def members_outside(r, bbox):
    """pixel centres that are members although they lie outside the mask grid (searched in a frame around it as wide as the grid)"""
    ny, nx = bbox.shape
    pad = max(nx, ny) + 2
    xs = np.arange(bbox.ixmin - pad, bbox.ixmax + pad, dtype=float)
    ys = np.arange(bbox.iymin - pad, bbox.iymax + pad, dtype=float)
    X, Y = np.meshgrid(xs, ys)
    ins, near = member_grid(r, X, Y)
    out = (X < bbox.ixmin) | (X >= bbox.ixmax) | (Y < bbox.iymin) | (Y >= bbox.iymax)
    bad = ins & ~near & out
    return [(X[j, i], Y[j, i]) for j, i in np.argwhere(bad)[:3]]


def check(res, r, desc):
    if r.bounding_box.shape[0] * r.bounding_box.shape[1] < 40_000:
        m0 = r.to_mask(mode='center')
        res.case((type(r).__name__, 'outside'))
        lost = members_outside(r, m0.bbox)
        if lost:
            return res.violation(f'pixel centres {lost} are members of the region but lie outside the mask grid {m0.bbox}: '
                                 'mask.to_image() is 0 there', case=desc, region=str(r))
    for mode, n in (('center', 1), ('subpixels', 1), ('subpixels', 2), ('subpixels', 3), ('subpixels', 5), ('subpixels', 33), ('subpixels', 64)):
        if n * n * r.bounding_box.shape[0] * r.bounding_box.shape[1] > 3_000_000:
            continue                # the reference array would not fit comfortably: large regions get the smaller n only
        m = r.to_mask(mode=mode, subpixels=n) if mode == 'subpixels' else r.to_mask(mode='center')
        res.case((type(r).__name__, mode, n))
        want, slack = expected_mask(r, m.bbox, n)
        if m.data.shape != want.shape:
            return res.violation(f'{mode} n={n}: mask shape {m.data.shape}, box shape {want.shape}', case=desc)
        bad = np.abs(m.data - want) > slack + 1e-12
        if bad.any():
            j, i = np.argwhere(bad)[0]
            return res.violation(f'{mode} n={n}: pixel ({m.bbox.ixmin + i}, {m.bbox.iymin + j}) holds {m.data[j, i]!r}, fraction of member sample '
                                 f'centres is {want[j, i]!r}', case=desc, region=str(r))


def main():
    prop, tier, seed, out = sys.argv[1], sys.argv[2], int(sys.argv[3]), sys.argv[4]
    rng = random.Random(seed)
    n = 6 if tier == 'quick' else 60
    res = Result('sampled_masks', f'{n} seeded regions per class (circle, ellipse, rectangle, polygon, regular polygon) x 7 sampling settings x include (seed {seed})',
                 'every pixel of centre / subpixel masks produced by the compiled kernels equals the fraction of member sample centres computed '
                 'independently with numpy from the definition; the include flag does not change a mask')
    for kind in ('circle', 'ellipse', 'rectangle', 'polygon', 'regular_polygon'):
        for k in range(n):
            mag = (0.4, 2.3, 9.7, 31.0)[k % 4]
            meta = {'include': False} if k % 3 == 0 else {}
            if kind == 'regular_polygon':
                r = RegularPolygonPixelRegion(PixCoord(rng.uniform(-9, 9), rng.uniform(-9, 9)), rng.choice((3, 5, 8)), mag, rng.uniform(0, 360) * u.deg, meta=RegionMeta(meta))
            else:
                r = make_region(kind, 'image', rng, mag, meta, {}, angle_unit=('deg', 'rad', 'arcmin')[k % 3])
            desc = (kind, k)
            try:
                check(res, r, desc)
            except Exception as e:
                res.violation(f'{type(e).__name__}: {e}', case=desc, region=str(r))
    res.write(out)


if __name__ == '__main__':
    main()
