"""bounded run-time check of C20 on machine numbers (the verifier treats arithmetic as real; this runner covers dtypes and magnitudes):
PixCoord built from x/y of several dtypes (int8, int16, int32, int64, float32, float64), shapes (scalar, 1-D, 2-D, broadcast pairs,
0-length) and magnitudes (1e-200 .. 1e200 for float64): stored values, indexing/slicing/iteration/len, +/- inverse,
separation against math.hypot on Python numbers, rotation (isometry, additivity, fixed centre), copies, WCS round trip.
bound: seeded; integer values are drawn so that sums and differences fit the dtype (what the property needs from the caller),
while squares need not."""
import sys
from common import *  # noqa: F401,F403
from astropy.wcs import WCS  # noqa: E402

DTYPES = ('int8', 'int16', 'int32', 'int64', 'float32', 'float64')
LIM = {'int8': 60, 'int16': 16000, 'int32': 10 ** 9, 'int64': 2 ** 40}
FMAGS = {'float32': (1e-3, 1.0, 1e4), 'float64': (1e-200, 1e-3, 1.0, 1234.5, 1e9, 1e200)}
SHAPES = ('scalar', '1d', '2d', 'bcast', 'empty')


def draw(rng, dtype, shape, mag):
    def one():
        if dtype.startswith('int'):
            return rng.randint(-LIM[dtype], LIM[dtype])
        return rng.uniform(-1, 1) * mag
    if shape == 'scalar':
        v = one()
        return (np.dtype(dtype).type(v), np.dtype(dtype).type(one()))
    if shape == '1d':
        n = 5
        return np.array([one() for _ in range(n)], dtype), np.array([one() for _ in range(n)], dtype)
    if shape == '2d':
        return np.array([[one() for _ in range(3)] for _ in range(2)], dtype), np.array([[one() for _ in range(3)] for _ in range(2)], dtype)
    if shape == 'bcast':
        return np.array([one() for _ in range(4)], dtype), np.dtype(dtype).type(one())
    return np.array([], dtype), np.array([], dtype)


def py(v):
    """exact Python numbers of an array / scalar"""
    return np.asarray(v).astype(object).ravel().tolist() if np.ndim(v) else [np.asarray(v).astype(object).item()]


def eps_of(v):
    dt = np.asarray(v).dtype
    return float(np.finfo(dt).eps) if dt.kind == 'f' else 0.0


def close(a, b, rel, scale=0.0):
    return abs(a - b) <= rel * max(abs(a), abs(b), scale)


def check(res, rng, dtype, shape, mag, desc):
    x, y = draw(rng, dtype, shape, mag)
    x2, y2 = draw(rng, dtype, shape, mag)
    p, q = PixCoord(x, y), PixCoord(x2, y2)
    bx, by = np.broadcast_arrays(x, y)
    # ---- stored values / scalar stays scalar
    if shape == 'scalar':
        if not p.isscalar or np.ndim(p.x) or np.ndim(p.y):
            return res.violation('a scalar pair does not stay scalar', case=desc)
        for name, op in (('len', len), ('iteration', lambda v: list(v)), ('indexing', lambda v: v[0])):
            try:       # same outcome as on the scalar x itself: an error
                op(x)
                ok_on_x = True
            except (TypeError, IndexError):
                ok_on_x = False
            try:
                op(p)
                ok_on_p = True
            except (TypeError, IndexError):
                ok_on_p = False
            if ok_on_x != ok_on_p:
                return res.violation(f'{name} of a scalar coordinate {"succeeds" if ok_on_p else "fails"} while {name} of its scalar x {"succeeds" if ok_on_x else "fails"}', case=desc)
    else:
        if p.isscalar or np.shape(p.x) != bx.shape or np.shape(p.y) != bx.shape:
            return res.violation(f'shape {np.shape(p.x)} / {np.shape(p.y)} is not the broadcast shape {bx.shape}', case=desc)
    if py(p.x) != py(bx) or py(p.y) != py(by):
        return res.violation('stored values differ from the broadcast inputs', case=desc, x=x, y=y)
    # ---- indexing, slicing, iteration, len
    if shape != 'scalar':
        if len(p) != len(bx):
            return res.violation('len differs from len(x)', case=desc)
        items = list(p)
        if len(items) != len(bx):
            return res.violation('iteration length differs', case=desc)
        for i, it in enumerate(items):
            if py(it.x) != py(bx[i]) or py(it.y) != py(by[i]) or py(p[i].x) != py(bx[i]) or py(p[i].y) != py(by[i]):
                return res.violation(f'element {i} differs from x[{i}], y[{i}]', case=desc)
        for key in (slice(1, None), slice(None, None, -1), slice(0, 0), slice(-2, None)):
            s = p[key]
            if py(s.x) != py(bx[key]) or py(s.y) != py(by[key]) or np.shape(s.x) != np.shape(bx[key]):
                return res.violation(f'slice {key} differs from slicing x and y', case=desc)
    # ---- + and - component-wise and inverse (exact for integers, to rounding for floats)
    s, d = p + q, p - q
    e = max(eps_of(s.x), 0.0)
    for got, want in ((py(s.x), [a + b for a, b in zip(py(np.broadcast_arrays(x, y)[0]), py(np.broadcast_arrays(x2, y2)[0]))]),
                      (py(s.y), [a + b for a, b in zip(py(by), py(np.broadcast_arrays(x2, y2)[1]))]),
                      (py(d.x), [a - b for a, b in zip(py(bx), py(np.broadcast_arrays(x2, y2)[0]))]),
                      (py(d.y), [a - b for a, b in zip(py(by), py(np.broadcast_arrays(x2, y2)[1]))])):
        for g, w in zip(got, want):
            if not close(float(g), float(w), 4 * e):
                return res.violation(f'+/- is not component-wise: {g!r} vs {w!r}', case=desc)
    if dtype.startswith('int'):
        back = (p + q) - q
        if py(back.x) != py(bx) or py(back.y) != py(by):
            return res.violation('(p + q) - q differs from p', case=desc)
    # ---- separation is the Euclidean distance
    sep = p.separation(q)
    if np.shape(sep) != np.shape(bx):
        return res.violation(f'separation has shape {np.shape(sep)}', case=desc)
    es = eps_of(sep) or 2e-16
    qx, qy = np.broadcast_arrays(x2, y2)
    for g, ax, ay, cx, cy in zip(py(sep), py(bx), py(by), py(qx), py(qy)):
        want = math.hypot(float(cx) - float(ax), float(cy) - float(ay)) if not dtype.startswith('int') else math.hypot(cx - ax, cy - ay)
        if not close(float(g), want, 8 * max(es, eps_of(x))):
            return res.violation(f'separation of ({ax!r}, {ay!r}) and ({cx!r}, {cy!r}) is {g!r}, Euclidean distance {want!r}', case=desc)
    # ---- rotation: isometry, additive, fixes the centre (scalar and 1-D coordinates)
    if shape in ('scalar', '1d', 'bcast'):
        c = PixCoord(*draw(rng, dtype, 'scalar', mag))
        a1, a2 = rng.uniform(-200, 200) * u.deg, (rng.uniform(-3, 3) * u.rad)
        r1, rq = p.rotate(c, a1), q.rotate(c, a1)
        scale = max([abs(float(v)) for v in py(bx) + py(by) + py(qx) + py(qy) + [c.x, c.y]] + [0.0])
        tol = 64 * max(eps_of(x), 2.3e-16)
        exact = [math.hypot(float(cx) - float(ax), float(cy) - float(ay)) for ax, ay, cx, cy in zip(py(bx), py(by), py(qx), py(qy))]
        for g, w in zip(py(r1.separation(rq)), exact):
            if not close(float(g), float(w), tol, scale):
                return res.violation(f'rotation changes a distance: {w!r} -> {g!r}', case=desc)
        r12, rsum = r1.rotate(c, a2), p.rotate(c, a1 + a2)
        for g, w in zip(py(r12.x) + py(r12.y), py(rsum.x) + py(rsum.y)):
            if not close(float(g), float(w), tol, scale):
                return res.violation(f'rotations do not compose additively: {g!r} vs {w!r}', case=desc)
        cc = c.rotate(c, a1)
        if not (close(float(cc.x), float(c.x), tol, scale) and close(float(cc.y), float(c.y), tol, scale)):
            return res.violation('rotation moves its centre', case=desc)
    # ---- copies are independent
    cp = p.copy()
    if py(cp.x) != py(p.x) or py(cp.y) != py(p.y):
        return res.violation('copy differs', case=desc)
    if shape not in ('scalar', 'empty'):
        before = py(p.x)
        np.asarray(cp.x)[...] = 0 if dtype.startswith('int') else 0.5
        if py(p.x) != before:
            return res.violation('writing to a copy changes the original', case=desc)
    # ---- WCS round trip (both pixel-origin conventions)
    if dtype in ('int16', 'float64', 'int32') and (not dtype.startswith('float') or 1e-3 <= mag <= 1234.5) and shape != 'empty':
        w = WCS(naxis=2)
        w.wcs.ctype = ['RA---TAN', 'DEC--TAN']
        w.wcs.crval = [rng.uniform(10, 300), rng.uniform(-60, 60)]
        w.wcs.crpix = [rng.uniform(-50, 50), rng.uniform(-50, 50)]
        th = rng.uniform(0, 6.28)
        sc = 1e-5 if dtype == 'int32' else 2e-4
        w.wcs.cd = [[-sc * math.cos(th), sc * math.sin(th)], [sc * math.sin(th), sc * math.cos(th)]]
        pp = p if dtype != 'int32' else PixCoord(np.asarray(p.x) % 4000, np.asarray(p.y) % 4000) if shape != 'scalar' else PixCoord(int(p.x) % 4000, int(p.y) % 4000)
        for origin in (0, 1):
            for mode in ('all', 'wcs'):
                back = PixCoord.from_sky(pp.to_sky(w, origin=origin, mode=mode), w, origin=origin, mode=mode)
                if np.shape(back.x) != np.shape(pp.x):
                    return res.violation(f'round trip changes the shape (origin={origin}, mode={mode})', case=desc)
                for g, want in zip(py(back.x) + py(back.y), py(pp.x) + py(pp.y)):
                    if abs(float(g) - float(want)) > 1e-6 * max(1.0, abs(float(want))):
                        return res.violation(f'to_sky/from_sky (origin={origin}, mode={mode}) returns {g!r} for {want!r}', case=desc)


def main():
    prop, tier, seed, out = sys.argv[1], sys.argv[2], int(sys.argv[3]), sys.argv[4]
    rng = random.Random(seed)
    n = 3 if tier == 'quick' else 60
    res = Result('pixcoord', f'{n} seeded draws x {len(DTYPES)} dtypes x {len(SHAPES)} shapes x magnitudes (float64: 1e-200..1e200) (seed {seed})',
                 'every clause of C20 evaluated on machine numbers: stored values, item/slice/iter/len against the x and y arrays, +/-, '
                 'separation against math.hypot on exact Python numbers, rotation isometry/additivity/fixed centre, copy independence, WCS round trip')
    for dtype in DTYPES:
        for shape in SHAPES:
            for mag in FMAGS.get(dtype, (1,)):
                for k in range(n):
                    desc = (dtype, shape, mag, k)
                    res.case((dtype, shape, mag), sample=None)
                    try:
                        check(res, rng, dtype, shape, mag, desc)
                    except Exception as e:
                        res.violation(f'{type(e).__name__}: {e}', case=desc)
    res.write(out)


if __name__ == '__main__':
    main()
