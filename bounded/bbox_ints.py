"""bounded run-time check of C19 on machine integers (the verifier's integers are mathematical and have no width or numpy type):
RegionBoundingBox built from Python ints and from numpy integer scalars of every width (int8 .. int64, intc, intp, unsigned where the
value allows), alone or mixed, must be accepted and behave exactly like the box built from the equal Python ints - union,
intersection, ==, shape, center, extent, get_overlap_slices, to_region round trip; non-integers (floats, integral-valued floats, bool
excepted by the library's own rule, strings, None) are refused with TypeError as they are for Python numbers.
bound: seeded corner values in [-2^15+1, 2^15-1] (so that every width can hold them; small boxes too) x 9 integer types x mixed
positions x 4 image shapes."""
import sys
from common import *  # noqa: F401,F403
from regions import RegionBoundingBox  # noqa: E402

ITYPES = (int, np.int8, np.int16, np.int32, np.int64, np.intc, np.intp, np.uint8, np.uint16, np.uint32, np.uint64)


def fits(t, v):
    if t is int:
        return True
    info = np.iinfo(t)
    return info.min <= v <= info.max


def describe(b):
    return (int(b.ixmin), int(b.ixmax), int(b.iymin), int(b.iymax))


def facts(b, other, shape):
    out = {'box': describe(b), 'shape': tuple(int(v) for v in b.shape), 'center': tuple(float(v) for v in b.center),
           'extent': tuple(float(v) for v in b.extent), 'union': describe(b.union(other)), 'runion': describe(other.union(b)),
           'eq': b == RegionBoundingBox(*describe(b))}
    inter = b.intersection(other)
    out['intersection'] = None if inter is None else describe(inter)
    sl = b.get_overlap_slices(shape)
    norm = lambda x: None if x is None else tuple((None if v is None else int(v)) for v in (x.start, x.stop, x.step))
    out['slices'] = None if sl[0] is None else tuple(tuple(norm(x) for x in pair) for pair in sl)
    out['types'] = all(type(v) is int for v in (b.ixmin, b.ixmax, b.iymin, b.iymax)) or 'limits are kept as ' + type(b.ixmin).__name__
    return out


def main():
    prop, tier, seed, out = sys.argv[1], sys.argv[2], int(sys.argv[3]), sys.argv[4]
    rng = random.Random(seed)
    n = 40 if tier == 'quick' else 1500
    res = Result('bbox_ints', f'{n} seeded boxes x {len(ITYPES)} integer types (alone and mixed) x 4 image shapes (seed {seed})',
                 'a box built from numpy integer scalars of any width is accepted and has the same union / intersection / shape / center / '
                 'extent / overlap slices as the box built from the equal Python ints; non-integers are refused with TypeError')
    for k in range(n):
        mag = (6, 100, 30000)[k % 3]
        x0, y0 = rng.randint(-mag, mag), rng.randint(-mag, mag)
        vals = (x0, x0 + rng.randint(0, min(mag, 40)), y0, y0 + rng.randint(0, min(mag, 40)))
        ox, oy = rng.randint(-mag, mag), rng.randint(-mag, mag)
        o = RegionBoundingBox(ox, ox + rng.randint(0, 50), oy, oy + rng.randint(0, 50))
        shape = rng.choice(((7, 9), (1, 1), (40, 25), (200, 300)))
        ref = facts(RegionBoundingBox(*vals), o, shape)
        for t in ITYPES:
            for mixed in (False, True):
                if not all(fits(t, v) for v in vals):
                    continue
                conv = [t(v) if (not mixed or i % 2 == 0) else v for i, v in enumerate(vals)]
                desc = (t.__name__, mixed, vals)
                res.case((t.__name__, mixed))
                try:
                    b = RegionBoundingBox(*conv)
                except Exception as e:       # noqa: BLE001
                    res.violation(f'box corners given as {t.__name__}{" mixed with int" if mixed else ""} are refused: {type(e).__name__}: {e}', case=desc)
                    continue
                try:
                    got = facts(b, o, shape)
                except Exception as e:       # noqa: BLE001
                    res.violation(f'operations on a box built from {t.__name__} fail: {type(e).__name__}: {e}', case=desc)
                    continue
                for key in ref:
                    if key != 'types' and got[key] != ref[key]:
                        res.violation(f'{key} of the box built from {t.__name__} is {got[key]!r}, from Python ints {ref[key]!r}', case=desc)
                        break
    for bad in (1.0, 2.5, np.float64(3.0), '3', None, [1]):
        res.case(('non-integer', type(bad).__name__))
        try:
            RegionBoundingBox(bad, 5, 0, 5)
            res.violation(f'a box corner of type {type(bad).__name__} ({bad!r}) is accepted', case=repr(bad))
        except TypeError:
            pass
        except Exception as e:               # noqa: BLE001
            res.violation(f'a box corner of type {type(bad).__name__} raises {type(e).__name__} instead of TypeError', case=repr(bad))
    res.write(out)


if __name__ == '__main__':
    main()
