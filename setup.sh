#!/bin/sh
# verifies the tools the checks need are present; nothing is built or fetched
set -e
python3-vt -c "import z3; assert z3.get_version_string().startswith('5.')"
/venv/bin/python -c "import regions, numpy, astropy"
mkdir -p evidence replays
echo setup ok
