"""documented parameter domains (written from the attribute docs / the statement of C17), evaluable on symbolic and native values"""
import numpy as np
import vprim
from astropy.units import Quantity
from astropy.coordinates import SkyCoord
from regions.core.pixcoord import PixCoord


def is_plain_number(v):
    return isinstance(v, (int, float)) and not isinstance(v, Quantity)


def positive_scalar(v):
    """a strictly positive, finite scalar integer or float"""
    if not is_plain_number(v):
        return False
    if not np.isfinite(v):
        return False
    return v > 0


def scalar_pixcoord(v):
    return isinstance(v, PixCoord) and not vprim.is_array(v.x)


def oned_pixcoord(v):
    return isinstance(v, PixCoord) and vprim.is_array(v.x) and len(vprim.shape_of(v.x)) == 1


def scalar_skycoord(v):
    return isinstance(v, SkyCoord) and v.isscalar


def oned_skycoord(v):
    return isinstance(v, SkyCoord) and v.ndim == 1


def scalar_angle(v):
    return isinstance(v, Quantity) and v.isscalar and v.unit.physical_type == 'angle'


def positive_scalar_angle(v):
    if not scalar_angle(v):
        return False
    if not np.isfinite(v.value):
        return False
    return v.value > 0
