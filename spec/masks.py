"""spec of mask pixel values.  FRAC(kind, x0, y0, dx, dy, use_exact, n, params...) is the value the mask must hold for the pixel
[x0, x0+dx] x [y0, y0+dy] (coordinates relative to the shape's own frame origin): for use_exact = 0 the fraction of the n x n
regularly spaced sub-sample centres that are members of the shape, for use_exact = 1 the exact overlap fraction.
Symbolically it is an abstract function (the kernels' assumed/verified contract uses the same symbol); natively it is computed
independently of the library by sampling the spec membership functions."""
import vprim
from spec.geometry import disk_open, ellipse_open, rect_open
from spec.polygon import crossings_odd


def frac(kind, x0, y0, dx, dy, use_exact, n, *params):
    if vprim.SYMBOLIC:
        return vprim.uf('frac_' + kind, 'real', x0, y0, dx, dy, use_exact, n, *params)
    return native_frac(kind, x0, y0, dx, dy, use_exact, n, params)


def inside(kind, params, x, y):
    if kind == 'circle':
        return disk_open(0.0, 0.0, params[0], x, y)
    if kind == 'ellipse':
        rx, ry, c, s = params
        return ellipse_open(0.0, 0.0, 2 * rx, 2 * ry, c, s, x, y)
    if kind == 'rectangle':
        w, h, c, s = params
        return rect_open(0.0, 0.0, w, h, c, s, x, y)
    if kind == 'polygon':
        return crossings_odd(params[0], params[1], x, y)
    raise ValueError(kind)


def native_frac(kind, x0, y0, dx, dy, use_exact, n, params):
    if use_exact:
        n = 200          # dense sampling stands in for the exact area in replays (tolerance applies)
    cnt = 0
    for a in range(n):
        for b in range(n):
            x = x0 + (a + 0.5) * dx / n
            y = y0 + (b + 0.5) * dy / n
            if inside(kind, params, x, y):
                cnt += 1
    return cnt / (n * n)


# ---- the definition behind FRAC for use_exact = 0, used ("revealed") only where the kernels themselves are verified
def sample_point(x0, y0, dx, dy, n, a, b):
    """centre of sub-cell (a, b) of the n x n regular subdivision of the pixel [x0, x0+dx] x [y0, y0+dy]"""
    return x0 + (a + 0.5) * dx / n, y0 + (b + 0.5) * dy / n


def sample_inside(kind, params, x0, y0, dx, dy, n, a, b):
    p = sample_point(x0, y0, dx, dy, n, a, b)
    return inside(kind, params, p[0], p[1])


def col_count(kind, params, x0, y0, dx, dy, n, a, b):
    """number of member samples among (a, 0) .. (a, b-1): primitive recursion on b, given by its defining equations at b"""
    if not vprim.SYMBOLIC:
        return sum(1 for t in range(b) if sample_inside(kind, params, x0, y0, dx, dy, n, a, t))
    c = vprim.uf('colcnt_' + kind, 'int', x0, y0, dx, dy, n, a, b, *params)
    vprim.fact(vprim.uf('colcnt_' + kind, 'int', x0, y0, dx, dy, n, a, 0, *params) == 0)
    if not (isinstance(b, int) and b <= 0):
        prev = vprim.uf('colcnt_' + kind, 'int', x0, y0, dx, dy, n, a, b - 1, *params)
        vprim.fact(vprim.implies(b >= 1, c == prev + vprim.ite(sample_inside(kind, params, x0, y0, dx, dy, n, a, b - 1), 1, 0)))
    return c


def tot_count(kind, params, x0, y0, dx, dy, n, a):
    """number of member samples in columns 0 .. a-1 (n samples each)"""
    if not vprim.SYMBOLIC:
        return sum(col_count(kind, params, x0, y0, dx, dy, n, t, n) for t in range(a))
    c = vprim.uf('totcnt_' + kind, 'int', x0, y0, dx, dy, n, a, *params)
    vprim.fact(vprim.uf('totcnt_' + kind, 'int', x0, y0, dx, dy, n, 0, *params) == 0)
    if not (isinstance(a, int) and a <= 0):
        prev = vprim.uf('totcnt_' + kind, 'int', x0, y0, dx, dy, n, a - 1, *params)
        vprim.fact(vprim.implies(a >= 1, c == prev + col_count(kind, params, x0, y0, dx, dy, n, a - 1, n)))
    return c


def sampled_fraction(kind, params, x0, y0, dx, dy, n):
    """FRAC(kind, x0, y0, dx, dy, 0, n, params): the fraction of the n x n sub-sample centres that are members of the shape"""
    return tot_count(kind, params, x0, y0, dx, dy, n, n) / (n * n)


def close(a, b):
    if vprim.SYMBOLIC:
        return a == b
    return abs(float(a) - float(b)) <= 1e-9


def close_exact(a, b, use_exact):
    if vprim.SYMBOLIC:
        return a == b
    return abs(float(a) - float(b)) <= (2e-2 if use_exact else 1e-9)
