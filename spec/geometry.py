"""spec functions for shape membership, written from the statement of C01 (not from the code).
All take plain numbers; `cs(angle)` gives (cos, sin) of an angular Quantity."""
import vprim


def cs(angle):
    a = angle.to_value('rad')
    return vprim.cos(a), vprim.sin(a)


def included(region):
    """the include flag: absent means included; any falsy value means excluded"""
    return bool(region.meta.get('include', True))


def sq(v):
    return v * v


# disk of radius r centred on (cx, cy)
def disk_open(cx, cy, r, x, y):
    return sq(x - cx) + sq(y - cy) < sq(r)


def disk_closed(cx, cy, r, x, y):
    return sq(x - cx) + sq(y - cy) <= sq(r)


def to_shape_frame(cx, cy, c, s, x, y):
    """coordinates of (x, y) in the frame of a shape centred on (cx, cy) and rotated anti-clockwise by the angle with cos c, sin s"""
    dx = x - cx
    dy = y - cy
    return c * dx + s * dy, -s * dx + c * dy


# ellipse with full axes (w, h) before rotation
def ellipse_open(cx, cy, w, h, c, s, x, y):
    u, v = to_shape_frame(cx, cy, c, s, x, y)
    return sq(u / (w / 2)) + sq(v / (h / 2)) < 1


def ellipse_closed(cx, cy, w, h, c, s, x, y):
    u, v = to_shape_frame(cx, cy, c, s, x, y)
    return sq(u / (w / 2)) + sq(v / (h / 2)) <= 1


# rectangle with full sides (w, h) before rotation
def rect_open(cx, cy, w, h, c, s, x, y):
    u, v = to_shape_frame(cx, cy, c, s, x, y)
    return -w / 2 < u and u < w / 2 and -h / 2 < v and v < h / 2


def rect_closed(cx, cy, w, h, c, s, x, y):
    u, v = to_shape_frame(cx, cy, c, s, x, y)
    return -w / 2 <= u and u <= w / 2 and -h / 2 <= v and v <= h / 2


def between(lo_open, code, hi_closed):
    """boundary-agnostic agreement: open membership => code says yes => closed membership"""
    return vprim.implies(lo_open, code) and vprim.implies(code, hi_closed)
