"""behavioural-subtyping stand-in for "any pixel region": its methods ARE the base contract of PixelRegion
(contains = abstract membership MEMBER(id, x, y) of the queried shape/type, complemented when excluded; bounding box = abstract
box; to_mask(center) = sampled MEMBER at pixel centres on that box).  Compound regions and annuli are verified against it,
so one proof covers every operand class and every nesting depth."""
import vprim
import numpy as np
from regions.core.core import PixelRegion, SkyRegion
from regions.core.bounding_box import RegionBoundingBox
from regions.core.mask import RegionMask
from regions.core.pixcoord import PixCoord


def member(rid, x, y):
    return vprim.uf('member', 'bool', rid, x, y)


class AnyPixelRegion(PixelRegion):
    _params = ('rid',)

    def __init__(self, rid, meta=None, visual=None, bbox=None):
        self.rid = rid
        self.meta = meta
        self.visual = visual
        self._bbox = bbox

    def contains(self, pixcoord):
        PixCoord._validate(pixcoord, name='pixcoord')
        rid = self.rid
        x, y = pixcoord.x, pixcoord.y
        if vprim.is_array(x):
            inreg = vprim.arr_like(x, lambda *idx: member(rid, vprim.arr_at(x, *idx), vprim.arr_at(y, *idx)), 'bool')
        else:
            inreg = member(rid, x, y)
        if self.meta.get('include', True):
            return inreg
        return np.logical_not(inreg)

    @property
    def bounding_box(self):
        return self._bbox

    def to_mask(self, mode='center', subpixels=1):
        self._validate_mode(mode, subpixels)
        rid = self.rid
        b = self._bbox
        inc = bool(self.meta.get('include', True))
        data = vprim.arr_from_fn(b.shape, lambda j, i: vprim.ite(member(rid, b.ixmin + i, b.iymin + j) == inc, 1.0, 0.0), 'float')
        return RegionMask(data, bbox=b)

    def rotate(self, center, angle):
        return AnyPixelRegion(vprim.uf('rotated_rid', 'int', self.rid, center.x, center.y, angle.to_value('rad')),
                              self.meta.copy(), self.visual.copy(), None)

    def to_sky(self, wcs):
        vprim.unsupported('abstract to_sky')

    def as_artist(self, origin=(0, 0), **kwargs):
        vprim.unsupported('abstract artist')

    @property
    def area(self):
        return vprim.uf('area', 'real', self.rid)


def member_sky(rid, lon, lat):
    return vprim.uf('member_sky', 'bool', rid, lon, lat)


class AnySkyRegion(SkyRegion):
    """any sky region: abstract membership MEMBER_SKY(id, lon, lat) of the queried position, complemented when excluded"""
    _params = ('rid',)

    def __init__(self, rid, meta=None, visual=None):
        self.rid = rid
        self.meta = meta
        self.visual = visual

    def contains(self, skycoord, wcs):
        rid = self.rid
        lon, lat = skycoord.spherical.lon.to_value('rad'), skycoord.spherical.lat.to_value('rad')
        if vprim.is_array(lon):
            inreg = vprim.arr_like(lon, lambda *idx: member_sky(rid, vprim.arr_at(lon, *idx), vprim.arr_at(lat, *idx)), 'bool')
        else:
            inreg = member_sky(rid, lon, lat)
        if self.meta.get('include', True):
            return inreg
        return np.logical_not(inreg)

    def to_pixel(self, wcs):
        vprim.unsupported('abstract to_pixel')
