"""DS9 region-file conventions, written from the DS9 documentation / the statement of C09-C10 (not from the code):
positions are 1-based in image coordinates, sizes are not shifted, ellipse radii are SEMI-axes, angles in degrees,
sky positions and sizes in decimal degrees; one shape per line `shape(p1,p2,...)`."""
import vprim

HEADER = '# Region file format: DS9 astropy/regions\n'
FRAME_NAME = {'image': 'image', 'icrs': 'icrs', 'fk5': 'fk5', 'fk4': 'fk4', 'galactic': 'galactic',
              'barycentricmeanecliptic': 'ecliptic'}
SHAPE_NAME = {'circle': 'circle', 'ellipse': 'ellipse', 'rectangle': 'box', 'polygon': 'polygon', 'circle_annulus': 'annulus',
              'ellipse_annulus': 'ellipse', 'rectangle_annulus': 'box', 'line': 'line', 'point': 'point', 'text': 'text'}


def num(v, prec):
    return vprim.rope_fmt(v, prec)


def pos(c, prec, sky):
    if sky:
        return [num(c.lon.to_value('deg'), prec), num(c.lat.to_value('deg'), prec)]
    return [num(c.x + 1, prec), num(c.y + 1, prec)]


def size(v, prec, sky, half=False):
    x = v.to_value('deg') if sky else v
    return num(x / 2 if half else x, prec)


def ang(a, prec):
    return num(a.to_value('deg'), prec)


def tokens(kind, r, prec, sky):
    """the parameter tokens DS9 expects for region r"""
    if kind == 'circle':
        return pos(r.center, prec, sky) + [size(r.radius, prec, sky)]
    if kind == 'ellipse':
        return pos(r.center, prec, sky) + [size(r.width, prec, sky, True), size(r.height, prec, sky, True), ang(r.angle, prec)]
    if kind == 'rectangle':
        return pos(r.center, prec, sky) + [size(r.width, prec, sky), size(r.height, prec, sky), ang(r.angle, prec)]
    if kind == 'circle_annulus':
        return pos(r.center, prec, sky) + [size(r.inner_radius, prec, sky), size(r.outer_radius, prec, sky)]
    if kind == 'ellipse_annulus':
        return pos(r.center, prec, sky) + [size(r.inner_width, prec, sky, True), size(r.inner_height, prec, sky, True),
                                          size(r.outer_width, prec, sky, True), size(r.outer_height, prec, sky, True), ang(r.angle, prec)]
    if kind == 'rectangle_annulus':
        return pos(r.center, prec, sky) + [size(r.inner_width, prec, sky), size(r.inner_height, prec, sky),
                                          size(r.outer_width, prec, sky), size(r.outer_height, prec, sky), ang(r.angle, prec)]
    if kind == 'line':
        return pos(r.start, prec, sky) + pos(r.end, prec, sky)
    if kind in ('point', 'text'):
        return pos(r.center, prec, sky)
    raise ValueError(kind)


def join(parts, sep):
    out = ''
    first = True
    for p in parts:
        if not first:
            out = out + sep
        out = out + p
        first = False
    return out


def region_text(kind, r, prec, sky):
    return SHAPE_NAME[kind] + '(' + join(tokens(kind, r, prec, sky), ',') + ')'


# ---------------------------------------------------------------------------- an independent reader of the file STRUCTURE
FRAME_WORDS = {'image': 'image', 'icrs': 'icrs', 'fk5': 'fk5', 'j2000': 'fk5', 'fk4': 'fk4', 'b1950': 'fk4', 'galactic': 'galactic',
               'ecliptic': 'barycentricmeanecliptic'}


def _lines(text):
    """split a (possibly symbolic) text into lines; each line is a list of pieces (str | symbolic number)"""
    lines = [[]]
    for p in vprim.fmt_pieces(text):
        if isinstance(p, str):
            segs = p.split('\n')
            if segs[0] != '':
                lines[-1].append(segs[0])
            for s in segs[1:]:
                lines.append([s] if s != '' else [])
        else:
            lines[-1].append(vprim.rope_fmt(p[1], p[2], p[3]))
    return [ln for ln in lines if len(ln) > 0]


def _text(pieces):
    out = ''
    for p in pieces:
        out = out + p
    return out


def _meta_pairs(s):
    """'k1=v1 k2={v 2} tag={a} tag={b}' -> dict (tag collects a list); values in {} "" '' may contain spaces"""
    out = {}
    i = 0
    n = len(s)
    while i < n:
        while i < n and s[i] == ' ':
            i += 1
        j = s.find('=', i)
        if j == -1:
            break
        key = s[i:j]
        k = j + 1
        if k < n and s[k] in '{"\'':
            close = '}' if s[k] == '{' else s[k]
            e = s.find(close, k + 1)
            val = s[k:e + 1]
            i = e + 1
        else:
            e = s.find(' ', k)
            # values like `dashlist=8 3` or `point=x 12` contain one space followed by a number
            if e != -1 and e + 1 < n and (s[e + 1].isdigit()) and key in ('dashlist', 'point', 'font'):
                e2 = s.find(' ', e + 1)
                e = e2
            if e == -1:
                e = n
            val = s[k:e]
            i = e
        if key == 'tag':
            out.setdefault('tag', []).append(val)
        else:
            out[key] = val
    return out


def records(text):
    """[{frame, shape (text), meta (dict)}] in file order, global properties merged under the per-region ones"""
    lines = _lines(text)
    if len(lines) == 0:
        return []
    if _text(lines[0]) + '\n' != HEADER:
        return None
    frame = None
    glob = {}
    out = []
    for ln in lines[1:]:
        head = ln[0] if isinstance(ln[0], str) else ''
        if head.startswith('global '):
            glob.update(_meta_pairs(_text(ln)[7:]))
            continue
        if len(ln) == 1 and head in FRAME_WORDS:
            frame = FRAME_WORDS[head]
            continue
        fr = frame
        # `frame; shape(...)` form
        idx = head.find('; ')
        if idx != -1 and head[:idx] in FRAME_WORDS:
            fr = FRAME_WORDS[head[:idx]]
            ln = [head[idx + 2:]] + ln[1:]
        last = ln[-1] if isinstance(ln[-1], str) else ''
        cut = last.find(' # ')
        meta = dict(glob)
        if cut != -1:
            meta.update(_meta_pairs(last[cut + 3:]))
            ln = ln[:-1] + [last[:cut]]
        out.append({'frame': fr, 'shape': _text(ln), 'meta': meta})
    return out


# ---------------------------------------------------------------------------- metadata vocabulary (DS9 region properties)
def expected_props(kind, meta, visual, text=None):
    """the DS9 properties a region's meta/visual must be written as (from the DS9 region-file documentation)"""
    out = {}
    if text is not None:
        out['text'] = '{' + text + '}'
    elif 'text' in meta:
        out['text'] = '{' + str(meta['text']) + '}'
    if 'include' in meta:
        out['include'] = '1' if meta['include'] else '0'        # DS9 writes include=1 / include=0 (or a leading '-')
    for k in ('source', 'background', 'delete', 'edit', 'fixed', 'highlite', 'move', 'rotate', 'select'):
        if k in meta:
            out[k] = str(meta[k])
    if 'tag' in meta:
        out['tag'] = ['{' + t + '}' for t in meta['tag']]
    color = visual.get('edgecolor', visual.get('facecolor', visual.get('color', None)))
    if color is not None:
        out['color'] = str(color)
    width = visual.get('linewidth', visual.get('markeredgewidth', None))
    if width is not None:
        out['width'] = str(width)
    if 'fill' in visual and 'annulus' not in kind:
        out['fill'] = '1' if visual['fill'] else '0'
    if 'linestyle' in visual:
        out['dash'] = '1'
        if isinstance(visual['linestyle'], tuple):
            out['dashlist'] = str(visual['linestyle'][1][0]) + ' ' + str(visual['linestyle'][1][1])
    if 'fontname' in visual:
        style = visual.get('fontstyle', 'roman')
        out['font'] = '"' + str(visual['fontname']) + ' ' + str(visual.get('fontsize', 10)) + ' ' + str(visual.get('fontweight', 'normal')) + ' ' \
            + ('roman' if style == 'normal' else style) + '"'
    if 'rotation' in visual:
        out['textangle'] = str(visual['rotation'])
    return out
