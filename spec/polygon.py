"""even-odd polygon membership.  Symbolically it is the abstract crossing-parity function PIP(vertices, x, y) that the
assumed kernel contract also uses; natively it is an independent crossing-number computation."""
import vprim


def crossings_odd(vx, vy, x, y):
    if vprim.SYMBOLIC:
        return vprim.uf('pip', 'bool', vx, vy, x, y)
    n = len(vx)
    odd = False
    for i in range(n):
        j = (i + n - 1) % n
        xi, yi, xj, yj = float(vx[i]), float(vy[i]), float(vx[j]), float(vy[j])
        if (yi > y) != (yj > y):
            if x < (xj - xi) * (y - yi) / (yj - yi) + xi:
                odd = not odd
    return odd
