"""even-odd polygon membership, from its definition: a point is inside iff the rightward horizontal ray from it crosses an odd
number of edges; edge k runs from vertex k-1 (cyclically) to vertex k and crosses the ray iff its end points lie on different sides
of the ray's line (y_k > y differs from y_{k-1} > y) and the edge meets that line to the right of the point.
Symbolically the crossing count is the primitive-recursive function NCROSS(k) = number of crossing edges among the first k, given by
its two defining equations (instantiated where it is used); PIP(vertices, x, y) := NCROSS(n) is odd.  The compiled kernel is verified
against this definition from its .pyx text (contracts/k_kernels.py); the Python layer uses PIP through the kernel's contract.
Natively it is an independent crossing-number computation."""
import vprim


def edge_crosses(vx, vy, x, y, k, n):
    j = (k + n - 1) % n
    return ((vy[k] > y) != (vy[j] > y)) and x < vx[k] + (y - vy[k]) * (vx[j] - vx[k]) / (vy[j] - vy[k])


def crossings(vx, vy, x, y, k):
    """number of crossing edges among edges 0 .. k-1"""
    n = len(vx)
    if vprim.SYMBOLIC:
        c = vprim.uf('ncross', 'int', vx, vy, x, y, k)
        # defining equations of the recursion, instantiated at k
        vprim.fact(vprim.uf('ncross', 'int', vx, vy, x, y, 0) == 0)
        if not (isinstance(k, int) and k <= 0):
            prev = vprim.uf('ncross', 'int', vx, vy, x, y, k - 1)
            vprim.fact(vprim.implies(k >= 1, c == prev + vprim.ite(edge_crosses(vx, vy, x, y, k - 1, n), 1, 0)))
        return c
    return sum(1 for i in range(k) if edge_crosses(vx, vy, x, y, i, n))


def odd_crossings(vx, vy, x, y, k):
    """is the number of crossing edges among edges 0 .. k-1 odd?  (the same recursion as `crossings`, kept as a truth value:
    false for k = 0, flipped by every crossing edge; proofs about parity then need no arithmetic modulo 2)"""
    n = len(vx)
    if vprim.SYMBOLIC:
        c = vprim.uf('oddcross', 'bool', vx, vy, x, y, k)
        vprim.fact(vprim.uf('oddcross', 'bool', vx, vy, x, y, 0) == False)        # noqa: E712
        if not (isinstance(k, int) and k <= 0):
            prev = vprim.uf('oddcross', 'bool', vx, vy, x, y, k - 1)
            vprim.fact(vprim.implies(k >= 1, c == (prev != edge_crosses(vx, vy, x, y, k - 1, n))))
        return c
    return crossings(vx, vy, x, y, k) % 2 == 1


def crossings_odd(vx, vy, x, y):
    if vprim.SYMBOLIC:
        p = vprim.uf('pip', 'bool', vx, vy, x, y)
        vprim.fact(p == odd_crossings(vx, vy, x, y, len(vx)))
        return p
    n = len(vx)
    odd = False
    for i in range(n):
        j = (i + n - 1) % n
        xi, yi, xj, yj = float(vx[i]), float(vy[i]), float(vx[j]), float(vy[j])
        if (yi > y) != (yj > y):
            if x < (xj - xi) * (y - yi) / (yj - yi) + xi:
                odd = not odd
    return odd
