"""CASA region text format (CRTF) conventions, from the CASA documentation / the statement of C11:
`<-><ann >shape[[x, y], ...]`, positions as `<deg>deg` pairs in the file's frame, circle radius with a unit, ellipse
`[[x, y], [bmaj, bmin], pa]` with SEMI-axes (major = along the region's height axis when pa is measured as astropy/regions
does), rotbox `[[x, y], [width, height], pa]`, annulus `[[x, y], [r1, r2]]`, poly, line, text `[[x, y], 'string']`, symbol."""
import vprim

COORD = {'fk5': 'J2000', 'fk4': 'B1950', 'icrs': 'ICRS', 'galactic': 'GALACTIC', 'supergalactic': 'SUPERGAL',
         'geocentrictrueecliptic': 'ECLIPTIC', 'image': 'IMAGE'}


def num(v, nd=6):
    return vprim.rope_fmt(v, nd)


def lonlat(c):
    sp = c.spherical          # lon/lat whatever the frame calls its components
    return '[' + num(sp.lon.to_value('deg')) + 'deg, ' + num(sp.lat.to_value('deg')) + 'deg]'


def lonlat_nd(c, nd):
    sp = c.spherical
    return '[' + num(sp.lon.to_value('deg'), nd) + 'deg, ' + num(sp.lat.to_value('deg'), nd) + 'deg]'


def ln(q, radunit='deg'):
    return num(q.to_value(radunit)) + radunit


def shape_text(kind, r):
    """sky region in the file's own frame, default format .6f, radunit deg"""
    if kind == 'circle':
        return 'circle[' + lonlat(r.center) + ', ' + ln(r.radius) + ']'
    if kind == 'ellipse':
        # CRTF ellipse: [semi-major, semi-minor] = [height/2, width/2], position angle in degrees
        return 'ellipse[' + lonlat(r.center) + ', [' + num(r.height.to_value('deg') / 2) + 'deg, ' + num(r.width.to_value('deg') / 2) + 'deg], ' \
            + num(r.angle.to_value('deg')) + 'deg]'
    if kind == 'rectangle':
        return 'rotbox[' + lonlat(r.center) + ', [' + ln(r.width) + ', ' + ln(r.height) + '], ' + num(r.angle.to_value('deg')) + 'deg]'
    if kind == 'circle_annulus':
        return 'annulus[' + lonlat(r.center) + ', [' + ln(r.inner_radius) + ', ' + ln(r.outer_radius) + ']]'
    if kind == 'line':
        return 'line[' + lonlat(r.start) + ', ' + lonlat(r.end) + ']'
    if kind == 'text':
        return 'text[' + lonlat(r.center) + ", '" + r.text + "']"
    if kind == 'point':
        return 'symbol[' + lonlat(r.center) + ', ' + str(r.visual['symbol']) + ']'
    raise ValueError(kind)
