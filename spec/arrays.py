"""helpers for clauses quantified over the elements of scalar / 1-D / 2-D results"""
import vprim


def elem(v, k, l):
    sh = vprim.shape_of(v)
    if len(sh) == 0:
        return vprim.arr_at(v)
    if len(sh) == 1:
        return vprim.arr_at(v, k)
    return vprim.arr_at(v, k, l)


def idx_ok(v, k, l):
    sh = vprim.shape_of(v)
    if len(sh) == 0:
        return True
    if len(sh) == 1:
        return 0 <= k and k < sh[0]
    return 0 <= k and k < sh[0] and 0 <= l and l < sh[1]


def same_shape(a, b):
    return vprim.shape_of(a) == vprim.shape_of(b)


def bool_like(result, like):
    """result is a plain bool (np.bool_ counts) when `like` is scalar, a boolean array of the same shape otherwise"""
    if len(vprim.shape_of(like)) == 0:
        return vprim.is_bool_scalar(result)
    return vprim.is_bool_array(result) and vprim.shape_of(result) == vprim.shape_of(like)
