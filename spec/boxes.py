"""spec functions for integer bounding boxes, written from the statement of C19/C04/C05:
a box is the set of integer pixels ixmin <= x < ixmax, iymin <= y < iymax"""


def is_bbox(b):
    return b.ixmin <= b.ixmax and b.iymin <= b.iymax


def in_box(b, X, Y):
    return b.ixmin <= X and X < b.ixmax and b.iymin <= Y and Y < b.iymax


def box_within(a, b):
    """corner containment of box a in box b (coincides with pixel-set containment for non-empty a)"""
    return b.ixmin <= a.ixmin and a.ixmax <= b.ixmax and b.iymin <= a.iymin and a.iymax <= b.iymax


def same_box(a, b):
    return a.ixmin == b.ixmin and a.ixmax == b.ixmax and a.iymin == b.iymin and a.iymax == b.iymax


def in_image(shape, X, Y):
    return 0 <= X and X < shape[1] and 0 <= Y and Y < shape[0]


def exists_common_pixel(b, shape):
    return max(b.ixmin, 0) < min(b.ixmax, shape[1]) and max(b.iymin, 0) < min(b.iymax, shape[0])


def in_window(sl, X, Y):
    """(X, Y) selected by the pair of slices sl = (rows, columns)"""
    return sl[0].start <= Y and Y < sl[0].stop and sl[1].start <= X and X < sl[1].stop


def is_none_pair(r):
    return r[0] is None and r[1] is None


def opt_in_box(b, X, Y):
    """membership in an optional box (None = empty set)"""
    if b is None:
        return False
    return in_box(b, X, Y)
