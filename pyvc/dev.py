import sys, time, os
sys.path.insert(0, os.path.dirname(os.path.dirname(os.path.abspath(__file__))))
from pyvc.vc import Engine, discharge
def main():
    repo = os.environ.get('VERIF_REPO', '/repo')
    mod, prop = sys.argv[1], sys.argv[2]
    only = sys.argv[3:] 
    t0 = time.time()
    E = Engine(repo)
    E.load_contracts(mod)
    obls = []
    for e in E.registry:
        if prop in e['props'] and (not only or e['cls'].name in only):
            t1 = time.time()
            try:
                o = E.run_contract(e, prop)
            except Exception as ex:
                import traceback; traceback.print_exc()
                print('ENGINE ERROR in', e['cls'].name); continue
            print(f"  {e['cls'].name}: {len(o)} obligations, {time.time()-t1:.2f}s")
            obls += o
    print('vcgen', time.time() - t0)
    discharge(obls)
    for o in obls:
        if o.status != 'valid':
            print(o.status.upper(), o.fullname, o.reason or '', o.meta.get('exception', '') if hasattr(o, 'meta') else '', (o.model if o.status == 'violated' else ''))
    for o in sorted(obls, key=lambda o:-o.time)[:8]: print(f'   slow {o.time:.2f}s {o.backend} {o.fullname}')
    from collections import Counter
    print(Counter(o.status for o in obls), 'total', len(obls), 'time', time.time() - t0)
main()
