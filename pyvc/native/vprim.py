"""native implementations of the `vprim` primitives (used by spec functions when contracts are evaluated on real objects)"""
import copy
import math

SYMBOLIC = False
PI = math.pi


def implies(a, b):
    return (not a) or bool(b)


def ite(c, a, b):
    return a if c else b


def is_symbolic(v):
    return False


def is_array(v):
    import numpy as np
    return isinstance(v, np.ndarray) and v.shape != ()


def arr_at(a, *idx):
    import numpy as np
    a = np.asarray(a)
    if a.shape == ():
        return a[()]
    return a[tuple(int(i) for i in idx)]


def shape_of(v):
    import numpy as np
    return tuple(np.shape(v))


def cos(x):
    return math.cos(x)


def sin(x):
    return math.sin(x)


def sqrt(x):
    return math.sqrt(x)


def deepcopy(v):
    return copy.deepcopy(v)


def fact(c):
    pass


def assume(c):
    pass


def is_bool_scalar(v):
    import numpy as np
    return isinstance(v, (bool, np.bool_))


def is_bool_array(v):
    import numpy as np
    return isinstance(v, np.ndarray) and v.dtype == bool


def dtype_of(v):
    import numpy as np
    k = np.asarray(v).dtype.kind
    return {'f': 'float', 'i': 'int', 'u': 'int', 'b': 'bool'}.get(k, 'object')


def lemma(name, cond):
    return True


def general(name, fn, *args):
    return True


def fmt_pieces(text):
    return [text]


def exact_number_text(value, dots=None):
    """positional decimal text that float() reads back as exactly `value`; without a decimal point when dots == 0"""
    from decimal import Decimal
    if dots == 0:
        return str(int(value))
    t = format(Decimal(float(value)), 'f')
    return t if '.' in t else t + '.0'


def rope_fmt(value, prec, kind='f'):
    return f'{float(value):.{prec}f}'


def text_equal(a, b):
    return a == b


def stub(target, fn):
    raise NotImplementedError('stubs exist only in the symbolic run')


def fs_initially(what, path):
    raise NotImplementedError('the ghost file system exists only in the symbolic run')


def is_nonfinite(v):
    return isinstance(v, float) and (math.isnan(v) or math.isinf(v))


def is_text(v):
    return isinstance(v, str)


def unsupported(msg='unsupported'):
    raise NotImplementedError(msg)


def piece_value(piece):
    return piece[1]


def model_limit(name, c):
    if not c:
        raise NotImplementedError('outside the modelled range: ' + name)
    return True
