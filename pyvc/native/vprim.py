"""native implementations of the `vprim` primitives (used by spec functions when contracts are evaluated on real objects)"""
import copy
import math

SYMBOLIC = False
PI = math.pi


def implies(a, b):
    return (not a) or bool(b)


def ite(c, a, b):
    return a if c else b


def is_symbolic(v):
    return False


def is_array(v):
    import numpy as np
    return isinstance(v, np.ndarray) and v.shape != ()


def arr_at(a, *idx):
    import numpy as np
    a = np.asarray(a)
    if a.shape == ():
        return a[()]
    return a[tuple(int(i) for i in idx)]


def shape_of(v):
    import numpy as np
    return tuple(np.shape(v))


def cos(x):
    return math.cos(x)


def sin(x):
    return math.sin(x)


def sqrt(x):
    return math.sqrt(x)


def deepcopy(v):
    return copy.deepcopy(v)


def fact(c):
    pass


def assume(c):
    pass


def is_bool_scalar(v):
    import numpy as np
    return isinstance(v, (bool, np.bool_))


def is_bool_array(v):
    import numpy as np
    return isinstance(v, np.ndarray) and v.dtype == bool


def dtype_of(v):
    import numpy as np
    k = np.asarray(v).dtype.kind
    return {'f': 'float', 'i': 'int', 'u': 'int', 'b': 'bool'}.get(k, 'object')


def lemma(name, cond):
    return True


def general(name, fn, *args):
    return True


def fmt_pieces(text):
    return [text]


def exact_number_text(value, dots=None):
    """positional decimal text that float() reads back as exactly `value`; without a decimal point when dots == 0"""
    from decimal import Decimal
    if dots == 0:
        return str(int(value))
    t = format(Decimal(float(value)), 'f')
    return t if '.' in t else t + '.0'


def rope_fmt(value, prec, kind='f'):
    return f'{float(value):.{prec}f}'


def text_equal(a, b):
    return a == b


def stub(target, fn):
    raise NotImplementedError('stubs exist only in the symbolic run')


def fs_initially(what, path):
    raise NotImplementedError('the ghost file system exists only in the symbolic run')


def is_nonfinite(v):
    return isinstance(v, float) and (math.isnan(v) or math.isinf(v))


def is_text(v):
    return isinstance(v, str)


def unsupported(msg='unsupported'):
    raise NotImplementedError(msg)


def piece_value(piece):
    return piece[1]


def model_limit(name, c):
    if not c:
        raise NotImplementedError('outside the modelled range: ' + name)
    return True


def shares_memory(a, b):
    import numpy as np
    try:
        return bool(np.shares_memory(np.asarray(getattr(a, 'value', a)), np.asarray(getattr(b, 'value', b))))
    except Exception:
        return False


# ---------------------------------------------------------------------------- uninterpreted functions, natively
# Under the verifier `uf(name, sort, *args)` is an application of an uninterpreted function.  In a native replay the function is the
# interpretation the counter-model gives it (UF_MODEL: name -> {'entries': [(args, value)], 'else': value}, set by native_run);
# arguments are matched with a small tolerance (they went through floating point on the way); where the model says nothing a
# fixed pseudo-random function of the arguments is used (some function, the same for equal arguments).
UF_MODEL = {}


def _uf_value(name, sort, args):
    import zlib
    key = None
    for k in UF_MODEL:
        if k == name or k.startswith(name + '__'):
            key = k
            break
    nums = []
    for a in args:
        if hasattr(a, 'shape') and getattr(a, 'shape', ()) != ():
            nums.append(float(zlib.crc32(repr(getattr(a, 'tolist', lambda: a)()).encode()) % 1000))
        else:
            nums.append(float(a))
    if key is not None:
        spec = UF_MODEL[key]
        for eargs, val in spec.get('entries', []):
            if len(eargs) == len(nums) and all(abs(float(x) - y) <= 1e-9 * max(1.0, abs(y)) for x, y in zip(eargs, nums)):
                return val
        if spec.get('else') is not None:
            return spec['else']
    h = zlib.crc32(repr((name, [round(x, 9) for x in nums])).encode())
    if sort == 'bool':
        return bool(h & 1)
    if sort == 'int':
        return int(h % 7)
    return (h % 1000) / 1000.0


def uf(name, sort, *args):
    v = _uf_value(name, sort, args)
    return bool(v) if sort == 'bool' else (int(v) if sort == 'int' else float(v))


def uf_real(name, *args):
    return uf(name, 'real', *args)


def uf_bool(name, *args):
    return uf(name, 'bool', *args)


def arr_like(like, fn, dtype='float'):
    import numpy as np
    a = np.asarray(getattr(like, 'value', like))
    out = np.empty(a.shape, dtype={'float': float, 'int': int, 'bool': bool}[dtype])
    for idx in np.ndindex(*a.shape):
        out[idx] = fn(*idx)
    return out


def arr_from_fn(shape, fn, dtype='float'):
    import numpy as np
    out = np.empty(tuple(int(s) for s in shape), dtype={'float': float, 'int': int, 'bool': bool}[dtype])
    for idx in np.ndindex(*out.shape):
        out[idx] = fn(*idx)
    return out
