"""mechanical extraction of the Python subset of a Cython (.pyx) file, done on every run, so that the verified text is the
kernel's own source.  Everything the extraction drops or rewrites is reported (`report`) and a unified diff against the .pyx can be
written next to the evidence.  Rules (complete; anything else aborts with PyxError rather than guessing):

 R1  `cimport x`, `from x cimport y` (non-relative), `ctypedef <one line>` ............ deleted
 R2  `from .mod cimport a, b` .......................... deleted; a, b are bound to the same-named functions extracted from mod.pyx
 R3  `cdef extern from "math.h":` + its indented block . deleted; the declared names are bound to the math model (A-REAL/A-TRIG)
 R4  `ctypedef struct NAME:` + block ................... `class NAME: pass` (a record whose fields are set by assignment)
 R5  `cdef|cpdef <ctype> name(<ctype> a, ...)` and typed `def` headers .. `def name(a, ...)` (types dropped, defaults kept)
 R6  `cdef <ctype> a, b, c` ............................ deleted (for struct types: `a = NAME(); b = NAME(); ...`)
 R7  `cdef <ctype> a = e` .............................. `a = e`
 R8  `<ctype>` is one of double, int, unsigned int, bool, np.ndarray[...], DTYPE_t, DTYPE_BOOL_t, a declared struct name
What the types carried and the extraction therefore drops (trusted, listed in the evidence): C `double`/`int` machine arithmetic
(treated as reals / mathematical integers), `unsigned int` loop counters, buffer type/ndim checks on ndarray arguments, and the
C calling convention of cdef functions."""
import difflib
import re

CTYPES = ('unsigned int', 'double', 'int', 'bool', 'DTYPE_t', 'DTYPE_BOOL_t')
ND = r'np\.ndarray\[[^\]]*\]'


class PyxError(Exception):
    pass


def _strip_type(decl, structs):
    """'<ctype> name' -> name ; 'name' -> name ; keeps '= default'"""
    decl = decl.strip()
    default = ''
    depth = 0
    for k, ch in enumerate(decl):
        if ch in '([':
            depth += 1
        elif ch in ')]':
            depth -= 1
        elif ch == '=' and depth == 0:
            decl, default = decl[:k].strip(), '=' + decl[k + 1:].strip()
            break
    m = re.match(rf'^(?:{ND}|' + '|'.join(re.escape(c) for c in CTYPES + tuple(structs)) + r')\s+(\w+)$', decl)
    if m:
        return m.group(1) + default
    if re.match(r'^\w+$', decl):
        return decl + default
    raise PyxError(f'parameter declaration not understood: {decl!r}')


def _split_params(text):
    out, depth, cur = [], 0, ''
    for ch in text:
        if ch in '([':
            depth += 1
        elif ch in ')]':
            depth -= 1
        if ch == ',' and depth == 0:
            out.append(cur)
            cur = ''
        else:
            cur += ch
    if cur.strip():
        out.append(cur)
    return out


def extract(src):
    """-> (python_text, report dict)"""
    lines = src.split('\n')
    out = []
    report = {'deleted': [], 'rewritten': [], 'extern': [], 'sibling_imports': [], 'structs': [], 'typed_locals': []}
    structs = []
    i = 0
    tyre = lambda: '(?:' + ND + '|' + '|'.join(re.escape(c) for c in CTYPES + tuple(structs)) + ')'
    while i < len(lines):
        line = lines[i]
        st = line.strip()
        ind = line[:len(line) - len(line.lstrip())]
        if st.startswith('#') or not st:
            out.append(line)
            i += 1
            continue
        # R3
        m = re.match(r'^cdef extern from "([^"]+)":\s*$', st)
        if m:
            out.append('')
            i += 1
            names = []
            while i < len(lines) and (not lines[i].strip() or lines[i].startswith((' ', '\t'))):
                mm = re.match(r'^\s+\w[\w ]*?\s(\w+)\(', lines[i])
                if mm:
                    names.append(mm.group(1))
                out.append('')          # keep line numbers
                i += 1
            report['extern'].append({'header': m.group(1), 'names': names})
            continue
        # R4
        m = re.match(r'^ctypedef struct (\w+):\s*$', st)
        if m:
            structs.append(m.group(1))
            fields = []
            out.append(f'{ind}class {m.group(1)}: pass')
            i += 1
            while i < len(lines) and (not lines[i].strip() or lines[i].startswith((' ', '\t'))):
                if lines[i].strip():
                    fields.append(lines[i].strip())
                out.append('')
                i += 1
            report['structs'].append({'name': m.group(1), 'fields': fields})
            continue
        # R2
        m = re.match(r'^from \.(\w+) cimport (.+)$', st)
        if m:
            report['sibling_imports'].append({'module': m.group(1), 'names': [n.strip() for n in m.group(2).split(',')]})
            out.append(ind + 'pass' if ind else '')
            i += 1
            continue
        # R1
        if re.match(r'^(cimport |from \S+ cimport |ctypedef )', st):
            report['deleted'].append(st)
            out.append(ind + 'pass' if ind else '')
            i += 1
            continue
        # R5 function headers (possibly continued over several lines)
        m = re.match(rf'^(cdef|cpdef|def)\s+(?:(?:inline\s+)?{tyre()}\s+)?(\w+)\s*\(', st)
        if m and (m.group(1) != 'def' or True):
            header = line
            j = i
            while header.count('(') > header.count(')') or not header.rstrip().endswith(':'):
                j += 1
                if j >= len(lines):
                    raise PyxError(f'unterminated function header at line {i + 1}')
                header += '\n' + lines[j]
            flat = ' '.join(h.strip() for h in header.split('\n'))
            mm = re.match(rf'^(cdef|cpdef|def)\s+(?:(?:inline\s+)?({tyre()})\s+)?(\w+)\s*\((.*)\)\s*:\s*$', flat)
            if not mm:
                raise PyxError(f'function header not understood: {flat!r}')
            params = [_strip_type(p, structs) for p in _split_params(mm.group(4))]
            new = f'{ind}def {mm.group(3)}({", ".join(params)}):'
            if mm.group(1) != 'def' or new.strip() != flat:
                report['rewritten'].append({'line': i + 1, 'from': flat, 'to': new.strip()})
            out.append(new)
            out.extend([''] * (j - i))        # keep line numbers
            i = j + 1
            continue
        # R6 / R7
        m = re.match(rf'^cdef\s+({tyre()})\s+(.+)$', st)
        if m:
            ctype, rest = m.group(1), m.group(2)
            rest_nc = rest.split('#')[0].strip()
            if '=' in rest_nc:
                if ',' in rest_nc.split('=')[0]:
                    raise PyxError(f'multiple initialised declarations: {st!r}')
                out.append(ind + rest)
                report['rewritten'].append({'line': i + 1, 'from': st, 'to': rest})
            else:
                names = [n.strip() for n in rest_nc.split(',')]
                if not all(re.match(r'^\w+$', n) for n in names):
                    raise PyxError(f'declaration not understood: {st!r}')
                if ctype in structs:
                    out.append(ind + '; '.join(f'{n} = {ctype}()' for n in names))
                else:
                    out.append(ind + 'pass')
                report['typed_locals'].append({'line': i + 1, 'ctype': ctype, 'names': names})
            i += 1
            continue
        if re.match(r'^(cdef|cpdef|ctypedef|cimport)\b', st):
            raise PyxError(f'Cython construct outside the extraction rules at line {i + 1}: {st!r}')
        out.append(line)
        i += 1
    text = '\n'.join(out)
    import ast
    try:
        ast.parse(text)
    except SyntaxError as e:
        raise PyxError(f'extracted text does not parse: {e}')
    return text, report


def diff(src, text, name='kernel.pyx'):
    return ''.join(difflib.unified_diff(src.splitlines(True), text.splitlines(True), name, name + ' (extracted)'))


if __name__ == '__main__':
    import json
    import sys
    s = open(sys.argv[1]).read()
    t, r = extract(s)
    if len(sys.argv) > 2 and sys.argv[2] == '--diff':
        print(diff(s, t, sys.argv[1]))
    else:
        print(t)
        print(json.dumps(r, indent=1), file=sys.stderr)
