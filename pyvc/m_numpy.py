"""numpy model (A-NUMPY): ufuncs are point-wise liftings, floor/ceil are mathematical, arrays are (shape, element function)"""
import math
import os
from fractions import Fraction

import z3

from .values import (MISSING, Arr, BoundMethod, Builtin, Fmt, ModuleNS, Rope, ShapeTag, Sym, Unsupported, VClass,
                     VDict, VFunc, VList, VObj, VSet, VSlice, is_num, kind_of, mk, zbool, zint, zreal)

PI = Sym(z3.Real('pi'), 'real')
GLOBAL_FACTS = [PI.e > z3.RealVal('3.14159'), PI.e < z3.RealVal('3.14160')]


def _B():
    from . import builtins_ as B
    return B


class FlatIdx:
    """index into a flattened array that remembers the multi-index it came from"""

    def __init__(self, shape, idx):
        self.shape, self.idx = shape, idx


def hook(I, v, name, *args):
    """numpy functions applied to model objects (Quantity ...) dispatch to their `_np_<name>` method"""
    if isinstance(v, VObj):
        m = I.find_method(v, '_np_' + name)
        if m is not None:
            return I.call(m, list(args), {})
        # numpy ufuncs refuse arbitrary Python objects
        I.throw('TypeError', f"ufunc '{name}' not supported for the input types ({v.cls.name})")
    return MISSING


def lift1(name, scalar_fn, dtype=None):
    def f(I, x, *rest, **kw):
        r = hook(I, x, name, *rest)
        if r is not MISSING:
            return r
        if isinstance(x, (VList, tuple)):
            x = np_array(I, x)
        if isinstance(x, Arr):
            return _B().arr_map(I, lambda e: scalar_fn(I, e), x, dtype=dtype)
        return scalar_fn(I, x)
    return f


def need_num(I, x, what):
    if isinstance(x, bool):
        return int(x)
    if not _B().is_numlike(x):
        I.throw('TypeError', f'{what}: unsupported operand type {_B().host_type_name(x)!r}')
    return x


# ---------------------------------------------------------------------------- trigonometry (A-TRIG)
def trig(I, x):
    """(cos x, sin x) of a radian value, expanded by angle addition into per-atom (c, s) pairs with c^2+s^2=1"""
    if isinstance(x, bool):
        x = int(x)
    if not isinstance(x, Sym):
        if x == 0:
            return 1, 0
        e = zreal(x)
    else:
        e = z3.simplify(zreal(x))
    return trig_expr(I, e)


COSF = z3.Function('cosf', z3.RealSort(), z3.RealSort())
SINF = z3.Function('sinf', z3.RealSort(), z3.RealSort())
ATAN2F = z3.Function('atan2f', z3.RealSort(), z3.RealSort(), z3.RealSort())


def _atom(I, e):
    """cos/sin of an angle atom: uninterpreted functions of the angle term (so equal angles have equal cos/sin by
    congruence) with the Pythagorean identity instantiated for the atom"""
    key = ('trig', e.get_id())
    c = I.ctx.trig_cache.get(key)
    if c is None:
        cs = Sym(COSF(e), 'real')
        sn = Sym(SINF(e), 'real')
        I.ctx.fact(cs.e * cs.e + sn.e * sn.e == 1)
        # special values (cos 0 = 1 ...) and parity (cos(-a) = cos a) are added lazily, only when a candidate counter-model
        # contradicts them: see vc._trig_refinements
        c = (cs, sn, e)
        I.ctx.trig_cache[key] = c
    return c[0], c[1]


def _addang(I, a, b):
    (c1, s1), (c2, s2) = a, b
    Bm = _B()
    c = Bm.num_binop(I, '-', Bm.num_binop(I, '*', c1, c2), Bm.num_binop(I, '*', s1, s2))
    s = Bm.num_binop(I, '+', Bm.num_binop(I, '*', s1, c2), Bm.num_binop(I, '*', c1, s2))
    return c, s


def _pi_multiple(e):
    """if e == q*pi for rational q return q else None"""
    if e.eq(PI.e):
        return Fraction(1)
    if z3.is_mul(e) and e.num_args() == 2:
        a, b = e.arg(0), e.arg(1)
        if z3.is_rational_value(a) and b.eq(PI.e):
            return Fraction(a.numerator_as_long(), a.denominator_as_long())
    return None


def _linearize(e):
    """try to rewrite a nonlinear angle term as a linear combination  sum q_i * atom_i + q_pi * pi + q_0  with rational
    coefficients (e.g. (a/(pi/180) + b/(pi/180) - 90) * (pi/180) -> a + b - pi/2), so that angle addition applies.
    Exact polynomial/rational normalisation (sympy.cancel); returns None when the term is not of that form."""
    try:
        import sympy
    except Exception:
        return None
    atoms = {}

    def conv(t):
        if z3.is_rational_value(t):
            return sympy.Rational(t.numerator_as_long(), t.denominator_as_long())
        if z3.is_int_value(t):
            return sympy.Integer(t.as_long())
        if t.eq(PI.e):
            return sympy.Symbol('PI__', positive=True)
        if z3.is_add(t):
            return sympy.Add(*[conv(t.arg(i)) for i in range(t.num_args())])
        if z3.is_mul(t):
            return sympy.Mul(*[conv(t.arg(i)) for i in range(t.num_args())])
        if z3.is_sub(t):
            r = conv(t.arg(0))
            for i in range(1, t.num_args()):
                r = r - conv(t.arg(i))
            return r
        if z3.is_div(t):
            return conv(t.arg(0)) / conv(t.arg(1))
        if z3.is_app_of(t, z3.Z3_OP_UMINUS):
            return -conv(t.arg(0))
        if z3.is_app_of(t, z3.Z3_OP_TO_REAL):
            return conv(t.arg(0))
        if z3.is_app_of(t, z3.Z3_OP_POWER) and z3.is_int_value(t.arg(1)):
            return conv(t.arg(0)) ** t.arg(1).as_long()
        name = 'A%d__' % t.get_id()
        atoms[name] = t
        return sympy.Symbol(name, real=True)
    try:
        ex = sympy.cancel(sympy.together(conv(e)))
        syms = [x for x in ex.free_symbols]
        poly = sympy.Poly(ex, *syms) if syms else None
    except Exception:
        return None
    if poly is None:
        return None
    if poly.total_degree() > 1:
        return None
    terms = []
    for mon, coeff in poly.terms():
        if not coeff.is_Rational:
            return None
        q = z3.RealVal(str(sympy.Rational(coeff)))
        if sum(mon) == 0:
            terms.append(q)
            continue
        sym = syms[list(mon).index(1)]
        zt = PI.e if sym.name == 'PI__' else atoms[sym.name]
        if zt.sort() != z3.RealSort():
            zt = z3.ToReal(zt)
        terms.append(q * zt)
    if not terms:
        return z3.RealVal(0)
    return z3.simplify(z3.Sum(*terms) if len(terms) > 1 else terms[0])


def _is_nonlinear(e):
    if z3.is_div(e):
        return True
    if z3.is_mul(e):
        nonnum = [e.arg(i) for i in range(e.num_args()) if not z3.is_rational_value(e.arg(i))]
        if len(nonnum) > 1:
            return True
        return any(_is_nonlinear(a) for a in nonnum)
    if z3.is_add(e) or z3.is_sub(e) or z3.is_app_of(e, z3.Z3_OP_UMINUS):
        return any(_is_nonlinear(e.arg(i)) for i in range(e.num_args()))
    return False


def trig_expr(I, e):
    if _is_nonlinear(e):
        lin = _linearize(e)
        if lin is not None and not lin.eq(e):
            e = lin
    key = ('trigx', e.get_id())
    c = I.ctx.trig_cache.get(key)
    if c is not None:
        return c[0], c[1]
    r = _trig_expr(I, e)
    I.ctx.trig_cache[key] = (r[0], r[1], e)
    return r


def _trig_expr(I, e):
    if z3.is_rational_value(e):
        if e.numerator_as_long() == 0:
            return 1, 0
        return _atom(I, e)
    q = _pi_multiple(e)
    if q is not None:
        q4 = (q * 2) % 4
        table = {0: (1, 0), 1: (0, 1), 2: (-1, 0), 3: (0, -1)}
        if q4.denominator == 1:
            return table[int(q4)]
        return _atom(I, e)
    if z3.is_add(e):
        args = [e.arg(i) for i in range(e.num_args())]
        # sort by id for a canonical association order
        acc = trig_expr(I, args[0])
        for a in args[1:]:
            acc = _addang(I, acc, trig_expr(I, a))
        return acc
    if z3.is_app_of(e, z3.Z3_OP_UMINUS):
        c, s = trig_expr(I, e.arg(0))
        return c, _B().num_binop(I, '*', -1, s)
    if z3.is_mul(e) and e.num_args() == 2 and z3.is_rational_value(e.arg(0)):
        k = Fraction(e.arg(0).numerator_as_long(), e.arg(0).denominator_as_long())
        t = e.arg(1)
        if k == -1:
            c, s = trig_expr(I, t)
            return c, _B().num_binop(I, '*', -1, s)
        if k.denominator == 1 and 2 <= abs(k) <= 4:
            base = trig_expr(I, t)
            acc = base
            for _ in range(abs(int(k)) - 1):
                acc = _addang(I, acc, base)
            if k < 0:
                return acc[0], _B().num_binop(I, '*', -1, acc[1])
            return acc
    return _atom(I, e)


def np_cos(I, x):
    r = hook(I, x, 'cos')
    if r is not MISSING:
        return r
    if isinstance(x, Arr):
        return _B().arr_map(I, lambda e: np_cos(I, e), x, dtype='float')
    need_num(I, x, 'cos')
    return trig(I, x)[0]


def np_sin(I, x):
    r = hook(I, x, 'sin')
    if r is not MISSING:
        return r
    if isinstance(x, Arr):
        return _B().arr_map(I, lambda e: np_sin(I, e), x, dtype='float')
    need_num(I, x, 'sin')
    return trig(I, x)[1]


def np_arctan2(I, y, x):
    """A-TRIG: for (x, y) != (0, 0), arctan2(y, x) = v with hypot*cos v = x, hypot*sin v = y, -pi < v <= pi"""
    r = hook(I, y, 'arctan2', x)
    if r is not MISSING:
        return r
    if isinstance(y, Arr) or isinstance(x, Arr):
        return _B().arr_binary(I, lambda a, b: np_arctan2(I, a, b), y, x, 'float')
    if not isinstance(x, Sym) and not isinstance(y, Sym):
        return math.atan2(y, x)
    key = ('atan2', zreal(y).get_id(), zreal(x).get_id())
    c = I.ctx.trig_cache.get(key)
    if c is None:
        v = Sym(ATAN2F(zreal(y), zreal(x)), 'real')
        h = np_hypot(I, x, y)
        cs, sn = trig(I, v)
        nz = z3.Or(zreal(x) != 0, zreal(y) != 0)
        I.ctx.fact(z3.Implies(nz, z3.And(zreal(h) * zreal(cs) == zreal(x), zreal(h) * zreal(sn) == zreal(y))))
        I.ctx.fact(z3.And(v.e > -PI.e, v.e <= PI.e))
        c = v
        I.ctx.trig_cache[key] = c
    return c


def np_sqrt(I, x):
    need_num(I, x, 'sqrt')
    return _B().sqrt_(I, x)


def np_hypot(I, a, b):
    r = hook(I, a, 'hypot', b)
    if r is not MISSING:
        return r
    if isinstance(a, Arr) or isinstance(b, Arr):
        return _B().arr_binary(I, lambda x, y: np_hypot(I, x, y), a, b, 'float')
    need_num(I, a, 'hypot')
    need_num(I, b, 'hypot')
    Bm = _B()
    return Bm.sqrt_(I, Bm.num_binop(I, '+', Bm.num_binop(I, '*', a, a), Bm.num_binop(I, '*', b, b)))


def _floor(I, x):
    need_num(I, x, 'floor')
    if isinstance(x, Sym):
        if x.kind == 'int':
            return mk(zreal(x), 'real')
        return mk(z3.ToReal(z3.ToInt(x.e)), 'real')
    return float(math.floor(x))


def _ceil(I, x):
    need_num(I, x, 'ceil')
    if isinstance(x, Sym):
        if x.kind == 'int':
            return mk(zreal(x), 'real')
        return mk(-z3.ToReal(z3.ToInt(-x.e)), 'real')
    return float(math.ceil(x))


def py_floor(I, x):
    return _B().b_int(I, _floor(I, x)) if not isinstance(x, Sym) else mk(z3.ToInt(zreal(x)), 'int')


def py_ceil(I, x):
    return _B().b_int(I, _ceil(I, x)) if not isinstance(x, Sym) else mk(-z3.ToInt(-zreal(x)), 'int')


def _isfinite(I, x):
    if isinstance(x, Sym):
        return True       # symbolic reals are finite (A-REAL)
    need_num(I, x, 'isfinite')
    return math.isfinite(x)


def _isfinite_elem(I, e):
    """element of a symbolic float array: its finiteness is not known (image pixels may be NaN/inf) - an uninterpreted predicate
    finite_<array>(indices); arithmetic on the element stays real-valued, so only control flow and frame conditions depend on
    this. Scalar symbolic reals stay finite (A-REAL)"""
    if isinstance(e, Sym) and e.kind == 'real' and z3.is_app(e.e) and e.e.decl().kind() == z3.Z3_OP_UNINTERPRETED and e.e.num_args() > 0 \
            and all(a.sort().kind() == z3.Z3_INT_SORT for a in e.e.children()):
        d = e.e.decl()
        f = z3.Function('finite_' + d.name(), *([z3.IntSort()] * d.arity()), z3.BoolSort())
        return mk(f(*e.e.children()), 'bool')
    return _isfinite(I, e)


def np_isfinite(I, x):
    if isinstance(x, Arr) and x.dtype in ('float', None):
        return _B().arr_map(I, lambda e: _isfinite_elem(I, e), x, dtype='bool')
    return lift1('isfinite', _isfinite, 'bool')(I, x)


def np_isnan(I, x):
    return lift1('isnan', lambda I, e: False if isinstance(e, Sym) else math.isnan(need_num(I, e, 'isnan')), 'bool')(I, x)


def np_isscalar(I, x):
    if isinstance(x, (bool, int, float, str, Fraction, Rope)):
        return True
    if isinstance(x, Sym):
        return True
    return False


def np_logical_not(I, x):
    if isinstance(x, Arr):
        return _B().arr_map(I, lambda e: np_logical_not(I, e), x, dtype='bool')
    if isinstance(x, Sym):
        return mk(z3.Not(zbool(x)), 'bool')
    if isinstance(x, (bool, int, float)):
        return not x
    raise Unsupported('logical_not operand')


def np_abs(I, x):
    r = hook(I, x, 'abs')
    if r is not MISSING:
        return r
    return I.builtins['abs'].fn(I, x)


def np_array(I, obj, dtype=None, copy=True, **kw):
    Bm = _B()
    if isinstance(obj, VObj):
        m = I.find_method(obj, '_np_array')
        if m is not None:
            return I.call(m, [], {})
        m = I.find_method(obj, '__array__')
        if m is not None:
            return I.call(m, [], {})
        raise Unsupported(f'np.array of {obj.cls.name}')
    if isinstance(obj, Arr):
        if copy:
            n = Arr(obj.shape, obj.fn, obj.dtype)
            n.unit = obj.unit
            n.cid = obj.cid
            if dtype is not None:
                n = astype(I, n, dtype)
            return n
        return obj if dtype is None else astype(I, obj, dtype)
    if isinstance(obj, (VList, tuple, list)):
        items = list(obj.l if isinstance(obj, VList) else obj)
        subs = [np_array(I, x) if isinstance(x, (VList, tuple, list, Arr)) else x for x in items]
        # array-like scalar objects (a Quantity is a 0-d ndarray subclass): numpy takes their bare values (A-NUMPY / A-UNITS)
        subs = [I.call(I.find_method(x, '_np_array'), [], {}) if isinstance(x, VObj) and I.find_method(x, '_np_array') is not None else x for x in subs]
        if any(isinstance(x, VObj) for x in subs):
            raise Unsupported('np.array of objects')
        if subs and all(isinstance(x, Arr) for x in subs):
            sh = subs[0].shape
            for s in subs[1:]:
                se = Bm.shapes_equal(I, sh, s.shape)
                if se is False:
                    I.throw('ValueError', 'setting an array element with a sequence: inhomogeneous shape')
                if se is not True:
                    I.ctx.oblige('numpy.array: stacked arrays have equal shapes', zbool(se))

            def fn(idx):
                i = idx[0]
                if isinstance(i, Sym):
                    r = subs[-1].fn(idx[1:])
                    for j in range(len(subs) - 2, -1, -1):
                        r = Bm.ite(I, mk(zint(i) == j, 'bool'), subs[j].fn(idx[1:]), r)
                    return r
                return subs[i].fn(idx[1:])
            a = Arr((len(subs),) + tuple(sh), fn, subs[0].dtype)
            if dtype is not None:
                a = astype(I, a, dtype)
            return a

        def fn1(idx):
            i = idx[0]
            if isinstance(i, FlatIdx):
                i = i.idx[0]
            if isinstance(i, Sym):
                r = subs[-1]
                for j in range(len(subs) - 2, -1, -1):
                    r = Bm.ite(I, mk(zint(i) == j, 'bool'), subs[j], r)
                return r
            return subs[i]
        dt = _dt(dtype)
        if dt is None:
            dt = 'float'
            if subs and all(isinstance(x, bool) or (isinstance(x, Sym) and x.kind == 'bool') for x in subs):
                dt = 'bool'
            elif subs and all((isinstance(x, int) and not isinstance(x, bool)) or (isinstance(x, Sym) and x.kind == 'int') for x in subs):
                dt = 'int'
            elif any(x is None or isinstance(x, str) for x in subs):
                dt = 'object'
        nat = 'float'
        if subs and all(isinstance(x, bool) or (isinstance(x, Sym) and x.kind == 'bool') for x in subs):
            nat = 'bool'
        elif subs and all((isinstance(x, int) and not isinstance(x, bool)) or (isinstance(x, Sym) and x.kind == 'int') for x in subs):
            nat = 'int'
        elif any(x is None or isinstance(x, str) for x in subs):
            nat = 'object'
        a = Arr((len(subs),), fn1, nat)
        a.items = subs
        if dt is not None and dt != nat and dt != 'object':
            a = astype(I, a, dt)
        return a
    if obj is None or isinstance(obj, str):
        return Arr((), lambda idx: obj, 'object')
    need_num(I, obj, 'array')
    a = Arr((), lambda idx: obj, ('bool' if kind_of(obj) == 'bool' else 'int' if kind_of(obj) == 'int' else 'float'))
    if dtype is not None:
        a = astype(I, a, dtype)
    return a


def _dt(dtype):
    if dtype is None:
        return None
    if isinstance(dtype, VClass):
        return {'float': 'float', 'int': 'int', 'bool': 'bool', 'float64': 'float'}.get(dtype.name, 'object')
    if isinstance(dtype, str):
        return {'float': 'float', 'float64': 'float', 'int': 'int', 'bool': 'bool', 'float32': 'float', 'int64': 'int', 'int32': 'int'}.get(dtype, 'object')
    return 'float'


def astype(I, a, dtype):
    dt = _dt(dtype)
    if dt == a.dtype or dt is None:
        n = Arr(a.shape, a.fn, a.dtype)
        n.cid = a.cid
        return n
    Bm = _B()
    if dt == 'bool':
        return Bm.arr_map(I, lambda e: Bm.b_bool(I, e), a, dtype='bool')
    if dt == 'float':
        return Bm.arr_map(I, lambda e: Bm.b_float(I, e), a, dtype='float')
    if dt == 'int':
        return Bm.arr_map(I, lambda e: Bm.b_int(I, e), a, dtype='int')
    raise Unsupported(f'astype {dtype}')


def np_asarray(I, obj, dtype=None, **kw):
    if isinstance(obj, Arr):
        return obj if dtype is None or _dt(dtype) == obj.dtype else astype(I, obj, dtype)
    return np_array(I, obj, dtype=dtype)


def np_atleast_1d(I, x):
    if isinstance(x, VObj):
        r = hook(I, x, 'atleast_1d')
        return r
    a = x if isinstance(x, Arr) else np_array(I, x)
    if a.shape == ():
        v = a.fn(())
        n = Arr((1,), lambda idx: v, a.dtype)
        n.unit = a.unit
        return n
    return a


def flatten(I, a):
    if isinstance(a.shape, ShapeTag):
        raise Unsupported('flatten of opaque shape')
    if len(a.shape) == 1:
        r1 = Arr(a.shape, a.fn, a.dtype)
        r1.cid = a.cid
        return r1
    Bm = _B()
    n = 1
    for d in a.shape:
        n = Bm.num_binop(I, '*', n, d)
    shape = a.shape

    def fn(idx):
        k = idx[0]
        if isinstance(k, FlatIdx):
            if Bm.shapes_equal(I, k.shape, shape) is True:
                return a.fn(k.idx)
            raise Unsupported('flat index of a different shape')
        if len(shape) == 0:
            return a.fn(())
        raise Unsupported('unravel of a plain flat index (rank > 1)')
    r = Arr((n,), fn, a.dtype)
    r.flat_of = shape
    return r


def reshape(I, a, shape):
    if isinstance(shape, (VList,)):
        shape = tuple(shape.l)
    if not isinstance(shape, tuple):
        shape = (shape,)
    Bm = _B()
    if Bm.shapes_equal(I, a.shape, shape) is True:
        return Arr(shape, a.fn, a.dtype)
    if len(a.shape) != 1:
        raise Unsupported('reshape of non-flat array')
    # size must agree: side obligation
    n = 1
    for d in shape:
        n = Bm.num_binop(I, '*', n, d)
    eq = Bm.equal(I, n, a.shape[0])
    if eq is False:
        I.throw('ValueError', 'cannot reshape array')
    if eq is not True:
        I.ctx.oblige('numpy.reshape: sizes agree', zbool(eq))
    if len(shape) == 1:
        return Arr(shape, a.fn, a.dtype)

    def fn(idx):
        return a.fn((FlatIdx(shape, tuple(idx)),))
    return Arr(shape, fn, a.dtype)


def reduce_minmax(I, a, ismin):
    """min/max of a non-empty array: fresh m with a witness index and the universal bound (instantiated at skolem indices)"""
    Bm = _B()
    if a.shape == ():
        return a.fn(())
    if isinstance(a.shape, ShapeTag) or len(a.shape) != 1:
        raise Unsupported('min/max of non-1-D array')
    n = a.shape[0]
    if isinstance(n, int) and n <= 12:
        items = [a.fn((i,)) for i in range(n)]
        if not items:
            I.throw('ValueError', 'zero-size array to reduction operation')
        from .builtins2 import _minmax
        return _minmax(I, (VList(items),), {}, ismin)
    a = _snapshot(a)
    m = I.ctx.fresh('amin' if ismin else 'amax', 'real')
    k = I.ctx.fresh('argm', 'int')
    I.ctx.fact(z3.And(k.e >= 0, k.e < zint(n)))
    I.ctx.fact(m.e == zreal(a.fn((k,))))
    f = (lambda j: (m.e <= zreal(a.fn((j,)))) if ismin else (m.e >= zreal(a.fn((j,)))))
    add_univ(I, n, f)
    add_witness(I, n, k)
    return m


def _snapshot(a):
    """the array as it is now (same shape, the element function it has at this moment): facts stated about it are not affected by
    later in-place stores"""
    b = Arr(a.shape, a.fn, a.dtype)
    b.unit = getattr(a, 'unit', None)
    return b


def _inrange(w, n):
    if isinstance(n, tuple):
        return z3.And(*[z3.And(zint(a) >= 0, zint(a) < zint(b)) for a, b in zip(w, n)]) if n else z3.BoolVal(True)
    return z3.And(zint(w) >= 0, zint(w) < zint(n))


def add_univ(I, n, f):
    """a universally quantified fact over indices 0 <= j < n (n a tuple of extents: over index tuples): kept for instantiation
    at clause skolems, and instantiated at once on every witness index of the same arity known so far"""
    g = I.ctx.ghost
    g.setdefault('univ', []).append((n, f))
    for (wn, w) in g.get('witness', []):
        if isinstance(w, tuple) == isinstance(n, tuple) and (not isinstance(n, tuple) or len(w) == len(n)):
            I.ctx.fact(z3.Implies(_inrange(w, n), f(w)))


def add_witness(I, n, w):
    g = I.ctx.ghost
    g.setdefault('witness', []).append((n, w))
    for (un, f) in g.get('univ', []):
        if isinstance(w, tuple) == isinstance(un, tuple) and (not isinstance(un, tuple) or len(w) == len(un)):
            I.ctx.fact(z3.Implies(_inrange(w, un), f(w)))


def arr_getattr(I, a, name):
    Bm = _B()
    F = lambda nm, fn: Builtin('ndarray.' + nm, fn)
    if name == 'shape':
        if isinstance(a.shape, ShapeTag):
            return a.shape
        return tuple(a.shape)
    if name == 'ndim':
        if isinstance(a.shape, ShapeTag):
            if a.shape.rank is None:
                raise Unsupported('ndim of opaque shape')
            return a.shape.rank
        return len(a.shape)
    if name == 'size':
        n = 1
        for d in a.shape:
            n = Bm.num_binop(I, '*', n, d)
        return n
    if name == 'dtype':
        return I.builtins.get(a.dtype, a.dtype) if a.dtype in ('float', 'int', 'bool') else a.dtype
    if name == 'unit':
        return a.unit if a.unit is not None else MISSING
    if name == 'value':
        if a.unit is None:
            return MISSING
        n = Arr(a.shape, a.fn, a.dtype)
        return n
    if name == 'T':
        return transpose(I, a)
    if name == 'flatten' or name == 'ravel':
        return F(name, lambda I, *x: flatten(I, a))
    if name == 'reshape':
        return F(name, lambda I, *sh: reshape(I, a, sh[0] if len(sh) == 1 else tuple(sh)))
    if name == 'astype':
        def _astype(I, dt, copy=True, **kw):
            # astype(copy=False) with an unchanged dtype hands back the array itself (numpy), otherwise a new array
            if copy is False and (_dt(dt) == a.dtype or _dt(dt) is None):
                return a
            return astype(I, a, dt)
        return F(name, _astype)
    if name == 'copy':
        return F(name, lambda I: np_array(I, a))
    if name == 'min':
        return F(name, lambda I, **kw: reduce_minmax(I, a, True))
    if name == 'max':
        return F(name, lambda I, **kw: reduce_minmax(I, a, False))
    if name == 'item':
        def item(I, *idx):
            if a.shape == ():
                return a.fn(())
            if idx:
                raise Unsupported('item(index)')
            # one element, whatever the rank: that element; otherwise numpy raises
            Bm = _B()
            size = 1
            for d in a.shape:
                size = Bm.num_binop(I, '*', size, d)
            one = Bm.equal(I, size, 1)
            if one is True or (one is not False and I.truth(one)):
                return a.fn(tuple(0 for _ in a.shape))
            I.throw('ValueError', 'can only convert an array of size 1 to a Python scalar')
        return F(name, item)
    if name == 'transpose':
        return F(name, lambda I, *x: transpose(I, a))
    if name == 'mean':
        return F(name, lambda I, **kw: np_mean(I, a))
    if name == 'sum':
        return F(name, lambda I, **kw: np_sum(I, a))
    if name == 'any':
        return F(name, lambda I, **kw: np_any(I, a))
    if name == 'all':
        return F(name, lambda I, **kw: np_all(I, a))
    if name == 'tolist':
        return F(name, lambda I: VList(I.iterate(a)))
    if name == 'isscalar':
        return MISSING
    if name == 'to':
        return MISSING
    return MISSING


def selected_getattr(I, s, name):
    raise Unsupported(f'attribute {name} of a boolean selection')


def transpose(I, a):
    if len(a.shape) == 1:
        return a
    if len(a.shape) == 2:
        return Arr((a.shape[1], a.shape[0]), lambda idx: a.fn((idx[1], idx[0])), a.dtype)
    raise Unsupported('transpose rank')


def concrete_items(I, a, limit=64):
    if a.shape == ():
        return [a.fn(())]
    if isinstance(a.shape, tuple) and len(a.shape) == 1 and isinstance(a.shape[0], int) and a.shape[0] <= limit:
        return [a.fn((i,)) for i in range(a.shape[0])]
    if isinstance(a.shape, tuple) and all(isinstance(d, int) for d in a.shape):
        import itertools
        return [a.fn(idx) for idx in itertools.product(*[range(d) for d in a.shape])]
    return None


def np_any(I, x, **kw):
    Bm = _B()
    if isinstance(x, Arr):
        items = concrete_items(I, x)
        if items is None:
            # any over a symbolic-size array: opaque boolean with the instance axiom
            r = I.ctx.fresh('any', 'bool')
            if not isinstance(x.shape, tuple):
                raise Unsupported('np.any over an array of unknown rank')
            # the reduction speaks about the contents the array has NOW: the universal fact is instantiated later, and a store into the
            # array in between must not change what it says (it used to: a store under `if not a.any():` made the path contradictory)
            x = _snapshot(x)
            if len(x.shape) == 1:
                n = x.shape[0]
                add_univ(I, n, lambda j: z3.Implies(zbool(x.fn((j,))), r.e))
                k = I.ctx.fresh('anyw', 'int')
                I.ctx.fact(z3.Implies(r.e, z3.And(k.e >= 0, k.e < zint(n), zbool(x.fn((k,))))))
                add_witness(I, n, k)
            else:
                dims = tuple(x.shape)
                add_univ(I, dims, lambda idx: z3.Implies(zbool(x.fn(tuple(idx))), r.e))
                ks = tuple(I.ctx.fresh('anyw', 'int') for _ in dims)
                I.ctx.fact(z3.Implies(r.e, z3.And(_inrange(ks, dims), zbool(x.fn(ks)))))
                add_witness(I, dims, ks)
            return r
        return Bm.b_any(I, VList(items))
    if isinstance(x, (VList, tuple)):
        return Bm.b_any(I, x)
    if isinstance(x, Sym):
        return mk(zbool(x), 'bool')
    return I.truth(x)


def np_all(I, x, **kw):
    Bm = _B()
    if isinstance(x, Arr):
        items = concrete_items(I, x)
        if items is None:
            if not (isinstance(x.shape, tuple) and len(x.shape) in (1, 2)):
                raise Unsupported('np.all over symbolic N-D array')
            # all over a symbolic-size array: an opaque boolean r with  r => every instance,  not r => a witness that fails
            r = I.ctx.fresh('all', 'bool')
            x = _snapshot(x)
            if len(x.shape) == 1:
                n = x.shape[0]
                add_univ(I, n, lambda j: z3.Implies(r.e, zbool(x.fn((j,)))))
                k = I.ctx.fresh('allw', 'int')
                I.ctx.fact(z3.Implies(z3.Not(r.e), z3.And(k.e >= 0, k.e < zint(n), z3.Not(zbool(x.fn((k,)))))))
                add_witness(I, n, k)
            else:
                n, m = x.shape
                if isinstance(n, int) and n <= 4:
                    for i in range(n):
                        add_univ(I, m, (lambda i: lambda j: z3.Implies(r.e, zbool(x.fn((i, j)))))(i))
                    ks = [I.ctx.fresh('allw', 'int') for _ in range(n)]
                    I.ctx.fact(z3.Implies(z3.Not(r.e), z3.Or(*[z3.And(k.e >= 0, k.e < zint(m), z3.Not(zbool(x.fn((i, k))))) for i, k in enumerate(ks)])))
                    for k in ks:
                        add_witness(I, m, k)
                else:
                    raise Unsupported('np.all over symbolic 2-D array')
            return r
        return Bm.b_all(I, VList(items))
    if isinstance(x, (VList, tuple)):
        return Bm.b_all(I, x)
    if isinstance(x, Sym):
        return mk(zbool(x), 'bool')
    return I.truth(x)


def np_sum(I, a, **kw):
    items = concrete_items(I, a) if isinstance(a, Arr) else I.iterate(a)
    if items is None:
        raise Unsupported('sum over symbolic-size array')
    return _B().b_sum(I, VList(items))


def np_mean(I, a, **kw):
    items = concrete_items(I, a)
    if items is None:
        raise Unsupported('mean over symbolic-size array')
    return I.binop('/', _B().b_sum(I, VList(items)), len(items))


def np_dot(I, a, b):
    a = a if isinstance(a, Arr) else np_array(I, a)
    b = b if isinstance(b, Arr) else np_array(I, b)
    Bm = _B()
    if len(a.shape) == 1 and len(b.shape) == 1:
        if not isinstance(a.shape[0], int):
            raise Unsupported('dot of symbolic length')
        return Bm.b_sum(I, VList([I.binop('*', a.fn((i,)), b.fn((i,))) for i in range(a.shape[0])]))
    return np_matmul(I, a, b)


def np_matmul(I, a, b):
    a = a if isinstance(a, Arr) else np_array(I, a)
    b = b if isinstance(b, Arr) else np_array(I, b)
    Bm = _B()
    if len(a.shape) == 2 and isinstance(a.shape[1], int):
        inner = a.shape[1]
        if len(b.shape) == 1:
            return Arr((a.shape[0],), lambda idx: Bm.b_sum(I, VList([I.binop('*', a.fn((idx[0], k)), b.fn((k,))) for k in range(inner)])), 'float')
        if len(b.shape) == 2:
            return Arr((a.shape[0], b.shape[1]), lambda idx: Bm.b_sum(I, VList([I.binop('*', a.fn((idx[0], k)), b.fn((k, idx[1]))) for k in range(inner)])), 'float')
        if len(b.shape) == 3:
            return Arr((a.shape[0],) + tuple(b.shape[1:]), lambda idx: Bm.b_sum(I, VList([I.binop('*', a.fn((idx[0], k)), b.fn((k,) + tuple(idx[1:]))) for k in range(inner)])), 'float')
    raise Unsupported('matmul shapes')


def np_zeros(I, shape, dtype=None, **kw):
    if isinstance(shape, VList):
        shape = tuple(shape.l)
    if not isinstance(shape, (tuple, ShapeTag)):
        shape = (shape,)
    dt = _dt(dtype) or 'float'
    zero = False if dt == 'bool' else 0
    return Arr(shape, lambda idx: zero, dt)


def np_ones(I, shape, dtype=None, **kw):
    a = np_zeros(I, shape, dtype)
    one = True if a.dtype == 'bool' else 1
    a.fn = lambda idx: one
    return a


def np_full(I, shape, fill, dtype=None, **kw):
    a = np_zeros(I, shape, dtype)
    a.fn = lambda idx: fill
    return a


def np_full_like(I, a, fill, dtype=None, **kw):
    """array of the shape AND dtype of `a` (unless dtype is given): the fill value is cast to that dtype"""
    a = a if isinstance(a, Arr) else np_array(I, a)
    dt = _dt(dtype) or a.dtype
    Bm = _B()
    v = fill
    if dt == 'int':
        v = Bm.b_int(I, fill)
    elif dt == 'bool':
        v = Bm.b_bool(I, fill)
    elif dt == 'float':
        v = Bm.b_float(I, fill)
    return Arr(a.shape, lambda idx: v, dt)


def np_broadcast_arrays(I, *arrs):
    Bm = _B()
    conv = [x if isinstance(x, Arr) else np_array(I, x) for x in arrs]
    shape = ()
    for a in conv:
        shape = Bm.broadcast_shape(I, shape, a.shape)
    out = []
    for a in conv:
        if a.shape == shape or Bm.shapes_equal(I, a.shape, shape) is True:
            out.append(Arr(a.shape, a.fn, a.dtype))
        else:
            out.append(Arr(shape, (lambda a: lambda idx: Bm.arr_elem(a, idx, shape))(a), a.dtype))
    return VList(out)


def np_pad(I, a, pad_width, mode='constant', **kw):
    """A-NUMPY: constant (zero) padding; requires non-negative pad widths (side obligation)"""
    Bm = _B()
    if mode != 'constant':
        raise Unsupported('pad mode')
    r = hook(I, a, 'pad', pad_width)
    if r is not MISSING:
        return r
    if not isinstance(a, Arr):
        a = np_array(I, a)
    if is_num(pad_width):
        pw = [(pad_width, pad_width)] * len(a.shape)
    else:
        items = I.iterate(pad_width)
        if len(items) == 2 and all(is_num(x) for x in items):
            pw = [tuple(items)] * len(a.shape)
        else:
            pw = [tuple(I.iterate(p)) for p in items]
    if len(pw) != len(a.shape):
        I.throw('ValueError', 'pad_width rank mismatch')
    for (b, e) in pw:
        for x in (b, e):
            if isinstance(x, Sym):
                I.ctx.oblige('numpy.pad: pad width is non-negative', zint(x) >= 0)
            elif x < 0:
                I.throw('ValueError', "index can't contain negative values")
    shape = tuple(Bm.num_binop(I, '+', Bm.num_binop(I, '+', d, b), e) for d, (b, e) in zip(a.shape, pw))
    zero = False if a.dtype == 'bool' else 0

    def fn(idx):
        conds = []
        src = []
        for i, d, (b, e) in zip(idx, a.shape, pw):
            conds.append(z3.And(zint(i) >= zint(b), zint(i) < zint(b) + zint(d)))
            src.append(Bm.num_binop(I, '-', i, b))
        c = mk(z3.And(*conds), 'bool')
        if c is False:
            return zero
        return Bm.ite(I, c, a.fn(tuple(src)), zero) if c is not True else a.fn(tuple(src))
    return Arr(shape, fn, a.dtype)


def np_allclose(I, a, b, rtol=1e-05, atol=1e-08, **kw):
    """A-NUMPY: all(|a - b| <= atol + rtol * |b|)"""
    Bm = _B()
    A = a if isinstance(a, Arr) else np_array(I, a)
    Bv = b if isinstance(b, Arr) else np_array(I, b)

    def close(x, y):
        d = Bm.b_abs(I, I.binop('-', x, y))
        return I.compare('<=', d, I.binop('+', atol, I.binop('*', rtol, Bm.b_abs(I, y))))
    r = Bm.arr_binary(I, close, A, Bv, 'bool')
    return np_all(I, r)


def np_isclose(I, a, b, rtol=1e-05, atol=1e-08, **kw):
    Bm = _B()

    def close(x, y):
        d = Bm.b_abs(I, I.binop('-', x, y))
        return I.compare('<=', d, I.binop('+', atol, I.binop('*', rtol, Bm.b_abs(I, y))))
    if isinstance(a, Arr) or isinstance(b, Arr):
        return Bm.arr_binary(I, close, a, b, 'bool')
    return close(a, b)


def np_arange(I, n, *rest):
    if rest or isinstance(n, Sym):
        if not rest:
            return Arr((n,), lambda idx: idx[0], 'int')
        raise Unsupported('arange form')
    return Arr((n,), lambda idx: idx[0], 'int')


class _Grid:
    """numpy.mgrid / numpy.ogrid with integer unit-step slices: index arrays  g_d[i_0, ..., i_k] = start_d + i_d"""

    def __init__(self, dense):
        self.dense = dense

    def host_getitem(self, I, k):
        Bm = _B()
        single = not isinstance(k, tuple)
        ks = (k,) if single else k
        starts, lens = [], []
        for kk in ks:
            if not isinstance(kk, VSlice) or kk.step not in (None, 1):
                raise Unsupported('mgrid/ogrid with a non-unit step')
            st = 0 if kk.start is None else kk.start
            if kk.stop is None:
                I.throw('TypeError', "unsupported operand type(s) for -: 'NoneType' and 'int'")
            for v in (st, kk.stop):
                if not (isinstance(v, int) or (isinstance(v, Sym) and v.kind == 'int')):
                    raise Unsupported('mgrid/ogrid with non-integer bounds')
            n = Bm.num_binop(I, '-', kk.stop, st)
            ln = Bm.ite(I, I.compare('>', n, 0), n, 0) if isinstance(n, Sym) else max(n, 0)
            starts.append(st)
            lens.append(ln)
        nd = len(ks)
        outs = []
        for d in range(nd):
            if self.dense:
                shape = tuple(lens)
                fn = (lambda d: lambda idx: Bm.num_binop(I, '+', starts[d], idx[d]))(d)
            else:
                shape = tuple(lens[e] if e == d else 1 for e in range(nd))
                fn = (lambda d: lambda idx: Bm.num_binop(I, '+', starts[d], idx[d]))(d)
            outs.append(Arr(shape, fn, 'int'))
        if single:
            return outs[0]
        if self.dense:
            return np_array(I, VList(outs))
        return tuple(outs)


def np_meshgrid(I, *xs, indexing='xy', **kw):
    arrs = [x if isinstance(x, Arr) else np_array(I, x) for x in xs]
    if len(arrs) != 2 or any(len(a.shape) != 1 for a in arrs) or kw:
        raise Unsupported('meshgrid form')
    ax, ay = arrs
    if indexing == 'xy':
        shape = (ay.shape[0], ax.shape[0])
        return VList([Arr(shape, lambda idx: ax.fn((idx[1],)), ax.dtype), Arr(shape, lambda idx: ay.fn((idx[0],)), ay.dtype)])
    shape = (ax.shape[0], ay.shape[0])
    return VList([Arr(shape, lambda idx: ax.fn((idx[0],)), ax.dtype), Arr(shape, lambda idx: ay.fn((idx[1],)), ay.dtype)])


def np_vstack(I, seq):
    items = I.iterate(seq)
    arrs = [x if isinstance(x, Arr) else np_array(I, x) for x in items]
    if all(len(a.shape) == 1 for a in arrs):
        return np_array(I, VList(arrs))
    return np_concatenate(I, VList(arrs))


def np_concatenate(I, seq, axis=0, **kw):
    """concatenation along axis 0 (lengths may be symbolic): element i comes from the piece whose index range contains i"""
    Bm = _B()
    if axis != 0:
        raise Unsupported('concatenate along axis != 0')
    arrs = [x if isinstance(x, Arr) else np_array(I, x) for x in I.iterate(seq)]
    if not arrs:
        I.throw('ValueError', 'need at least one array to concatenate')
    rank = len(arrs[0].shape)
    for a in arrs[1:]:
        if len(a.shape) != rank:
            I.throw('ValueError', 'all the input arrays must have same number of dimensions')
        for d1, d2 in zip(arrs[0].shape[1:], a.shape[1:]):
            r = Bm.equal(I, d1, d2)
            if r is False:
                I.throw('ValueError', 'all the input array dimensions except for the concatenation axis must match exactly')
            if r is not True:
                I.ctx.oblige('numpy.concatenate: trailing dimensions agree', zbool(r))
    offs = [0]
    for a in arrs:
        offs.append(Bm.num_binop(I, '+', offs[-1], a.shape[0]))

    def fn(idx):
        i = idx[0]
        r = arrs[-1].fn((Bm.num_binop(I, '-', i, offs[len(arrs) - 1]),) + tuple(idx[1:]))
        for j in range(len(arrs) - 2, -1, -1):
            inj = mk(zint(i) < zint(offs[j + 1]), 'bool') if (isinstance(i, Sym) or isinstance(offs[j + 1], Sym)) else (i < offs[j + 1])
            r = Bm.ite(I, inj, arrs[j].fn((Bm.num_binop(I, '-', i, offs[j]),) + tuple(idx[1:])), r)
        return r
    return Arr((offs[-1],) + tuple(arrs[0].shape[1:]), fn, Bm.result_dtype(arrs[0], arrs[-1]))


def np_hstack(I, seq):
    arrs = [x if isinstance(x, Arr) else np_array(I, x) for x in I.iterate(seq)]
    if all(len(a.shape) == 1 for a in arrs):
        return np_concatenate(I, VList(arrs))
    raise Unsupported('hstack of N-D arrays')


def np_ndim(I, x):
    if isinstance(x, Arr):
        return len(x.shape)
    if isinstance(x, (VList, tuple, list)):
        return len(np_array(I, x).shape)
    if isinstance(x, VObj):
        m = I.find_method(x, '_np_array')
        if m is not None:
            return np_ndim(I, I.call(m, [], {}))
    return 0


def np_column_stack(I, seq):
    """1-D arrays of equal length n -> (n, k) array whose columns are the inputs"""
    arrs = [x if isinstance(x, Arr) else np_array(I, x) for x in I.iterate(seq)]
    if not all(len(a.shape) == 1 for a in arrs):
        raise Unsupported('column_stack of N-D arrays')
    n = arrs[0].shape[0]
    Bm = _B()
    for a in arrs[1:]:
        r = Bm.equal(I, n, a.shape[0])
        if r is False:
            I.throw('ValueError', 'all the input array dimensions except for the concatenation axis must match exactly')
        if r is not True:
            I.ctx.oblige('numpy.column_stack: equal lengths', zbool(r))
    fns = [a.fn for a in arrs]

    def fn(idx):
        j = idx[1]
        if isinstance(j, Sym):
            r = fns[-1]((idx[0],))
            for t in range(len(fns) - 2, -1, -1):
                r = Bm.ite(I, mk(zint(j) == t, 'bool'), fns[t]((idx[0],)), r)
            return r
        return fns[j]((idx[0],))
    return Arr((n, len(arrs)), fn, arrs[0].dtype)


def np_copy(I, a):
    return np_array(I, a)


def np_minmax(ismin):
    def f(I, a, **kw):
        if not isinstance(a, Arr):
            a = np_array(I, a)
        return reduce_minmax(I, a, ismin)
    return f


def make(I):
    F = lambda nm, fn: Builtin('numpy.' + nm, fn)
    Bm = _B()
    obj = I.builtins['object']
    ndarray = VClass('ndarray', [obj], {}, builtin=True)
    ns = dict(
        pi=PI, inf=float('inf'), nan=float('nan'), newaxis=None,
        cos=F('cos', np_cos), sin=F('sin', np_sin), arctan2=F('arctan2', np_arctan2),
        sqrt=F('sqrt', lift1('sqrt', np_sqrt)), hypot=F('hypot', np_hypot),
        floor=F('floor', lift1('floor', _floor)), ceil=F('ceil', lift1('ceil', _ceil)),
        abs=F('abs', np_abs), fabs=F('fabs', np_abs), absolute=F('absolute', np_abs),
        isfinite=F('isfinite', np_isfinite), isnan=F('isnan', np_isnan), isscalar=F('isscalar', np_isscalar),
        logical_not=F('logical_not', np_logical_not),
        logical_and=F('logical_and', lambda I, a, b: I.binop('&', a, b)),
        logical_or=F('logical_or', lambda I, a, b: I.binop('|', a, b)),
        logical_xor=F('logical_xor', lambda I, a, b: I.binop('^', a, b)),
        array=F('array', np_array), asarray=F('asarray', np_asarray), asanyarray=F('asanyarray', np_asarray),
        atleast_1d=F('atleast_1d', np_atleast_1d), zeros=F('zeros', np_zeros), ones=F('ones', np_ones),
        full=F('full', np_full), full_like=F('full_like', np_full_like),
        zeros_like=F('zeros_like', lambda I, a, **k: np_full_like(I, a, 0, **k)),
        ones_like=F('ones_like', lambda I, a, **k: np_full_like(I, a, 1, **k)),
        empty_like=F('empty_like', lambda I, a, **k: np_full_like(I, a, 0, **k)), broadcast_arrays=F('broadcast_arrays', np_broadcast_arrays), pad=F('pad', np_pad),
        allclose=F('allclose', np_allclose), isclose=F('isclose', np_isclose), any=F('any', np_any), all=F('all', np_all),
        dot=F('dot', np_dot), matmul=F('matmul', np_matmul), arange=F('arange', np_arange), vstack=F('vstack', np_vstack),
        copy=F('copy', np_copy), min=F('min', np_minmax(True)), max=F('max', np_minmax(False)),
        amin=F('amin', np_minmax(True)), amax=F('amax', np_minmax(False)), sum=F('sum', np_sum), mean=F('mean', np_mean),
        ndarray=ndarray, float64=I.builtins['float'], bool_=I.builtins['bool'], int64=I.builtins['int'],
        integer=I.builtins['int'], floating=I.builtins['float'], number=I.builtins['float'],
        int_=I.builtins['int'], intc=I.builtins['int'], intp=I.builtins['int'], int32=I.builtins['int'], int16=I.builtins['int'], int8=I.builtins['int'],      # integer widths are not distinguished (A-INT)
        copysign=F('copysign', lambda I, a, b: Bm.ite(I, I.compare('>=', b, 0), Bm.b_abs(I, a), Bm.neg_(I, Bm.b_abs(I, a)) if hasattr(Bm, 'neg_') else I.neg(Bm.b_abs(I, a)))),
        sign=F('sign', lift1('sign', lambda I, e: Bm.ite(I, I.compare('>', e, 0), 1, Bm.ite(I, I.compare('<', e, 0), -1, 0)))),
        deg2rad=F('deg2rad', lift1('deg2rad', lambda I, e: I.binop('/', I.binop('*', e, PI), 180))),
        rad2deg=F('rad2deg', lift1('rad2deg', lambda I, e: I.binop('/', I.binop('*', e, 180), PI))),
        radians=F('radians', lift1('radians', lambda I, e: I.binop('/', I.binop('*', e, PI), 180))),
        degrees=F('degrees', lift1('degrees', lambda I, e: I.binop('/', I.binop('*', e, 180), PI))),
        round=F('round', lambda I, x, *a: _unsup('np.round')), rint=F('rint', lambda I, x: _unsup('np.rint')),
        trunc=F('trunc', lift1('trunc', lambda I, e: Bm.ite(I, I.compare('>=', e, 0), _floor(I, e), _ceil(I, e)))),
        fix=F('fix', lift1('fix', lambda I, e: Bm.ite(I, I.compare('>=', e, 0), _floor(I, e), _ceil(I, e)))),
        maximum=F('maximum', lambda I, a, b: _lift2(I, lambda x, y: I.builtins['max'].fn(I, x, y), a, b)),
        minimum=F('minimum', lambda I, a, b: _lift2(I, lambda x, y: I.builtins['min'].fn(I, x, y), a, b)),
        where=F('where', lambda I, c, a, b: _where(I, c, a, b)),
        clip=F('clip', lambda I, x, lo, hi: I.builtins['min'].fn(I, I.builtins['max'].fn(I, x, lo), hi)),
        square=F('square', lift1('square', lambda I, e: I.binop('*', e, e))),
        ndim=F('ndim', np_ndim), mgrid=_Grid(True), ogrid=_Grid(False), meshgrid=F('meshgrid', np_meshgrid), column_stack=F('column_stack', np_column_stack),
        shape=F('shape', lambda I, x: () if not isinstance(x, Arr) else tuple(x.shape)),
        size=F('size', lambda I, x: 1 if not isinstance(x, Arr) else arr_getattr(I, x, 'size')),
        transpose=F('transpose', lambda I, a: transpose(I, a)),
        concatenate=F('concatenate', np_concatenate), hstack=F('hstack', np_hstack),
    )
    return ModuleNS('numpy', ns)


def _unsup(msg):
    raise Unsupported(msg)


def _lift2(I, f, a, b):
    if isinstance(a, Arr) or isinstance(b, Arr):
        return _B().arr_binary(I, f, a, b, None)
    return f(a, b)


def _where(I, c, a, b):
    Bm = _B()
    if isinstance(c, Arr):
        shape = c.shape
        return Arr(shape, lambda idx: Bm.ite(I, c.fn(idx), Bm.arr_elem(a, idx, shape), Bm.arr_elem(b, idx, shape)), Bm.result_dtype(a, b))
    return Bm.ite(I, c, a, b)
