"""native replay of one obligation on the real code (runs under /venv/bin/python, no z3):
   python native_run.py <replay.json>   -> exit 1 if the contract clause is violated natively, 0 if it holds, 2 if not applicable"""
import copy
import importlib
import json
import os
import sys
import traceback
from fractions import Fraction

HERE = os.path.dirname(os.path.abspath(__file__))
VERIF = os.path.dirname(HERE)


def py_val(v, kind=None):
    if isinstance(v, dict):
        if 'num' in v:
            f = Fraction(int(v['num']), int(v['den']))
            return float(f)
        if 'repr' in v:
            return 0.0
    return v


class ReplayNotApplicable(Exception):
    pass


def _raised_by_the_harness(e):
    """was the exception raised by /verif's own helper code (specs, external models, the native vprim) rather than by astropy/regions
    or a library it calls?  Such an exception says nothing about the code under test"""
    if isinstance(e, NotImplementedError) and 'exist only in the symbolic run' in str(e):
        return True
    tb = e.__traceback__
    last = None
    while tb is not None:
        last = tb.tb_frame.f_code.co_filename
        tb = tb.tb_next
    if last is None:
        return False
    last = os.path.abspath(last)
    return last.startswith(os.path.abspath(VERIF) + os.sep) and '/contracts/' not in last


class PreFalse(Exception):
    pass


class NativeBuilder:
    symbolic = False

    def __init__(self, model, kinds=None):
        self.model = model
        self.kinds = kinds or {}
        self.used = {}

    def _get(self, name, default):
        v = self.model.get(name, None)
        if v is None:
            v = default
        v = py_val(v)
        self.used[name] = v
        return v

    def real(self, name):
        return float(self._get(name, 0.0))

    def int(self, name):
        return int(self._get(name, 0))

    def bool(self, name):
        return bool(self._get(name, False))

    def const(self, name, value):
        return value

    def ref(self, dotted):
        return resolve(dotted)

    def new(self, clsref, label=None, **fields):
        cls = resolve(clsref) if isinstance(clsref, str) else clsref
        obj = cls.__new__(cls)
        obj.__dict__.update(fields)
        return obj

    def dict(self, label, items=None, maybe=None):
        d = dict(items or {})
        for k, (present, val) in (maybe or {}).items():
            if present:
                d[k] = val
        return d

    def meta(self, clsref, label, items=None, maybe=None):
        cls = resolve(clsref) if isinstance(clsref, str) else clsref
        obj = cls()
        for k, v in (items or {}).items():
            dict.__setitem__(obj, k, v)
        for k, (present, val) in (maybe or {}).items():
            if present:
                dict.__setitem__(obj, k, val)
        return obj

    def list(self, label, items):
        return list(items)

    def array(self, name, shape, dtype='float'):
        import numpy as np
        shape = tuple(int(s) for s in shape)
        if any(n < 0 for n in shape) or (shape and __import__('math').prod(shape) > 4_000_000):
            raise ReplayNotApplicable(f'array extent {shape} of the counter-model is not replayable')
        np_dt = {'float': float, 'int': int, 'bool': bool}[dtype]
        spec = self.model.get(name)
        if shape == ():
            return np_dt(py_val(spec) if spec is not None else 0)
        arr = np.zeros(shape, dtype=np_dt)
        if isinstance(spec, dict) and 'entries' in spec:
            arr[...] = py_val(spec['else'])
            for idx, val in spec['entries']:
                if all(0 <= i < n for i, n in zip(idx, shape)):
                    arr[tuple(idx)] = py_val(val)
        fe = self.model.get('finite_' + name)
        if dtype == 'float' and isinstance(fe, dict) and 'entries' in fe:
            # pixels the counter-model declares non-finite (finite_<name>(index) == False) become NaN
            isfalse = lambda v: v is False or str(v) == 'False'
            if isfalse(fe.get('else')):
                keep = [tuple(i) for i, val in fe['entries'] if not isfalse(val) and all(0 <= a < n for a, n in zip(i, shape))]
                saved = [(i, arr[i]) for i in keep]
                arr[...] = np.nan
                for i, v in saved:
                    arr[i] = v
            for i, val in fe['entries']:
                if isfalse(val) and all(0 <= a < n for a, n in zip(i, shape)):
                    arr[tuple(i)] = np.nan
        self.used[name] = arr.tolist()
        return arr

    def quantity(self, name, unit):
        import astropy.units as u
        un = getattr(u, unit) if isinstance(unit, str) else unit
        si = {'angle': u.rad}.get(str(un.physical_type), None)
        v = self.real(name)
        if si is not None:
            return (v * si).to(un)
        return v * un

    def angle(self, name, unit):
        from astropy.coordinates import Angle
        import astropy.units as u
        return Angle(self.real(name) * u.rad).to(getattr(u, unit))

    def wcs(self, name, frame='icrs'):
        """a concrete rotated TAN WCS for replays (rotation / scale / reference taken from the model where present)"""
        import numpy as np
        from astropy.wcs import WCS
        w = WCS(naxis=2)
        rot = float(self._get(name + '.rot', 0.3))
        scale = abs(float(self._get(name + '.scale', 0.0))) or 2.0e-4
        ctype = {'icrs': ('RA---TAN', 'DEC--TAN'), 'fk5': ('RA---TAN', 'DEC--TAN'), 'galactic': ('GLON-TAN', 'GLAT-TAN')}.get(frame, ('RA---TAN', 'DEC--TAN'))
        w.wcs.ctype = list(ctype)
        w.wcs.crval = [float(self._get(name + '.lon0', 40.0)), float(self._get(name + '.lat0', 30.0))]
        w.wcs.crpix = [50.0, 60.0]
        c, s = np.cos(rot), np.sin(rot)
        w.wcs.cd = np.array([[-scale * c, scale * s], [scale * s, scale * c]])
        # C07-style contracts describe the WCS by its local scale `s` (rad / pixel) and the direction `nu` of north at a centre:
        # build the tangent-plane WCS that has exactly those there (reference point = that centre), so the counterexample replays
        if 's' in self.model and 'nu' in self.model:
            for cname in ('r.center', 'c', 'self.center'):
                if cname + '.lon' in self.model:
                    lon0, lat0 = np.degrees(float(self._get(cname + '.lon', 0.0))), np.degrees(float(self._get(cname + '.lat', 0.0)))
                    sv, nu = float(self._get('s', 1e-5)), float(self._get('nu', 1.0))
                    if sv > 0 and abs(lat0) < 89.9:
                        sd = np.degrees(sv)
                        w.wcs.crval = [lon0 % 360.0, lat0]
                        w.wcs.cd = sd * np.array([[-np.sin(nu), np.cos(nu)], [np.cos(nu), np.sin(nu)]])
                    break
        if frame == 'fk5':
            w.wcs.radesys = 'FK5'
            w.wcs.equinox = 2000.0
        return w

    def construct(self, clsref, label, *args, **kw):
        cls = resolve(clsref) if isinstance(clsref, str) else clsref
        return cls(*args, **kw)

    def assume(self, cond):
        if not cond:
            raise PreFalse()

    def call(self, fn, *args, **kw):
        return fn(*args, **kw)

    def mark_old(self, obj, label):
        return obj


def resolve(dotted):
    modname, _, path = dotted.partition('::')
    if modname.endswith('.py'):
        modname = modname[:-3].replace('/', '.')
    v = importlib.import_module(modname)
    for part in path.split('.') if path else []:
        v = getattr(v, part)
    return v


def raw_attr(dotted):
    """like resolve, but returns the raw class attribute (function / property) for the last component"""
    modname, _, path = dotted.partition('::')
    if modname.endswith('.py'):
        modname = modname[:-3].replace('/', '.')
    v = importlib.import_module(modname)
    parts = path.split('.') if path else []
    for part in parts[:-1]:
        v = getattr(v, part)
    if parts:
        import inspect
        if inspect.isclass(v):
            return inspect.getattr_static(v, parts[-1]), v
        return getattr(v, parts[-1]), None
    return v, None


def select_args(fn, pool):
    import inspect
    names = list(inspect.signature(fn).parameters)
    return {n: pool[n] for n in names if n in pool}


def snapshot(v):
    try:
        return copy.deepcopy(v)
    except Exception:
        return None


def same(a, b, depth=0):
    import numpy as np
    if depth > 8:
        return True
    if type(a) is not type(b):
        return False
    if isinstance(a, np.ndarray):
        return a.shape == b.shape and a.dtype == b.dtype and bool(np.all((a == b) | ((a != a) & (b != b))))
    if isinstance(a, dict):
        return list(a.keys()) == list(b.keys()) and all(same(a[k], b[k], depth + 1) for k in a) and \
            same(getattr(a, '__dict__', None), getattr(b, '__dict__', None), depth + 1)
    if isinstance(a, (list, tuple)):
        return len(a) == len(b) and all(same(x, y, depth + 1) for x, y in zip(a, b))
    if hasattr(a, '__dict__') and not callable(a):
        try:
            from astropy.coordinates import SkyCoord
            from astropy.units import Quantity
            if isinstance(a, Quantity):
                return a.unit == b.unit and same(np.asarray(a.value), np.asarray(b.value), depth + 1)
            if isinstance(a, SkyCoord):
                return a.frame.name == b.frame.name and same(np.asarray(a.spherical.lon.rad), np.asarray(b.spherical.lon.rad)) \
                    and same(np.asarray(a.spherical.lat.rad), np.asarray(b.spherical.lat.rad))
        except Exception:
            pass
        return same(a.__dict__, b.__dict__, depth + 1)
    try:
        r = a == b
        if isinstance(r, np.ndarray):
            return bool(r.all())
        return bool(r) or (a != a and b != b)
    except Exception:
        return True


def run_contract(cls, target, case_kw, model, clause, verbose=True):
    """returns ('violated'|'holds'|'pre_false'|'n/a', detail)"""
    B = NativeBuilder(model)
    try:
        import vprim as _nv
        _nv.UF_MODEL = {k: {'entries': [([py_val(a) for a in args], py_val(val)) for args, val in v.get('entries', [])], 'else': py_val(v.get('else'))}
                        for k, v in model.items() if isinstance(v, dict) and 'entries' in v}
    except Exception:
        pass
    setup = cls.__dict__['setup']
    setup = getattr(setup, '__func__', setup)
    try:
        args = setup(B, **case_kw)
    except PreFalse:
        return 'pre_false', 'counterexample does not satisfy a set-up assumption natively'
    pool = dict(args)
    for k, v in model.items():
        if k.startswith('forall.'):
            pool[k[7:]] = py_val(v)
    for name, kind in (cls.__dict__.get('forall') or {}).items():
        pool.setdefault(name, {'int': 0, 'index': 0, 'real': 0.0, 'bool': False}[kind])
    pre = cls.__dict__.get('pre')
    if pre is not None:
        pre = getattr(pre, '__func__', pre)
        try:
            if not pre(**select_args(pre, pool)):
                return 'pre_false', 'counterexample does not satisfy the precondition natively (rounding)'
        except Exception as e:
            return 'pre_false', f'precondition raised {type(e).__name__}: {e}'
    before = {k: snapshot(v) for k, v in args.items()}
    call = cls.__dict__.get('call')
    outcome = None
    try:
        if call is not None:
            call = getattr(call, '__func__', call)
            result = call(**select_args(call, pool))
        else:
            fn, owner = raw_attr(target)
            a = dict(args)
            import inspect
            try:
                f0 = fn.fget if isinstance(fn, property) else getattr(fn, '__func__', fn)
                f0 = f0.__init__ if inspect.isclass(f0) else f0
                sig = inspect.signature(f0)
                if '_args' not in a and not any(p.kind == p.VAR_KEYWORD for p in sig.parameters.values()):
                    a = {k: v for k, v in a.items() if k in sig.parameters}
            except (TypeError, ValueError):
                pass
            if '_args' in a:
                pos = list(a.pop('_args'))
                result = resolve(target)(*pos, **a)
            elif 'self' in a:
                s = a.pop('self')
                if isinstance(fn, property):
                    result = fn.fget(s)
                else:
                    f = getattr(fn, '__func__', fn)
                    result = f(s, **a)
            else:
                result = resolve(target)(**a)
        outcome = ('return', result)
    except Exception as e:
        outcome = ('raise', e)
    if outcome[0] == 'raise' and _raised_by_the_harness(outcome[1]):
        raise ReplayNotApplicable(f'the replay harness (not the code under test) raised {type(outcome[1]).__name__}: {outcome[1]}')
    kind, _, cname = clause.partition('.')
    detail = {'inputs': {k: repr(v)[:300] for k, v in B.used.items()}, 'outcome': (outcome[0], repr(outcome[1])[:300])}
    post = cls.__dict__.get('post') or {}
    raises = cls.__dict__.get('raises') or {}
    may_raise = cls.__dict__.get('may_raise') or ()
    if kind == 'post':
        cname = clause[5:]
        if outcome[0] == 'raise':
            e = outcome[1]
            names = [c.__name__ for c in type(e).__mro__]
            if any(n in raises or n in may_raise for n in names):
                return 'holds', detail
            return 'violated', dict(detail, why=f'unexpected exception {type(e).__name__}: {e}')
        fn = post[cname]
        pool['result'] = outcome[1]
        ok = fn(**select_args(fn, pool))
        return ('holds' if ok else 'violated'), detail
    if kind == 'raises':
        # raises.<Exc>.only_when / raises.<Exc>.whenever
        parts = clause.split('.')
        exc = parts[1]
        cond = raises[exc]
        c = bool(cond(**select_args(cond, pool)))
        raised = outcome[0] == 'raise' and exc in [k.__name__ for k in type(outcome[1]).__mro__]
        if parts[2] == 'only_when':
            return ('violated' if (raised and not c) else 'holds'), detail
        return ('violated' if (c and not raised) else 'holds'), detail
    if kind == 'no_unexpected_exception':
        if outcome[0] == 'raise':
            e = outcome[1]
            names = [c.__name__ for c in type(e).__mro__]
            if not any(n in raises or n in may_raise for n in names):
                return 'violated', dict(detail, why=f'unexpected exception {type(e).__name__}: {e}')
        return 'holds', detail
    if kind == 'frame':
        changed = [k for k, v in args.items() if before[k] is not None and not same(before[k], v)]
        modifies = cls.__dict__.get('modifies') or ()
        changed = [k for k in changed if k not in modifies]
        if changed:
            return 'violated', dict(detail, why=f'inputs changed: {changed}')
        return 'holds', detail
    return 'n/a', detail


def main():
    spec = json.load(open(sys.argv[1]))
    repo = os.environ.get('VERIF_REPO', spec.get('repo', '/repo'))
    sys.path[:0] = [repo, VERIF, os.path.join(HERE, 'native')]
    import warnings
    warnings.simplefilter('ignore')
    import regions
    if not os.path.abspath(regions.__file__).startswith(os.path.abspath(repo)):
        print('REPLAY ERROR: regions imported from', regions.__file__, 'not from', repo)
        sys.exit(3)
    mod = importlib.import_module(spec['module'])
    from pyvc import api
    entry = [e for e in api.REGISTRY if e['cls'].__name__ == spec['contract']][0]
    try:
        verdict, detail = run_contract(entry['cls'], entry['target'], spec.get('case_kwargs') or {}, spec['model'], spec['clause'])
    except ReplayNotApplicable as e:
        print(json.dumps({'verdict': 'n/a', 'detail': str(e)}))
        sys.exit(2)
    except Exception:
        traceback.print_exc()
        print('REPLAY ERROR')
        sys.exit(3)
    print(json.dumps({'verdict': verdict, 'detail': detail}, default=repr, indent=1))
    sys.exit(1 if verdict == 'violated' else 0 if verdict == 'holds' else 2)


if __name__ == '__main__':
    main()
