"""./check <property> quick|thorough   |   ./check --replay <replays/x.json>"""
import json
import os
import subprocess
import sys
import time
import hashlib
import re

HERE = os.path.dirname(os.path.abspath(__file__))
VERIF = os.path.dirname(HERE)
sys.path.insert(0, VERIF)
# VERIF_OUT redirects evidence/ and replays/ (used only by the seeded-change sweep so that it never overwrites real evidence)
OUT = os.environ.get('VERIF_OUT', VERIF)

EXIT_HELD, EXIT_VIOLATION, EXIT_UNDECIDED, EXIT_ERROR = 0, 1, 2, 3
NATIVE_PY = '/venv/bin/python'


def repo_path():
    return os.environ.get('VERIF_REPO', '/repo')


def load_known():
    out = []
    p = os.path.join(VERIF, 'KNOWN_FINDINGS.jsonl')
    if os.path.exists(p):
        for line in open(p):
            line = line.strip()
            if line and not line.startswith('#'):
                out.append(json.loads(line))
    return out


def replay_native(spec_path, timeout=300):
    env = dict(os.environ, VERIF_REPO=repo_path(), MPLBACKEND='Agg')
    env.pop('PYTHONPATH', None)
    try:
        p = subprocess.run([NATIVE_PY, os.path.join(HERE, 'native_run.py'), spec_path], capture_output=True, text=True, timeout=timeout, env=env)
        rc = p.returncode
        # exit 1 counts as a reproduced failure only with the runner's own verdict (an interpreter traceback also exits 1)
        if rc == 1 and '"verdict": "violated"' not in p.stdout:
            rc = 3
        return rc, (p.stdout + p.stderr)[-4000:]
    except subprocess.TimeoutExpired:
        return 3, 'replay timed out'


def fix_trig(o):
    """angles enter the VCs only through their (cos, sin) pair: recover a concrete angle for the replay"""
    import math
    from fractions import Fraction
    m = o.model or {}

    def f(v):
        return float(Fraction(int(v['num']), int(v['den']))) if isinstance(v, dict) and 'num' in v else float(v)

    def app(fname, arg):
        fi = m.get(fname)
        if not isinstance(fi, dict) or 'entries' not in fi:
            return None
        for args, val in fi['entries']:
            try:
                if abs(f(args[0]) - arg) < 1e-12:
                    return f(val)
            except Exception:
                pass
        try:
            return f(fi['else'])
        except Exception:
            return None
    for leaf in (o.meta.get('trig') or {}):
        try:
            v = f(m[leaf]) if leaf in m else 0.0
            c, s = app('cosf', v), app('sinf', v)
            if c is not None and s is not None:
                m[leaf] = math.atan2(s, c)
        except Exception:
            pass


class Res:
    """a discharged obligation as returned by a pool worker (plain data)"""

    def __init__(self, d):
        self.__dict__.update(d)
        self.goal = True


_W = None


def _run_job(job):
    """one contract case: generate its VCs, discharge them, split recorded findings; returns plain data"""
    from pyvc.vc import discharge_local
    ei, case = job
    _t0 = time.time()
    E, prop, known = _W['E'], _W['prop'], _W['known']
    e = E.registry[ei]
    out = dict(order=(ei, case), contract=e['cls'].name, target=e['target'], obls=[], errors=[], known_lines=[], files=[])
    executed = set()
    repo_root = repo_path()

    def _trace(fn, loc):
        f = fn.globs.get('__file__') if isinstance(fn.globs, dict) else None
        if f and f.startswith(repo_root) and not isinstance(fn.node, __import__('ast').Lambda):
            executed.add(os.path.relpath(f, repo_root) + '::' + fn.qualname)
    E.I.trace = _trace
    try:
        obls = E.run_contract(e, prop, only_case=case)
    except Exception as ex:
        import traceback
        traceback.print_exc()
        out['errors'].append(f'contract {e["cls"].name}[{case}]: {type(ex).__name__}: {ex}')
        return out
    for x in obls:
        x.entry = e
    discharge_local(obls, timeout_ms=_W['timeout_ms'], seed=_W['seed'])
    # vacuity guard: the hypotheses of a path (facts + path condition) must not be contradictory, or everything on it "holds".
    # quick: the path with the most hypotheses of this case; thorough: every path
    import z3 as _z3
    from pyvc.vc import Obligation
    bypath = {}
    for o in obls:
        if o.goal is not None and o.kind == 'post':     # paths that return normally (an unexpected-exception path is proved by being infeasible)
            if o.path not in bypath or len(o.hyps) > len(bypath[o.path].hyps):
                bypath[o.path] = o
    chosen = list(bypath.values())
    if _W.get('tier') != 'thorough' and chosen:
        # quick: up to six paths per case, those with the most hypotheses first (it used to be one; a contradiction that arises only on
        # one branch - such as a fact about an array invalidated by a later store - hides on the others)
        chosen = sorted(chosen, key=lambda o: -len(o.hyps))[:6]
    for o in chosen:
        sv = _z3.Solver()
        sv.set('timeout', 1500)
        sv.add(*o.hyps)
        if sv.check() == _z3.unsat:
            v = Obligation(o.prop, o.contract, o.case, 'vacuity.hypotheses_consistent', o.path, [], None, kind='error')
            v.status, v.reason = 'error', 'the hypotheses of this path are contradictory (every obligation on it would hold vacuously)'
            obls.append(v)
    extra = []
    for o in obls:
        if o.status != 'violated':
            continue
        for k in known:
            if k.get('contract') == o.contract and k.get('clause') == o.name and (k.get('case') in (None, o.case)):
                r = E.known_split(o, k)
                if r is None:
                    continue
                comp, repro = r
                discharge_local([comp, repro], timeout_ms=_W['timeout_ms'], seed=_W['seed'])
                if comp.status == 'valid' and repro.status == 'violated':
                    o.status = 'known'
                    o.known = k['id']
                    out['known_lines'].append(f"KNOWN-FINDING: property={prop} {k['id']} {k['what']}")
                    comp.name = o.name + f'[outside {k["id"]}]'
                    extra.append(comp)
                elif comp.status == 'violated':
                    o.model = comp.model
                    o.note = f'violation outside known finding {k["id"]}'
                break
    ck = E.case_kwargs(e, case)
    for o in obls + extra:
        out['obls'].append(dict(prop=o.prop, contract=o.contract, case=o.case, name=o.name, path=o.path, kind=o.kind,
                                status=o.status, time=o.time, model=o.model, backend=o.backend, reason=o.reason,
                                fullname=o.fullname, module=e['cls'].module, target=e['target'], case_kwargs=ck,
                                known=getattr(o, 'known', None), note=getattr(o, 'note', None),
                                meta={k: v for k, v in o.meta.items() if k in ('exception', 'trig')},
                                is_real=(o.goal is not None or o.status in ('undecided', 'error'))))
    used = set()
    for o in obls:
        c = o.meta.get('ctx')
        if c is not None:
            used |= set(c.ghost.get('lemmas_used', ()))
    out['lemmas_used'] = sorted(used)
    out['executed'] = sorted(executed)
    out['files'] = sorted(E.I.files_used)
    out['pyx'] = dict(E.I.pyx_reports)
    out['job_s'] = time.time() - _t0
    return out


def sha(path):
    return hashlib.sha256(open(path, 'rb').read()).hexdigest()[:16]


def main():
    if len(sys.argv) >= 3 and sys.argv[1] == '--replay':
        spec = json.load(open(sys.argv[2]))
        if 'runner' in spec:
            # a bounded stand-in's finding: re-run the same enumeration (same seed and tier) on the current tree
            from pyvc import bounded as BD
            res = BD.run(spec['runner'], spec['property'], spec.get('tier', 'quick'), int(spec.get('seed', 0)), repo_path())
            print(json.dumps(res['violations'], indent=1))
            sys.exit(1 if res['violations'] else 0)
        rc, out = replay_native(sys.argv[2])
        print(out)
        sys.exit(rc)
    prop, tier = sys.argv[1], (sys.argv[2] if len(sys.argv) > 2 else 'quick')
    seed = int(os.environ.get('VERIF_SEED', '0'))
    t0 = time.time()
    from pyvc.vc import Engine, discharge
    from contracts.index import MODULES, PROPERTIES
    from contracts.index import A_PY, A_REAL, A_NUMPY, A_UNITS
    info = PROPERTIES.get(prop) or dict(level='proof', trusted=[A_PY, A_REAL, A_NUMPY, A_UNITS], assumptions=[A_PY, A_REAL, A_NUMPY, A_UNITS])
    os.makedirs(os.path.join(OUT, 'evidence'), exist_ok=True)
    os.makedirs(os.path.join(OUT, 'replays'), exist_ok=True)
    E = Engine(repo_path(), seed=seed, tier=tier)
    errors = []
    for m in MODULES:
        try:
            E.load_contracts(m)
        except Exception as e:      # a contract module that cannot be loaded on this tree
            import traceback
            errors.append(f'loading {m}: {type(e).__name__}: {e}')
            traceback.print_exc()
    known = [k for k in load_known() if k.get('property') == prop and not k.get('fixed')]
    timeout_ms = int(os.environ.get('VERIF_TIMEOUT_MS') or (45000 if tier == 'quick' else 120000))     # override: sweeps over seeded changes only   # wall-clock budgets per rung: sized for a fully loaded 16-core machine
    jobs = []
    for ei, e in enumerate(E.registry):
        if prop in e['props']:
            for case in E.case_names(e):
                jobs.append((ei, case))
    global _W
    _W = dict(E=E, prop=prop, known=known, timeout_ms=timeout_ms, seed=seed, tier=tier)
    import multiprocessing as mp
    results = []
    if jobs:
        with mp.get_context('fork').Pool(min(16, len(jobs))) as pool:
            for r in pool.imap_unordered(_run_job, jobs, chunksize=1):
                results.append(r)
    results.sort(key=lambda r: r['order'])
    if os.environ.get('VERIF_DEBUG'):
        for r in sorted(results, key=lambda r: -r.get('job_s', 0))[:10]:
            print('  job', r['order'], r['contract'], round(r.get('job_s', 0), 1), 's', len(r['obls']), 'obls')
    obls = []
    contracts_run = {}
    known_lines = []
    files_used = set(E.I.files_used)
    pyx_reports = {}
    lemmas_used = set()
    executed_fns = set()
    for r in results:
        errors.extend(r['errors'])
        known_lines.extend(r['known_lines'])
        files_used.update(r['files'])
        pyx_reports.update(r.get('pyx') or {})
        lemmas_used.update(r.get('lemmas_used') or [])
        executed_fns.update(r.get('executed') or [])
        key = (r['contract'], r['target'])
        contracts_run[key] = contracts_run.get(key, 0) + len(r['obls'])
        for d in r['obls']:
            obls.append(Res(d))
    contracts_run = [(c, t, n) for (c, t), n in contracts_run.items()]
    # a lemma whose conclusion was used as a fact must be a contract of this very run (it is then proved, or fails, here)
    ran = {c for c, _, _ in contracts_run}
    for nm in sorted(lemmas_used):
        if nm not in ran:
            errors.append(f'lemma {nm} is used as a fact but is not proved in the run for {prop} (add {prop} to its props)')
    # ---- bounded stand-ins (run-time contract checks on enumerated inputs; never counted as proved)
    bounded = []
    bviol = []
    for b in info.get('bounded', []):
        from pyvc import bounded as BD
        res = BD.run(b, prop, tier, seed, repo_path())
        bounded.append(res['summary'])
        bviol.extend(res['violations'])
        if res.get('error'):
            errors.append(res['error'])
        listed = {k['id']: k for k in load_known() if k.get('property') == prop and not k.get('fixed') and k.get('bounded')}
        for kf in res.get('known', []):
            if kf['id'] in listed:
                known_lines.append(f"KNOWN-FINDING: property={prop} {kf['id']} {listed[kf['id']]['what']}")
            else:
                bviol.append({'replay': os.path.relpath(os.path.join(VERIF, 'replays', f'{prop}-bounded-{b}.json'), VERIF), 'what': kf['what']})
    # ---- verdicts
    violations = [o for o in obls if o.status == 'violated']
    undecided = [o for o in obls if o.status == 'undecided']
    errs = [o for o in obls if o.status == 'error']
    lines = []
    nrep = 0
    reported = set()
    for o in violations:
        key = (o.contract, o.name)
        if key in reported or len(reported) >= 8:
            continue
        reported.add(key)
        nrep += 1
        fname = re.sub(r'[^A-Za-z0-9_.-]+', '_', f'{prop}-{o.contract}-{o.case}-{o.name}')[:150] + '.json'
        path = os.path.join(OUT, 'replays', fname)
        case_kwargs = o.case_kwargs
        fix_trig(o)
        spec = {'property': prop, 'obligation': o.fullname, 'contract': o.contract, 'module': o.module, 'target': o.target,
                'case': o.case, 'case_kwargs': case_kwargs, 'clause': o.name, 'model': o.model or {}, 'repo': repo_path(),
                'solver': {'backend': o.backend, 'status': 'sat (negated obligation satisfiable)', 'time_s': round(o.time, 3)},
                'note': getattr(o, 'note', None), 'meta': {k: v for k, v in o.meta.items() if k in ('exception',)}}
        json.dump(spec, open(path, 'w'), indent=1, default=repr)
        rc, out = replay_native(path)
        spec['native_replay'] = {'exit': rc, 'output': out[-3000:]}
        json.dump(spec, open(path, 'w'), indent=1, default=repr)
        rel = os.path.relpath(path, OUT)
        if rc == 1:
            lines.append(f'VIOLATION property={prop} replay={rel}')
        else:
            lines.append(f'VIOLATION property={prop} replay={rel} obligation={o.fullname} no-failing-input-found')
    for v in bviol:
        lines.append(f"VIOLATION property={prop} replay={v['replay']}")
    wall = time.time() - t0
    n_obl = sum(1 for o in obls if o.is_real and o.status != 'known')
    n_dis = sum(1 for o in obls if o.status == 'valid')
    solver_time = sum(o.time for o in obls)
    files = {os.path.relpath(f, repo_path()): sha(f) for f in sorted(files_used) if f.startswith(repo_path())}
    # Cython kernels: the verified text is extracted mechanically from the .pyx on every run; what the extraction dropped is
    # reported and the unified diff against the .pyx is written next to the evidence
    pyx_info = []
    if pyx_reports:
        os.makedirs(os.path.join(OUT, 'evidence', 'pyx'), exist_ok=True)
    for rel, pr in sorted(pyx_reports.items()):
        dname = os.path.join('evidence', 'pyx', rel.replace('/', '__') + '.diff')
        open(os.path.join(OUT, dname), 'w').write(pr['diff'])
        rp = pr['report']
        pyx_info.append({'file': rel, 'diff': dname, 'rules': 'pyvc/pyx.py R1-R8',
                         'dropped': {'cimport/ctypedef lines': len(rp['deleted']), 'typed headers rewritten': sum(1 for x in rp['rewritten'] if x['to'].startswith('def ')),
                                     'typed local declarations': sum(len(x['names']) for x in rp['typed_locals']),
                                     'extern blocks': [e['header'] for e in rp['extern']], 'sibling cimports': [x['module'] for x in rp['sibling_imports']],
                                     'structs': [x['name'] for x in rp['structs']]}})
    level = info['level'] if not (undecided or errs or errors) else info['level']
    ev = {
        'property_id': prop, 'tier': tier, 'seed': seed, 'level': info['level'],
        'coverage': {
            'obligations': n_obl, 'discharged': n_dis,
            'checker_cmd': f'./check {prop} {tier}  (pyvc symbolic executor over the real source of {repo_path()} -> z3 {__import__("z3").get_version_string()}, cvc5 for z3 unknowns)',
            'trusted_base': info.get('trusted', []),
            'explanation': info.get('explanation', ''),
            'functions_under_contract': sorted({t for _, t, _ in contracts_run}),
            'contracts': [{'contract': c, 'target': t, 'obligations': n} for c, t, n in contracts_run],
            'backends': {b: sum(1 for o in obls if o.backend == b and o.status == 'valid') for b in sorted({o.backend for o in obls if o.backend})},
            'solver_time_s': round(solver_time, 3),
            'samples': [{'obligation': o.fullname, 'status': o.status, 'backend': o.backend, 'time_s': round(o.time, 3)} for o in obls[:12]]
                       + [{'obligation': o.fullname, 'status': o.status, 'reason': o.reason} for o in (violations + undecided + errs)[:20]],
            'undecided': [{'obligation': o.fullname, 'reason': o.reason} for o in undecided],
            'bounded': bounded,
            'known_findings': sorted({getattr(o, 'known') for o in obls if getattr(o, 'known', None)}),
            'source_sha256_16': files,
            'pyx_extraction': pyx_info,
            'lemmas_applied_modularly': sorted(lemmas_used),
            'repo_functions_executed_symbolically': sorted(executed_fns),
            'vacuity': {'contracts_with_feasible_path': len(contracts_run) - sum(1 for o in errs if o.name == 'cover')},
        },
        'assumptions': info.get('assumptions', []),
        'wall_s': round(wall, 2),
        'violations': len(lines),
    }
    if bounded:
        ev['coverage']['evaluations'] = sum(b.get('evaluations', 0) for b in bounded)
        ev['coverage']['distinct_nontrivial'] = sum(b.get('distinct_nontrivial', 0) for b in bounded)
        ev['coverage']['rule'] = '; '.join(b.get('rule', '') for b in bounded)
    json.dump(ev, open(os.path.join(OUT, 'evidence', f'{prop}.json'), 'w'), indent=1, default=repr)
    if os.environ.get('VERIF_SLOW'):
        for o in sorted(obls, key=lambda o: -o.time)[:15]:
            if o.time >= float(os.environ['VERIF_SLOW']):
                print(f'SLOW {o.time:.1f}s {o.backend} {o.fullname}')
    for l in sorted(set(known_lines)):
        print(l)
    for o in undecided:
        print(f'UNDECIDED property={prop} obligation={o.fullname} reason={o.reason}')
    for o in errs:
        print(f'CHECKER-ERROR property={prop} obligation={o.fullname} reason={o.reason}')
    for e in errors:
        print(f'CHECKER-ERROR property={prop} {e}')
    for l in lines:
        print(l)
    print(f'{prop} {tier}: {n_obl} obligations, {n_dis} discharged, {len(violations)} violated, {len(undecided)} undecided, '
          f'{len(errs) + len(errors)} errors, {len(set(known_lines))} known findings; bounded evaluations {sum(b.get("evaluations", 0) for b in bounded)}; {wall:.1f}s')
    if lines:
        sys.exit(EXIT_VIOLATION)
    if errs or errors or n_obl == 0:
        sys.exit(EXIT_ERROR)
    if undecided:
        sys.exit(EXIT_UNDECIDED)
    sys.exit(EXIT_HELD)


if __name__ == '__main__':
    main()
