"""modelled standard-library and third-party modules (assumed contracts: A-PY, A-OS, A-NUMPY, A-UNITS ...)"""
import math
import os
import string as _string
from fractions import Fraction

import z3

from .values import (MISSING, Arr, BoundMethod, Builtin, Fmt, ModuleNS, Rope, ShapeTag, Sym, Unsupported, VClass,
                     VClassMethod, VDict, VFunc, VList, VObj, VProperty, VSet, VSlice, VStaticMethod, is_num, is_sym,
                     kind_of, mk, zbool, zint, zreal)

HERE = os.path.dirname(os.path.abspath(__file__))
EXT = os.path.join(os.path.dirname(HERE), 'externals')


def _B():
    from . import builtins_ as B
    return B


def deepcopy(I, v, memo=None):
    """A-PY copy.deepcopy: structurally equal object graph, disjoint from everything reachable before the call"""
    memo = {}

    def rec(x):
        if x is None or isinstance(x, (bool, int, float, str, Fraction, Sym, Rope, tuple.__class__, VClass, VFunc, Builtin, ModuleNS, BoundMethod, frozenset, VSlice)):
            return x
        if id(x) in memo:
            return memo[id(x)]
        if isinstance(x, tuple):
            return tuple(rec(y) for y in x)
        if isinstance(x, VList):
            n = VList()
            memo[id(x)] = n
            n.l = [rec(y) for y in x.l]
            return n
        if isinstance(x, VDict):
            I.resolve_all(x)
            n = VDict()
            memo[id(x)] = n
            n.d = {k: rec(y) for k, y in x.d.items()}
            return n
        if isinstance(x, VSet):
            return VSet(list(x.s))
        if isinstance(x, VObj):
            dc, _ = x.cls.lookup('__deepcopy__')
            if dc is not MISSING:
                return I.call(dc, [x, VDict()], {})
            n = VObj(x.cls)
            memo[id(x)] = n
            n.fields = rec(x.fields)
            n.fields.owner = n
            if x.dictdata is not None:
                n.dictdata = rec(x.dictdata)
            if x.listdata is not None:
                n.listdata = rec(x.listdata)
            return n
        if isinstance(x, Arr):
            fn = x.fn      # snapshot of the current contents
            n = Arr(x.shape, fn, x.dtype)
            n.unit = x.unit
            return n
        if isinstance(x, _B().Lazy):
            return x
        raise Unsupported(f'deepcopy of {type(x).__name__}')
    return rec(v)


def shallow_copy(I, v):
    if isinstance(v, VList):
        return VList(v.l)
    if isinstance(v, VDict):
        I.resolve_all(v)
        return VDict(v.d)
    if isinstance(v, VObj):
        cp, _ = v.cls.lookup('__copy__')
        if cp is not MISSING:
            return I.call(cp, [v], {})
        n = VObj(v.cls)
        n.fields = VDict(v.fields.d)
        n.fields.owner = n
        if v.dictdata is not None:
            n.dictdata = VDict(v.dictdata.d)
        if v.listdata is not None:
            n.listdata = VList(v.listdata.l)
        return n
    if isinstance(v, Arr):
        return deepcopy(I, v)
    return v


class CatchWarnings(_B().__class__ if False else object):
    pass


def make_ext_modules(I):
    from .builtins2 import HostObj
    B = _B()
    mods = {}

    def M(name, **ns):
        m = ModuleNS(name, dict(ns))
        mods[name] = m
        return m

    def F(name, fn):
        return Builtin(name, fn)

    # ---- math
    from . import m_numpy as N
    M('math', pi=N.PI, sqrt=F('math.sqrt', lambda I, x: B.sqrt_(I, x)), cos=F('math.cos', N.np_cos), sin=F('math.sin', N.np_sin),
      hypot=F('math.hypot', N.np_hypot), floor=F('math.floor', lambda I, x: B.b_int(I, N.np_floor(I, x))) if False else F('math.floor', N.py_floor),
      ceil=F('math.ceil', N.py_ceil), fabs=F('math.fabs', lambda I, x: I.builtins['abs'].fn(I, x)),
      isfinite=F('math.isfinite', N.np_isfinite), isnan=F('math.isnan', N.np_isnan), inf=float('inf'), nan=float('nan'),
      atan2=F('math.atan2', N.np_arctan2), radians=F('math.radians', lambda I, x: I.binop('/', I.binop('*', x, N.PI), 180)),
      degrees=F('math.degrees', lambda I, x: I.binop('/', I.binop('*', x, 180), N.PI)),
      asin=F('math.asin', lambda I, x: _uf_real('asinf', x)), acos=F('math.acos', lambda I, x: _uf_real('acosf', x)))

    # ---- operator
    def opf(op):
        return F('operator.' + op, lambda I, a, b: I.binop(op, a, b))
    M('operator', and_=opf('&'), or_=opf('|'), xor=opf('^'), add=opf('+'), sub=opf('-'), mul=opf('*'),
      truediv=opf('/'), not_=F('operator.not_', lambda I, a: B.logical_not(I, a)),
      eq=F('operator.eq', lambda I, a, b: I.compare('==', a, b)), ne=F('operator.ne', lambda I, a, b: I.compare('!=', a, b)),
      gt=F('operator.gt', lambda I, a, b: I.compare('>', a, b)), lt=F('operator.lt', lambda I, a, b: I.compare('<', a, b)),
      ge=F('operator.ge', lambda I, a, b: I.compare('>=', a, b)), le=F('operator.le', lambda I, a, b: I.compare('<=', a, b)),
      itemgetter=F('operator.itemgetter', lambda I, k: F('itemgetter', lambda I, o: I.getitem(o, k))),
      attrgetter=F('operator.attrgetter', lambda I, k: F('attrgetter', lambda I, o: I.getattr(o, k))))

    # ---- itertools
    def it_cycle(I, it):
        return B.Lazy('cycle', list(I.iterate(it)))

    def it_chain(I, *its):
        parts = []
        for x in its:
            parts.append(x if isinstance(x, B.Lazy) else list(I.iterate(x)))
        return B.Lazy('chain', parts)

    def it_product(I, *its, repeat=1):
        import itertools
        return VList([tuple(p) for p in itertools.product(*[I.iterate(x) for x in its], repeat=repeat)])
    M('itertools', cycle=F('itertools.cycle', it_cycle), chain=F('itertools.chain', it_chain),
      product=F('itertools.product', it_product))

    # ---- copy
    M('copy', deepcopy=F('copy.deepcopy', deepcopy), copy=F('copy.copy', shallow_copy))

    # ---- warnings
    class CW(HostObj):
        def a___enter__(self, I):
            return None

        def a___exit__(self, I, *a):
            return False

    def warn(I, msg, category=None, stacklevel=1):
        I.ctx.event('warning', message=msg, category=getattr(category, 'name', None))
    M('warnings', warn=F('warnings.warn', warn), catch_warnings=F('warnings.catch_warnings', lambda I, **k: CW()),
      simplefilter=F('warnings.simplefilter', lambda I, *a, **k: None),
      filterwarnings=F('warnings.filterwarnings', lambda I, *a, **k: None))

    # ---- contextlib: generator-based context managers (run by the with statement, see Interp.with_generator_context)
    def contextmanager(I, func):
        from .interp import GeneratorContext
        from .values import VFunc
        if not isinstance(func, VFunc):
            raise Unsupported('contextmanager of a non-function')
        b = F('contextmanager:' + func.name, lambda I2, *a, **k: GeneratorContext(func, a, k))
        return b
    M('contextlib', contextmanager=F('contextlib.contextmanager', contextmanager))

    # ---- abc / dataclasses / numbers / string
    obj = I.builtins['object']
    ABC = VClass('ABC', [obj], {}, builtin=True)
    M('abc', ABC=ABC, abstractmethod=F('abc.abstractmethod', lambda I, f: f), ABCMeta=I.builtins['type'])

    def dataclass(I, cls=None, **kw):
        def build(cls):
            ann = {}
            for c in reversed(cls.mro):
                ann.update(c.ns.get('__annotations__', {}))
            names = list(ann)

            def init(I, self, *args, **kwargs):
                vals = dict(zip(names, args))
                vals.update(kwargs)
                for n in names:
                    if n not in vals:
                        d, _ = cls.lookup(n)
                        if d is MISSING:
                            I.throw('TypeError', f'missing argument {n!r}')
                        vals[n] = d
                for n in names:
                    I.setattr(self, n, vals[n])
            b = Builtin(cls.name + '.__init__', init)
            b.is_method = True
            cls.ns['__init__'] = b
            cls.ns['__dataclass_fields__'] = tuple(names)
            return cls
        if cls is None:
            return F('dataclass', lambda I, c: build(c))
        return build(cls)
    M('dataclasses', dataclass=F('dataclasses.dataclass', dataclass))
    Number = VClass('Number', [obj], {}, builtin=True)
    M('numbers', Number=Number, Real=VClass('Real', [Number], {}, builtin=True),
      Integral=VClass('Integral', [Number], {}, builtin=True))
    M('string', digits=_string.digits, ascii_lowercase=_string.ascii_lowercase, ascii_uppercase=_string.ascii_uppercase,
      ascii_letters=_string.ascii_letters, whitespace=_string.whitespace, punctuation=_string.punctuation)

    # ---- os (ghost file system: A-OS)
    def lexists(I, p):
        return fs_query(I, 'lexists', p)

    def exists(I, p):
        return fs_query(I, 'exists', p)
    def os_remove(I, p):
        I.ctx.event('fs', op='remove', path=p)
        gd = I.ctx.ghost.get('$dict')
        if gd is not None and 'files' in gd.d and isinstance(p, str) and p in gd.d['files'].d:
            fsd = gd.d['files']
            I.write(fsd, f'item {p!r}', key=p)
            del fsd.d[p]
    ospath = M('os.path', lexists=F('os.path.lexists', lexists), exists=F('os.path.exists', exists),
               join=F('os.path.join', lambda I, *a: os.path.join(*a)),
               splitext=F('os.path.splitext', lambda I, p: os.path.splitext(p) if isinstance(p, str) else _unsup('splitext of symbolic path')),
               basename=F('os.path.basename', lambda I, p: os.path.basename(p)),
               isfile=F('os.path.isfile', lambda I, p: fs_query(I, 'exists', p)))
    M('os', path=ospath, PathLike=VClass('PathLike', [obj], {}, builtin=True), fspath=F('os.fspath', lambda I, p: p),
      remove=F('os.remove', os_remove))

    # ---- re: only what a contract models explicitly; otherwise unsupported (bounded stand-in takes over)
    from . import m_re
    mods['re'] = m_re.make(I)

    # ---- numpy
    mods['numpy'] = N.make(I)

    # ---- astropy / matplotlib models written in interpreted python (assumed contracts, A-UNITS/A-WCS/A-MPL)
    for name, fname in [('astropy.units', 'units.py'), ('astropy.coordinates', 'coordinates.py'),
                        ('astropy.utils.exceptions', 'astropy_misc.py'), ('astropy.utils', 'astropy_utils.py'),
                        ('astropy.utils.data', 'astropy_data.py'),
                        ('astropy.io.fits.util', 'fits_util.py'), ('astropy.io.fits', 'fits_model.py'), ('astropy.io', 'astropy_io.py'),
                        ('astropy.table', 'table_model.py'), ('functools', 'functools_model.py'), ('astropy.wcs.utils', 'wcs_utils.py'), ('astropy.wcs', 'wcs_model.py'), ('astropy', 'astropy_top.py'),
                        ('matplotlib.patches', 'mpl_patches.py'), ('matplotlib.lines', 'mpl_lines.py'),
                        ('matplotlib.text', 'mpl_text.py'), ('matplotlib.path', 'mpl_path.py'),
                        ('matplotlib', 'mpl_top.py'), ('matplotlib.pyplot', 'mpl_pyplot.py'),
                        ('matplotlib.widgets', 'mpl_widgets.py'),
                        ('regions._geometry', 'geometry_kernels.py'), ('regions._geometry.pnpoly', 'geometry_pnpoly.py'),
                        ('regions._utils.optional_deps', 'optional_deps.py'), ('regions.version', 'regions_version.py'),
                        ('vprim', None)]:
        if fname is not None:
            mods[name] = os.path.join(EXT, fname)
    from . import prims
    mods['vprim'] = prims.make(I)
    return mods


def _uf_real(name, x):
    """an uninterpreted real function (only congruence is known): used by the kernels' exact-area code, which is not verified"""
    f = z3.Function(name, z3.RealSort(), z3.RealSort())
    return mk(f(zreal(x)), 'real')


def _unsup(msg):
    raise Unsupported(msg)


def fs_query(I, what, path, initial=False):
    """ghost file system: path -> exists? (symbolic, stable within a path); files created through the model exist"""
    gd = I.ctx.ghost.get('$dict')
    if not initial and gd is not None and 'files' in gd.d and isinstance(path, str):
        fsd = gd.d['files']
        if path in fsd.d:
            return True
    g = I.ctx.ghost.setdefault('fs', {})
    pk = path if isinstance(path, str) else id(path)
    key = (what, pk)
    if key not in g:
        g[key] = I.ctx.fresh(f'fs_{what}', 'bool')
        # a name that resolves to a file is present in its directory; the converse fails for a dangling symbolic link
        other = ('lexists' if what == 'exists' else 'exists', pk)
        if other in g:
            ex, lex = (g[key], g[other]) if what == 'exists' else (g[other], g[key])
            I.ctx.fact(z3.Implies(ex.e, lex.e))
        if not initial:
            I.ctx.event('fs', op=what, path=path, result=g[key])
    return g[key]
