"""verification-condition generation and discharge.

A contract is a class in /verif/contracts/*.py (interpreted symbolically here, imported natively for replay):

    @contract('regions/core/bounding_box.py::RegionBoundingBox.union', props=['C19'])
    class bbox_union:
        cases    = {'default': {}}                      # optional: name -> kwargs for setup
        def setup(B, **case): return dict(self=..., other=...)   # builds (symbolic | native) arguments with builder B
        pre      = lambda self, other: ...
        forall   = {'X': 'int', 'Y': 'int'}             # universally quantified clause variables
        post     = {'name': lambda self, other, result, X, Y: ...}
        raises   = {'TypeError': lambda self, other: ...}   # exception class name -> exact condition
        may_raise = ('ValueError',)                     # exceptions allowed without an exact condition
        modifies = ()                                   # labels of input objects the function may write
"""
import hashlib
import json
import multiprocessing as mp
import os
from fractions import Fraction
import sys
import time
import traceback

import z3

from . import builtins_ as B
from . import m_numpy as N
from .interp import Infeasible, Interp, PathCtx, VRaise, explore, PathLimit
from .values import (MISSING, Arr, Builtin, ModuleNS, Rope, Sym, Unsupported, VClass, VDict, VFunc, VList, VObj,
                     mk, zbool, zint, zreal)

VERIF = os.path.dirname(os.path.dirname(os.path.abspath(__file__)))


class Obligation:
    def __init__(self, prop, contract, case, name, path, hyps, goal, kind='post', meta=None):
        self.prop, self.contract, self.case, self.name, self.path = prop, contract, case, name, path
        self.hyps = hyps            # list of z3 Bool
        self.goal = goal            # z3 Bool (None for 'undecided' placeholders)
        self.kind = kind
        self.meta = meta or {}
        self.status = None
        self.time = 0.0
        self.model = None
        self.backend = None
        self.reason = None

    @property
    def fullname(self):
        c = f'[{self.case}]' if self.case and self.case != 'default' else ''
        return f'{self.contract}{c}::{self.name}[path {self.path}]'


# ---------------------------------------------------------------------------- symbolic builder
class SymBuilder:
    """creates named symbolic leaves and pre-existing ('old') heap objects for contract set-up"""
    symbolic = True

    def __init__(self, I, ctx):
        self.I, self.ctx = I, ctx
        self.leaves = {}        # name -> (kind, Sym)
        self.objects = {}       # label -> object

    def _leaf(self, name, kind):
        if name in self.leaves:
            return self.leaves[name][1]
        if kind == 'int':
            s = Sym(z3.Int(name), 'int')
        elif kind == 'real':
            s = Sym(z3.Real(name), 'real')
        else:
            s = Sym(z3.Bool(name), 'bool')
        self.leaves[name] = (kind, s)
        return s

    def a_real(self, I, name):
        return self._leaf(name, 'real')

    def a_int(self, I, name):
        return self._leaf(name, 'int')

    def a_bool(self, I, name):
        return self._leaf(name, 'bool')

    def a_const(self, I, name, value):
        """a concrete value chosen by the contract (kept under a name for the replay)"""
        return value

    def a_new(self, I, clsref, label=None, **fields):
        """an instance of a class of the code under verification, fields set directly (class invariant is assumed in `pre`)"""
        cls = clsref if isinstance(clsref, VClass) else I.get(clsref)
        obj = B.new_object(I, cls)
        obj.old = True
        obj.fields.old = True
        obj.label = label or cls.name
        obj.fields.label = obj.label
        for k, v in fields.items():
            obj.fields.d[k] = v
        obj.pending_init = (lambda I2, o, cls=cls, names=tuple(fields): self._complete_private_state(
            I2, cls, o, {k: o.fields.d[k] for k in names if k in o.fields.d}))      # the values the object holds when the need arises
        if label:
            self.objects[label] = obj
        return obj

    def _complete_private_state(self, I, cls, obj, fields):
        """attributes that the real constructor would also have set (caches, counters, ... - private state a refactoring may add) are
        taken from a scratch instance built by the real `__init__` from the same values; attributes given by the contract stay the
        objects the contract gave.  Without this a harmless change that adds such an attribute would fail with AttributeError here."""
        from .interp import VRaise
        from .values import VFunc
        init, owner = cls.lookup('__init__')
        if not isinstance(init, VFunc) or owner is None or getattr(owner, 'builtin', False):
            return
        a = init.node.args
        if a.vararg is not None or a.kwarg is not None:
            return
        names = [x.arg for x in a.args][1:]
        required = names[:len(names) - len(a.defaults)]
        if any(n not in fields for n in required) or not all(k in names for k in fields):
            return
        try:
            scratch = I.call(cls, [], {k: v for k, v in fields.items()})
        except VRaise:
            return                      # the given values are not accepted by the constructor: the contract's `pre` decides what to do
        except Unsupported:
            return
        for k, v in scratch.fields.d.items():
            if k not in obj.fields.d:
                obj.fields.d[k] = v

    def a_dict(self, I, label, items=None, maybe=None):
        d = VDict(dd_items(I, items), old=True)
        d.label = label
        for k, (present, val) in (dd_items(I, maybe) if maybe is not None else {}).items():
            d.maybe[k] = (present, val)
        self.objects[label] = d
        return d

    def a_meta(self, I, clsref, label, items=None, maybe=None):
        """a RegionMeta / RegionVisual-like dict subclass instance with given (possibly optional) entries"""
        cls = clsref if isinstance(clsref, VClass) else I.get(clsref)
        obj = B.new_object(I, cls)
        obj.old = True
        obj.label = label
        obj.dictdata.old = True
        obj.dictdata.label = label
        for k, v in dd_items(I, items).items():
            obj.dictdata.d[k] = v
        if maybe is not None:
            for k, pv in dd_items(I, maybe).items():
                present, val = pv
                obj.dictdata.maybe[k] = (present, val)
        self.objects[label] = obj
        return obj

    def a_list(self, I, label, items):
        l = VList(I.iterate(items), old=True)
        l.label = label
        self.objects[label] = l
        return l

    def a_array(self, I, name, shape, dtype='float'):
        """an input array: element function is an uninterpreted function of the index"""
        shape = tuple(I.iterate(shape))
        rank = len(shape)
        for d in shape:
            if isinstance(d, Sym):
                self.ctx.fact(zint(d) >= 0)      # type invariant of an array shape
        sort = {'float': z3.RealSort(), 'int': z3.IntSort(), 'bool': z3.BoolSort()}[dtype]
        f = z3.Function(name, *([z3.IntSort()] * rank), sort) if rank else None
        kind = {'float': 'real', 'int': 'int', 'bool': 'bool'}[dtype]
        if rank == 0:
            v = self._leaf(name, kind)
            a = Arr((), lambda idx: v, dtype, old=True, label=name)
        else:
            def fn(idx):
                idx = tuple(i.idx[0] if isinstance(i, N.FlatIdx) and len(i.idx) == 1 else i for i in idx)
                if any(isinstance(i, N.FlatIdx) for i in idx):
                    raise Unsupported('flat index into an input array')
                return mk(f(*[zint(i) for i in idx]), kind)
            a = Arr(shape, fn, dtype, old=True, label=name)
            a.uf = f
        self.leaves.setdefault(name, ('array', a))
        self.objects[name] = a
        return a

    def a_quantity(self, I, name, unit):
        """a scalar Quantity whose canonical (SI) value is the symbolic leaf `name` (angles: radians)"""
        um = I.import_module('astropy.units')
        uu = um.ns[unit] if isinstance(unit, str) else unit
        return I.call(I.getattr(um.ns['Quantity'], '_from_si'), [self._leaf(name, 'real'), uu], {})

    def a_angle(self, I, name, unit):
        cm = I.import_module('astropy.coordinates')
        um = I.import_module('astropy.units')
        return I.call(I.getattr(cm.ns['Angle'], '_from_si'), [self._leaf(name, 'real'), um.ns[unit]], {})

    def a_construct(self, I, clsref, label, *args, **kw):
        """an instance built by running the real constructor symbolically (faithful private state); then marked pre-existing"""
        cls = clsref if isinstance(clsref, VClass) else I.get(clsref)
        obj = I.call(cls, list(args), kw)
        mark_old(obj, label)
        self.objects[label] = obj
        return obj

    def a_assume(self, I, cond):
        if cond is True:
            return
        if cond is False:
            raise Infeasible()
        self.ctx.assume(zbool(cond))

    def a_wcs(self, I, name, frame='icrs'):
        """an arbitrary invertible celestial WCS (assumed contract externals/wcs_model.py)"""
        cls = I.get('externals/wcs_model.py::WCS')
        w = I.call(cls, [self._leaf(name + '.id', 'int'), frame], {})
        w.old = True
        w.label = name
        return w

    def a_ref(self, I, dotted):
        return I.get(dotted)

    def a_call(self, I, fn, *args, **kw):
        return I.call(fn, list(args), kw)

    def a_mark_old(self, I, obj, label):
        mark_old(obj, label)
        self.objects[label] = obj
        return obj


def mark_old(v, label, seen=None):
    seen = seen if seen is not None else set()
    if id(v) in seen:
        return
    seen.add(id(v))
    if isinstance(v, (VDict, VList, Arr)):
        v.old = True
        v.label = v.label or label
        if isinstance(v, VDict):
            for k, x in v.d.items():
                mark_old(x, f'{label}[{k!r}]', seen)
        elif isinstance(v, VList):
            for i, x in enumerate(v.l):
                mark_old(x, f'{label}[{i}]', seen)
    elif isinstance(v, VObj):
        v.old = True
        v.label = v.label or label
        mark_old(v.fields, label, seen)
        v.fields.label = v.label
        if v.dictdata is not None:
            mark_old(v.dictdata, label, seen)
        if v.listdata is not None:
            mark_old(v.listdata, label, seen)
    elif isinstance(v, tuple):
        for i, x in enumerate(v):
            mark_old(x, f'{label}[{i}]', seen)


def dd_items(I, v):
    if v is None:
        return {}
    return dict(I.dict_items(v))


class BuilderObj(B.HostObj):
    def __init__(self, sb):
        self.sb = sb

    def getattr(self, I, name):
        if name == 'symbolic':
            return True
        m = getattr(self.sb, 'a_' + name, None)
        if m is None:
            return MISSING
        return Builtin('B.' + name, m)


# ---------------------------------------------------------------------------- engine
class Engine:
    def __init__(self, repo, seed=0, tier='quick'):
        self.repo = repo
        self.seed = seed
        self.tier = tier
        self.I = Interp(repo, extra_roots=[VERIF])
        self.registry = []
        api = ModuleNS('pyvc.api', {})

        def contract(I, target, props=(), **kw):
            def deco(I2, cls):
                self.registry.append({'target': target, 'props': list(I.iterate(props)), 'cls': cls, 'opts': kw})
                return cls
            return Builtin('contract.deco', deco)
        api.ns['contract'] = Builtin('contract', contract)
        api.ns['SYMBOLIC'] = True
        self.I.ext_modules['pyvc.api'] = api
        self.I.ext_modules['pyvc'] = ModuleNS('pyvc', {'api': api})
        self.obligations = []
        self.notes = []
        self.functions = set()
        self.trusted = set()

    def load_contracts(self, modname):
        self.I.import_module(modname)

    # -- running one contract case ---------------------------------------------------------
    def contract_attr(self, cls, name, default=None):
        v, _ = cls.lookup(name)
        if v is MISSING:
            return default
        if hasattr(v, 'func') and not isinstance(v, VFunc):
            v = v.func
        return v

    def run_contract(self, entry, prop, only_case=None):
        I = self.I
        cls = entry['cls']
        cname = cls.name
        target = entry['target']
        cases = self.contract_attr(cls, 'cases')
        cases = dict(I.dict_items(cases)) if cases is not None else {'default': VDict()}
        setup = self.contract_attr(cls, 'setup')
        pre = self.contract_attr(cls, 'pre')
        post = self.contract_attr(cls, 'post')
        post = dict(I.dict_items(post)) if post is not None else {}
        raises = self.contract_attr(cls, 'raises')
        raises = dict(I.dict_items(raises)) if raises is not None else {}
        may_raise = tuple(I.iterate(self.contract_attr(cls, 'may_raise', ())))
        forall = self.contract_attr(cls, 'forall')
        forall = dict(I.dict_items(forall)) if forall is not None else {}
        modifies = tuple(I.iterate(self.contract_attr(cls, 'modifies', ())))
        call = self.contract_attr(cls, 'call')
        hints = self.contract_attr(cls, 'hints')
        max_paths = self.contract_attr(cls, 'max_paths', 400)
        loops = self.contract_attr(cls, 'loops')
        I.loop_specs = dict(I.dict_items(loops)) if loops is not None else {}
        tgt = None
        if target:
            tgt = I.get(target)
            self.functions.add(target)
        obls = []
        for case, ckw in cases.items():
            if only_case is not None and case != only_case:
                continue
            ckw = dict(I.dict_items(ckw)) if not isinstance(ckw, dict) else ckw
            pathno = [0]

            def run(ctx, case=case, ckw=ckw):
                I.ctx = ctx
                I.depth = 0
                I.call_hooks = {}
                sb = SymBuilder(I, ctx)
                ctx.sb = sb
                bo = BuilderObj(sb)
                args = I.call(setup, [bo], dict(ckw))
                args = dict(I.dict_items(args))
                ctx.args = args
                if pre is not None:
                    pv = I.call(pre, [], self.select_args(pre, args))
                    if pv is False:
                        raise Infeasible()
                    if pv is not True:
                        ctx.assume(zbool(pv))
                        if not ctx.feasible(z3.BoolVal(True)):
                            raise Infeasible()
                ctx.pre_len = len(ctx.pc)
                ctx.events_before = len(ctx.events)
                # universally quantified clause variables are fixed arbitrary constants for the whole path (loop invariants may use them)
                ctx.skolems = {nm: sb._leaf(f'forall.{nm}', {'int': 'int', 'real': 'real', 'bool': 'bool', 'index': 'int'}[kd]) for nm, kd in forall.items()}
                try:
                    if call is not None:
                        res = I.call(call, [], self.select_args(call, args))
                    elif isinstance(tgt, (VFunc, Builtin)) or tgt is not None:
                        res = self.invoke(tgt, args)
                    else:
                        res = None
                    if hints is not None:
                        # proof hints: lemmas (each its own obligation) that become facts for every obligation of this path
                        ctx.base_pc_len = len(ctx.pc)
                        ctx.lemmas = []
                        I.call(hints, [], self.select_args(hints, args, {'result': res}))
                    return ('return', res)
                except VRaise as vr:
                    return ('raise', vr.exc)
            try:
                results = explore(run, max_paths=max_paths)
            except PathLimit as e:
                obls.append(self.undecided(prop, cname, case, 'paths', 0, str(e)))
                continue
            except VRaise as vr:
                obls.append(self.undecided(prop, cname, case, 'setup', 0, f'contract set-up raised {exc_text(I, vr.exc)}', kind='error'))
                continue
            n = 0
            for ctx, out in results:
                if out[0] == 'infeasible':
                    continue
                n += 1
                if out[0] == 'unsupported':
                    obls.append(self.undecided(prop, cname, case, 'subset', n, out[1]))
                    continue
                if out[0] == 'partial':
                    # the 'preserve' path of a loop contract: only the obligations raised on the way
                    obls.extend(self.side_obligations(prop, cname, case, n, ctx))
                    continue
                obls.extend(self.path_obligations(prop, cname, case, n, ctx, out, post, raises, may_raise, forall, modifies))
            if n == 0:
                obls.append(self.undecided(prop, cname, case, 'cover', 0, 'no feasible path: contradictory precondition (vacuous)', kind='error'))
        return obls

    def invoke(self, tgt, args):
        I = self.I
        a = dict(args)
        if isinstance(tgt, VFunc) and tgt.node.args.kwarg is None and '_args' not in a:
            names = {p.arg for p in tgt.node.args.posonlyargs + tgt.node.args.args + tgt.node.args.kwonlyargs}
            a = {k: v for k, v in a.items() if k in names}       # other entries are ghost parameters of the contract
        elif isinstance(tgt, VClass) and '_args' not in a:
            init, _ = tgt.lookup('__init__')
            if isinstance(init, VFunc) and init.node.args.kwarg is None:
                names = {p.arg for p in init.node.args.args + init.node.args.kwonlyargs}
                a = {k: v for k, v in a.items() if k in names}
        if 'self' in a and isinstance(tgt, (VFunc, Builtin)):
            s = a.pop('self')
            return I.call(tgt, [s], a)
        if '_args' in a:
            pos = list(I.iterate(a.pop('_args')))
            return I.call(tgt, pos, a)
        return I.call(tgt, [], a)

    def select_args(self, fn, args, extra=None):
        names = [p.arg for p in fn.node.args.args]
        out = {}
        pool = dict(args)
        if extra:
            pool.update(extra)
        for n in names:
            if n in pool:
                out[n] = pool[n]
        return out

    def undecided(self, prop, cname, case, name, path, reason, kind='undecided'):
        o = Obligation(prop, cname, case, name, path, [], None, kind=kind)
        o.status = 'error' if kind == 'error' else 'undecided'
        o.reason = reason
        return o

    def hyps(self, ctx, upto=None):
        pc = ctx.pc if upto is None else ctx.pc[:upto]
        return list(N.GLOBAL_FACTS) + list(ctx.facts) + list(pc)

    def eval_clause(self, ctx, fn, kwargs):
        """evaluate a (pure) contract clause in a sub-exploration; returns (goal formula, extra facts) or raises"""
        I = self.I
        base_pc = list(ctx.pc)
        base_facts = list(ctx.facts)
        outs = []
        if not hasattr(self, 'pending_lemmas'):
            self.pending_lemmas = []

        def run(c2):
            c2.pc = list(base_pc)
            c2.facts = list(base_facts)
            c2.n_fresh = ctx.n_fresh + 1000
            c2.trig_cache = ctx.trig_cache
            c2.ghost = ctx.ghost
            c2.base_pc_len = len(base_pc)
            c2.lemmas = []
            I.ctx = c2
            I.depth = 0
            v = I.call(fn, [], kwargs)
            if isinstance(v, Sym):
                v = zbool(v)
            elif isinstance(v, bool) or v is None:
                v = z3.BoolVal(bool(v))
            elif isinstance(v, Arr):
                raise Unsupported('clause returned an array')
            else:
                v = z3.BoolVal(I.truth(v))
            return ('return', v)
        results = explore(run, max_paths=300)
        goals = []
        facts = []
        for c2, out in results:
            if out[0] == 'infeasible':
                facts.extend(c2.facts[len(base_facts):])      # definitional facts first stated on this sub-path still hold
                continue
            if out[0] == 'unsupported':
                raise Unsupported('in clause: ' + out[1])
            extra = c2.pc[len(base_pc):]
            # facts are definitional (fresh-symbol definitions, identities, axioms of abstract functions): they hold whatever
            # decisions the sub-path took; model code must not state a fact whose content depends on a decision
            # (the hypothesis-consistency check of every contract case guards against a violation of that rule)
            facts.extend(c2.facts[len(base_facts):])
            for (ln, lc, lpc, lfacts) in c2.lemmas:
                self.pending_lemmas.append((ln, lc, list(N.GLOBAL_FACTS) + lfacts + lpc))
            for ent in c2.side:
                # obligations raised inside the clause (e.g. the precondition of a lemma applied there)
                self.pending_lemmas.append(('side.' + ent[0], ent[1], list(N.GLOBAL_FACTS) + list(c2.facts) + list(ent[2])))
            goals.append(z3.Implies(z3.And(*extra), out[1]) if extra else out[1])
        I.ctx = ctx
        return (z3.And(*goals) if len(goals) != 1 else goals[0]), facts

    def path_obligations(self, prop, cname, case, n, ctx, out, post, raises, may_raise, forall, modifies):
        I = self.I
        obls = []
        args = ctx.args
        hyps = self.hyps(ctx)
        meta = {'leaves': {k: v[0] for k, v in ctx.sb.leaves.items()}, 'ctx': ctx}

        def add(name, goal, extra_facts=(), kind='post', hy=None):
            o = Obligation(prop, cname, case, name, n, (hy if hy is not None else hyps) + list(extra_facts), goal, kind=kind, meta=dict(meta))
            obls.append(o)
            return o
        # skolems for universally quantified clause variables
        sk = {}
        for name, kind in forall.items():
            s = ctx.sb._leaf(f'forall.{name}', {'int': 'int', 'real': 'real', 'bool': 'bool', 'index': 'int'}[kind])
            sk[name] = s
        meta['skolems'] = sk
        trigmap = {}
        for key, val in ctx.trig_cache.items():
            if key[0] == 'trig' and len(val) == 3 and z3.is_const(val[2]) and val[2].decl().kind() == z3.Z3_OP_UNINTERPRETED:
                trigmap[val[2].decl().name()] = ('cosf', 'sinf')
        meta['trig'] = trigmap
        univ = []
        isk = [s for s in sk.values() if s.kind == 'int']
        for (nn, f) in ctx.ghost.get('univ', []):
            if isinstance(nn, tuple):
                import itertools
                if len(isk) ** len(nn) <= 64:
                    for tup in itertools.product(isk, repeat=len(nn)):
                        univ.append(z3.Implies(z3.And(*[z3.And(a.e >= 0, a.e < zint(b)) for a, b in zip(tup, nn)]), f(tup)))
                continue
            for s in isk:
                univ.append(z3.Implies(z3.And(s.e >= 0, s.e < zint(nn)), f(s)))
        # exceptional behaviour
        if out[0] == 'raise':
            exc = out[1]
            ename = exc.cls.name
            names = [c.name for c in exc.cls.mro]
            matched = None
            for rn in raises:
                if rn in names:
                    matched = rn
                    break
            if matched is not None:
                try:
                    g, fx = self.eval_clause(ctx, raises[matched], self.select_args(raises[matched], args, sk))
                    add(f'raises.{matched}.only_when', g, list(fx) + univ, kind='raises')
                except Unsupported as e:
                    obls.append(self.undecided(prop, cname, case, f'raises.{matched}', n, str(e)))
                except VRaise as vr:
                    obls.append(self.undecided(prop, cname, case, f'raises.{matched}', n, 'clause raised ' + exc_text(I, vr.exc), kind='error'))
            elif any(m in names for m in may_raise):
                pass
            else:
                # an exception the contract does not allow: violated iff the path is feasible
                o = add(f'no_unexpected_exception.{ename}', z3.BoolVal(False), univ, kind='raises')
                o.meta['exception'] = exc_text(I, exc)
        else:
            result = out[1]
            for rn, cond in raises.items():
                try:
                    g, fx = self.eval_clause(ctx, cond, self.select_args(cond, args, sk))
                    add(f'raises.{rn}.whenever', z3.Not(g), list(fx) + univ, kind='raises')
                except Unsupported as e:
                    obls.append(self.undecided(prop, cname, case, f'raises.{rn}', n, str(e)))
                except VRaise as vr:
                    obls.append(self.undecided(prop, cname, case, f'raises.{rn}', n, 'clause raised ' + exc_text(I, vr.exc), kind='error'))
            for pname, fn in post.items():
                try:
                    kw = self.select_args(fn, args, dict(sk, result=result, events=EventsView(ctx)))
                    self.pending_lemmas = []
                    g, fx = self.eval_clause(ctx, fn, kw)
                    add(f'post.{pname}', g, list(fx) + univ)
                    for (ln, lc, lh) in self.pending_lemmas:
                        # a model limit met while evaluating the clause makes the clause undecided there, never violated
                        add(f'post.{pname}.lemma.{ln}', lc, univ, kind='soft' if ln.startswith('side.soft:') else 'lemma', hy=lh)
                    self.pending_lemmas = []
                except Unsupported as e:
                    obls.append(self.undecided(prop, cname, case, f'post.{pname}', n, str(e)))
                except VRaise as vr:
                    obls.append(self.undecided(prop, cname, case, f'post.{pname}', n, 'clause raised ' + exc_text(I, vr.exc), kind='error'))
        for (ln, lc, lpc, lfacts) in getattr(ctx, 'lemmas', []):
            add(f'hint.{ln}', lc, kind='lemma', hy=list(N.GLOBAL_FACTS) + lfacts + lpc)
        # frame: writes to pre-existing objects not listed in `modifies`
        seen = set()
        for ev in ctx.events[ctx.events_before:]:
            if ev.kind == 'frame':
                lab = ev.target
                if any(lab == m or lab.startswith(m + '[') or lab.startswith(m + '.') for m in modifies):
                    continue
                key = (lab, ev.where)
                if key in seen:
                    continue
                seen.add(key)
                hy = list(N.GLOBAL_FACTS) + list(ctx.facts) + list(getattr(ev, 'pc', ctx.pc))
                o = add(f'frame.unchanged({lab}: {ev.where})', z3.BoolVal(False), kind='frame', hy=hy)
        if not seen:
            add('frame', z3.BoolVal(True), kind='frame')
        # side obligations raised by external models (numpy bounds ...)
        for i, ent in enumerate(ctx.side):
            sname, cond, pcs = ent[:3]
            fcts = ent[3] if len(ent) > 3 else ctx.facts      # a lemma is proved from the facts known when it was stated
            soft = sname.startswith('soft:')
            add(f'side.{sname[5:] if soft else sname}#{i}', cond, kind='soft' if soft else 'side', hy=list(N.GLOBAL_FACTS) + list(fcts) + list(pcs))
        return obls

    def side_obligations(self, prop, cname, case, n, ctx):
        obls = []
        meta = {'leaves': {k: v[0] for k, v in ctx.sb.leaves.items()}, 'ctx': ctx}
        for i, ent in enumerate(ctx.side):
            sname, cond, pcs = ent[:3]
            fcts = ent[3] if len(ent) > 3 else ctx.facts
            soft = sname.startswith('soft:')
            obls.append(Obligation(prop, cname, case, f'side.{sname[5:] if soft else sname}#{i}', n,
                                   list(N.GLOBAL_FACTS) + list(fcts) + list(pcs), cond, kind='soft' if soft else 'side', meta=dict(meta)))
        return obls

    def case_names(self, entry):
        cases = self.contract_attr(entry['cls'], 'cases')
        if cases is None:
            return ['default']
        return [k for k, _ in self.I.dict_items(cases)]

    def case_kwargs(self, entry, case):
        I = self.I
        cases = self.contract_attr(entry['cls'], 'cases')
        if cases is None:
            return {}
        ckw = dict(I.dict_items(cases)).get(case)
        if ckw is None:
            return {}
        out = {}
        for k, v in (ckw.items() if isinstance(ckw, dict) else I.dict_items(ckw)):
            out[k] = v if isinstance(v, (int, float, str, bool, type(None))) else repr(v)
        return out

    def known_split(self, o, k):
        """for a recorded finding: (obligation on the complement of the finding's predicate, reproduction query)"""
        I = self.I
        cls = o.entry['cls']
        findings = self.contract_attr(cls, 'findings')
        if findings is None:
            return None
        findings = dict(I.dict_items(findings))
        fn = findings.get(k['id'])
        if fn is None:
            return None
        ctx = o.meta.get('ctx')
        if ctx is None:
            return None
        sk = o.meta.get('skolems', {})
        try:
            g, fx = self.eval_clause(ctx, fn, self.select_args(fn, ctx.args, sk))
        except Exception as e:
            return None
        comp = Obligation(o.prop, o.contract, o.case, o.name, o.path, o.hyps + list(fx) + [z3.Not(g)], o.goal, kind=o.kind, meta=o.meta)
        repro = Obligation(o.prop, o.contract, o.case, o.name + '[reproduces]', o.path, o.hyps + list(fx) + [g], o.goal, kind=o.kind, meta=o.meta)
        return comp, repro


class EventsView(B.HostObj):
    def __init__(self, ctx):
        self.ctx = ctx

    def a_warnings(self, I):
        return VList([e.message for e in self.ctx.events if e.kind == 'warning'])

    def a_count(self, I, kind):
        return sum(1 for e in self.ctx.events if e.kind == kind)

    def a_of(self, I, kind):
        out = []
        for e in self.ctx.events:
            if e.kind == kind:
                out.append(VDict({k: v for k, v in e.__dict__.items() if k != 'pc'}))
        return VList(out)


def exc_text(I, exc):
    try:
        a = exc.fields.d.get('args', ())
        return f'{exc.cls.name}({", ".join(str(x)[:80] for x in a)})'
    except Exception:
        return repr(exc)


# ---------------------------------------------------------------------------- discharge
def to_smt2(hyps, goal):
    s = z3.Solver()
    for h in hyps:
        s.add(h)
    s.add(z3.Not(goal))
    return s.to_smt2()


def _solve(job):
    """ladder: z3 default (short) -> z3 qfnra-nlsat -> z3 default (long); verdicts never depend on which rung answered"""
    idx, smt, timeout_ms, seed = job
    t0 = time.time()
    if os.environ.get('VERIF_DUMP_SMT'):
        import hashlib
        os.makedirs(os.environ['VERIF_DUMP_SMT'], exist_ok=True)
        open(os.path.join(os.environ['VERIF_DUMP_SMT'], f'{idx}-{hashlib.md5(smt.encode()).hexdigest()[:8]}.smt2'), 'w').write(smt)
    try:
        ctx = z3.Context()
        base = z3.Solver(ctx=ctx)
        base.from_string(smt)
        asserts = base.assertions()
        r, s, backend, reason = z3.unknown, None, 'z3', None
        # rung 0: products and quotients of non-constant terms as uninterpreted functions.  If the obligation already follows with
        # multiplication left abstract (congruence only), it follows; this keeps proofs that need no nonlinear reasoning away from the
        # nonlinear solver, whose running time on irrelevant hypotheses is what varies from run to run
        try:
            ab = _abstract_products(asserts, ctx)
            if ab is not None:
                s0 = z3.Solver(ctx=ctx)
                s0.set('timeout', min(4000, timeout_ms))
                s0.set('random_seed', seed)
                s0.add(*ab)
                if s0.check() == z3.unsat:
                    return idx, 'unsat', time.time() - t0, None, 'z3-products-abstracted', None
        except z3.Z3Exception:
            pass
        # short attempts first (a loaded machine must not push an easy query into a long wrong-strategy attempt), then the full budgets
        # the last two rungs re-try with other random seeds: a query that is easy most of the time but occasionally wanders off
        # (seen under full machine load) must not turn a proof into "undecided"
        for rung, budget in (('z3', min(5000, timeout_ms)), ('z3-nlsat', timeout_ms), ('z3', timeout_ms),
                             ('z3:seed+1', timeout_ms // 2), ('z3:seed+2', timeout_ms // 2)):
            if rung.startswith('z3') and rung != 'z3-nlsat':
                s = z3.Solver(ctx=ctx)
                s.set('timeout', budget)
                s.set('random_seed', seed + (int(rung.split('+')[1]) * 7919 if '+' in rung else 0))
                s.add(*asserts)
            else:
                try:
                    t = z3.TryFor(z3.Then(z3.Tactic('simplify', ctx), z3.Tactic('purify-arith', ctx), z3.Tactic('qfnra-nlsat', ctx), ctx=ctx), budget, ctx=ctx)
                    s = t.solver()
                    s.add(*asserts)
                except z3.Z3Exception:
                    continue
            try:
                r = s.check()
            except z3.Z3Exception as e:
                r = z3.unknown
                reason = str(e)
            backend = rung
            if r != z3.unknown:
                break
            try:
                reason = s.reason_unknown()
            except Exception:
                pass
        # counterexample-guided trigonometry: a candidate model that gives cos/sin of 0, pi/2, pi or of two opposite angles
        # values the real functions do not have is refuted by adding exactly those (true) instances, then solving again
        rounds = 0
        while r == z3.sat and rounds < 4:
            extra = _trig_refinements(s.model(), asserts, ctx)
            if not extra:
                break
            rounds += 1
            asserts = list(asserts) + extra
            s = z3.Solver(ctx=ctx)
            s.set('timeout', timeout_ms)
            s.set('random_seed', seed)
            s.add(*asserts)
            try:
                r = s.check()
            except z3.Z3Exception as e:
                r, reason = z3.unknown, str(e)
            backend = 'z3+trig-instances'
            if r == z3.unknown:
                try:
                    reason = s.reason_unknown()
                except Exception:
                    pass
        status = str(r)
        model = None
        if r == z3.sat:
            m = s.model()
            # prefer a counterexample with small integers (array extents, box corners): replay builds real arrays of that size
            try:
                ints = [d() for d in m.decls() if d.arity() == 0 and d.range().kind() == z3.Z3_INT_SORT]
                for bound in (12, 200):
                    s2 = z3.Solver(ctx=ctx)
                    s2.set('timeout', 1500)
                    s2.add(*asserts)
                    s2.add(*[z3.And(c >= -bound, c <= bound) for c in ints])
                    if s2.check() == z3.sat:
                        m2 = s2.model()
                        if all(_holds_in(m2, a) for a in asserts):
                            m = m2
                            break
            except z3.Z3Exception:
                pass
            # a counterexample is only believed if the model really satisfies every assertion (guards against incomplete
            # nonlinear + uninterpreted-function combinations); otherwise the obligation is undecided
            try:
                bad = [a for a in asserts if not _holds_in(m, a)]
            except z3.Z3Exception:
                bad = [None]
            if bad:
                return idx, 'unknown', time.time() - t0, None, backend, 'candidate model does not validate (incomplete theory combination)'
            model = {}
            for d in m.decls():
                if d.arity() == 0:
                    v = m[d]
                    model[d.name()] = val_to_py(v)
                else:
                    try:
                        fi = m[d]
                        ents = []
                        for i in range(fi.num_entries()):
                            en = fi.entry(i)
                            ents.append(([val_to_py(en.arg_value(j)) for j in range(en.num_args())], val_to_py(en.value())))
                        model[d.name()] = {'entries': ents, 'else': val_to_py(fi.else_value())}
                    except Exception:
                        pass
        return idx, status, time.time() - t0, model, backend, reason
    except Exception as e:      # noqa
        return idx, 'error', time.time() - t0, None, 'z3', f'{type(e).__name__}: {e}'


def _abstract_products(asserts, ctx):
    """the assertions with every product of two or more non-constant factors, every quotient by a non-constant and every power replaced
    by an application of an uninterpreted function (None when there is nothing to abstract)"""
    R = z3.RealSort(ctx)
    Imul = {}
    cache = {}
    found = [False]

    def uf(name, n):
        key = (name, n)
        if key not in Imul:
            Imul[key] = z3.Function(f'{name}{n}', *([R] * n), R)
        return Imul[key]

    def real(e):
        return z3.ToReal(e) if e.sort().kind() == z3.Z3_INT_SORT else e

    def back(e, like):
        return z3.ToInt(e) if like.sort().kind() == z3.Z3_INT_SORT else e

    def walk(e):
        k = e.get_id()
        if k in cache:
            return cache[k]
        if z3.is_quantifier(e) or not z3.is_app(e):
            cache[k] = e
            return e
        kind = e.decl().kind()
        ch = [walk(c) for c in e.children()]
        out = None
        if kind == z3.Z3_OP_MUL:
            consts = [c for c in ch if z3.is_rational_value(c) or z3.is_int_value(c)]
            rest = [c for c in ch if not (z3.is_rational_value(c) or z3.is_int_value(c))]
            if len(rest) >= 2:
                found[0] = True
                rest = sorted(rest, key=lambda c: c.get_id())
                prod = uf('nlmul', len(rest))(*[real(c) for c in rest])
                for c in consts:
                    prod = real(c) * prod
                out = back(prod, e)
        elif kind == z3.Z3_OP_DIV and not (z3.is_rational_value(ch[1]) or z3.is_int_value(ch[1])):
            found[0] = True
            out = uf('nldiv', 2)(real(ch[0]), real(ch[1]))
        elif kind == z3.Z3_OP_POWER:
            found[0] = True
            out = uf('nlpow', 2)(real(ch[0]), real(ch[1]))
        elif kind in (z3.Z3_OP_IDIV, z3.Z3_OP_MOD, z3.Z3_OP_REM) and not z3.is_int_value(ch[1]):
            found[0] = True
            out = z3.ToInt(uf('nl' + e.decl().name().replace('%', 'mod'), 2)(real(ch[0]), real(ch[1])))
        if out is None:
            out = e.decl()(*ch) if ch else e
        cache[k] = out
        return out
    res = [walk(a) for a in asserts]
    return res if found[0] else None


def _trig_refinements(m, asserts, ctx):
    """true instances of trigonometric facts that the model m violates (empty list: m is consistent with them)"""
    terms = {}
    cosd = sind = pi = None
    seen = set()
    stack = list(asserts)
    while stack:
        e = stack.pop()
        if e.get_id() in seen:
            continue
        seen.add(e.get_id())
        if z3.is_app(e):
            nm = e.decl().name()
            if e.num_args() == 1 and nm in ('cosf', 'sinf'):
                terms[e.arg(0).get_id()] = e.arg(0)
                if nm == 'cosf':
                    cosd = e.decl()
                else:
                    sind = e.decl()
            elif e.num_args() == 0 and nm == 'pi' and e.sort().kind() == z3.Z3_REAL_SORT:
                pi = e
            stack.extend(e.children())
        elif z3.is_quantifier(e):
            stack.append(e.body())
    if not terms:
        return []
    if cosd is None:
        cosd = z3.Function('cosf', z3.RealSort(ctx), z3.RealSort(ctx))
    if sind is None:
        sind = z3.Function('sinf', z3.RealSort(ctx), z3.RealSort(ctx))
    out = []

    def is_zero(t):
        v = m.eval(t, model_completion=True)
        return z3.is_rational_value(v) and v.numerator_as_long() == 0

    def differs(a, b):
        return not z3.is_true(z3.simplify(m.eval(a == b, model_completion=True)))
    ts = list(terms.values())
    one, zero = z3.RealVal(1, ctx), z3.RealVal(0, ctx)
    for t in ts:
        if z3.is_rational_value(t):
            continue
        specials = [(t, one, zero)]
        if pi is not None:
            specials += [(t - pi / 2, zero, one), (t - pi, -one, zero), (t + pi / 2, zero, -one), (t + pi, -one, zero)]
        for (d, c, sn) in specials:
            if is_zero(d) and (differs(cosd(t), c) or differs(sind(t), sn)):
                out.append(z3.Implies(d == 0, z3.And(cosd(t) == c, sind(t) == sn)))
    for i in range(len(ts)):
        for j in range(i + 1, len(ts)):
            a, b = ts[i], ts[j]
            if is_zero(a + b) and (differs(cosd(a), cosd(b)) or differs(sind(a), -sind(b))):
                out.append(z3.Implies(a + b == 0, z3.And(cosd(a) == cosd(b), sind(a) == -sind(b))))
    return out[:12]


def _holds_in(m, a):
    """does the model satisfy the assertion?  z3's evaluator leaves to_int of an irrational algebraic number unevaluated; those are
    floored from a 40-digit rational enclosure (refused when the number is that close to an integer)"""
    v = m.eval(a, model_completion=True)
    if z3.is_true(v):
        return True
    if z3.is_false(v):
        return False
    subs = []
    seen = set()

    def walk(e):
        if e.get_id() in seen:
            return
        seen.add(e.get_id())
        if z3.is_app(e) and e.decl().kind() == z3.Z3_OP_TO_INT:
            c = z3.simplify(e.arg(0))
            if z3.is_algebraic_value(c):
                lo, hi = c.approx(40), c.approx(40)
                q = Fraction(lo.numerator_as_long(), lo.denominator_as_long())
                fl = q.numerator // q.denominator
                if min(q - fl, fl + 1 - q) > Fraction(1, 10 ** 30):
                    subs.append((e, z3.IntVal(fl, ctx=e.ctx)))
                return
        for ch in e.children():
            walk(ch)
    walk(v)
    if not subs:
        return False
    return z3.is_true(z3.simplify(z3.substitute(v, *subs)))


def val_to_py(v):
    try:
        if z3.is_int_value(v):
            return v.as_long()
        if z3.is_rational_value(v):
            return {'num': str(v.numerator_as_long()), 'den': str(v.denominator_as_long())}
        if z3.is_algebraic_value(v):
            a = v.approx(20)
            return {'num': str(a.numerator_as_long()), 'den': str(a.denominator_as_long()), 'approx': True}
        if z3.is_true(v):
            return True
        if z3.is_false(v):
            return False
    except Exception:
        pass
    return {'repr': str(v)[:200]}


def cvc5_check(smt, timeout_s):
    import subprocess
    import tempfile
    with tempfile.NamedTemporaryFile('w', suffix='.smt2', delete=False) as fh:
        fh.write('(set-logic ALL)\n' + smt + '\n')
        path = fh.name
    try:
        p = subprocess.run(['/usr/bin/cvc5', '--nl-cov', f'--tlimit={int(timeout_s * 1000)}', path], capture_output=True, text=True, timeout=timeout_s + 5)
        out = p.stdout.strip().split('\n')[0] if p.stdout.strip() else 'unknown'
        return out if out in ('sat', 'unsat') else 'unknown'
    except Exception:
        return 'unknown'
    finally:
        os.unlink(path)


def discharge(obls, timeout_ms=20000, seed=0, procs=None, cross_check=False):
    jobs = []
    for i, o in enumerate(obls):
        if o.goal is None:
            continue
        g = z3.simplify(o.goal)
        if z3.is_true(g):
            o.status, o.backend, o.time = 'valid', 'trivial', 0.0
            continue
        o.smt = to_smt2(o.hyps, o.goal)
        jobs.append((i, o.smt, timeout_ms, seed))
    procs = procs or min(16, max(1, len(jobs)))
    if jobs:
        with mp.get_context('fork').Pool(procs) as pool:
            for idx, status, t, model, backend, reason in pool.imap_unordered(_solve, jobs):
                o = obls[idx]
                o.time = t
                o.backend = backend
                if status == 'unsat':
                    o.status = 'valid'
                elif status == 'sat':
                    o.status = 'violated'
                    o.model = model
                    if o.kind == 'soft':
                        o.status = 'undecided'
                        o.reason = 'outside the modelled range: ' + o.name
                elif status == 'error':
                    o.status = 'error'
                    o.reason = reason
                else:
                    o.status = 'undecided'
                    o.reason = f'solver: {reason}'
    # z3's unknowns go to cvc5
    for o in obls:
        if o.status == 'undecided' and getattr(o, 'smt', None):
            r = cvc5_check(o.smt, 40)
            if r == 'unsat':
                o.status, o.backend = 'valid', 'cvc5'
            elif r == 'sat':
                o.status, o.backend = 'violated', 'cvc5'
    if cross_check:
        for o in obls:
            if o.status == 'valid' and o.backend not in ('trivial', 'cvc5') and getattr(o, 'smt', None):
                r = cvc5_check(o.smt, 30)
                o.cross = r
    return obls


def discharge_local(obls, timeout_ms=20000, seed=0):
    """discharge in this process (used inside pool workers: one worker per contract case)"""
    for i, o in enumerate(obls):
        if o.goal is None:
            continue
        g = z3.simplify(o.goal)
        if z3.is_true(g):
            o.status, o.backend, o.time = 'valid', 'trivial', 0.0
            continue
        o.smt = to_smt2(o.hyps, o.goal)
        if os.environ.get('VERIF_DUMP_SMT'):
            import re as _re
            os.makedirs(os.environ['VERIF_DUMP_SMT'], exist_ok=True)
            open(os.path.join(os.environ['VERIF_DUMP_SMT'], _re.sub(r'[^A-Za-z0-9_.-]+', '_', f'{o.contract}-{o.case}-{o.name}-{o.path}')[:150] + '.smt2'), 'w').write(o.smt)
        idx, status, t, model, backend, reason = _solve((i, o.smt, timeout_ms, seed))
        if status == 'error':
            # an exception inside the solver call (seen once under heavy machine load, not reproducible): ask once more before
            # reporting a checker error
            idx, status, t2, model, backend, reason2 = _solve((i, o.smt, timeout_ms, seed + 7))
            t += t2
            reason = reason if status != 'error' else f'{reason}; again: {reason2}'
        o.time, o.backend = t, backend
        if status == 'unsat':
            o.status = 'valid'
        elif status == 'sat':
            o.status, o.model = 'violated', model
            if o.kind == 'soft':
                o.status, o.reason = 'undecided', 'outside the modelled range: ' + o.name
        elif status == 'error':
            o.status, o.reason = 'error', reason
        else:
            o.status, o.reason = 'undecided', f'solver: {reason}'
            r = cvc5_check(o.smt, 40)
            if r == 'unsat':
                o.status, o.backend = 'valid', 'cvc5'
            elif r == 'sat':
                o.status, o.backend = 'violated', 'cvc5'
    return obls
