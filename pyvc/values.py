"""Value universe of the pyvc symbolic executor.

Concrete Python values (None, bool, int, float, str, tuple, frozenset) are used as they are.
Everything mutable or symbolic is one of the classes below.
"""
import itertools
import math
from fractions import Fraction

import z3

_ids = itertools.count(1)


class Unsupported(Exception):
    """construct outside the modelled subset: the path (and every obligation on it) is undecided"""


class Sym:
    """a symbolic scalar: z3 expression + python kind ('int', 'real', 'bool')"""
    __slots__ = ('e', 'kind', 'np')

    def __init__(self, e, kind, np=False):
        self.e = e
        self.kind = kind
        self.np = np            # True when the value is a numpy scalar (np.bool_/np.float64) rather than a Python one

    def __repr__(self):
        return f'Sym[{self.kind}]({self.e})'

    def __bool__(self):
        raise Unsupported('host truth value of a symbolic value (engine bug)')

    __hash__ = object.__hash__


def is_sym(v):
    return isinstance(v, Sym)


def is_num(v):
    return (isinstance(v, (int, float, Fraction)) and not isinstance(v, bool)) or (
        isinstance(v, Sym) and v.kind in ('int', 'real'))


def is_numlike(v):
    return isinstance(v, (int, float, Fraction, bool)) or (isinstance(v, Sym))


def kind_of(v):
    if isinstance(v, Sym):
        return v.kind
    if isinstance(v, bool):
        return 'bool'
    if isinstance(v, int):
        return 'int'
    if isinstance(v, (float, Fraction)):
        return 'real'
    raise Unsupported(f'kind_of {type(v).__name__}')


def zreal(v):
    """z3 Real expression of a numeric value"""
    if isinstance(v, Sym):
        if v.kind == 'real':
            return v.e
        if v.kind == 'int':
            return z3.ToReal(v.e)
        if v.kind == 'bool':
            return z3.If(v.e, z3.RealVal(1), z3.RealVal(0))
    if isinstance(v, bool):
        return z3.RealVal(1 if v else 0)
    if isinstance(v, int):
        return z3.RealVal(v)
    if isinstance(v, Fraction):
        return z3.RealVal(str(v))
    if isinstance(v, float):
        if math.isnan(v) or math.isinf(v):
            raise Unsupported('non-finite float in symbolic arithmetic')
        return z3.RealVal(str(Fraction(v)))
    raise Unsupported(f'zreal {type(v).__name__}')


def zint(v):
    if isinstance(v, Sym):
        if v.kind == 'int':
            return v.e
        if v.kind == 'bool':
            return z3.If(v.e, z3.IntVal(1), z3.IntVal(0))
        raise Unsupported('zint of real')
    if isinstance(v, bool):
        return z3.IntVal(1 if v else 0)
    if isinstance(v, int):
        return z3.IntVal(v)
    raise Unsupported(f'zint {type(v).__name__}')


def zbool(v):
    if isinstance(v, Sym):
        if v.kind == 'bool':
            return v.e
        if v.kind == 'int':
            return v.e != 0
        if v.kind == 'real':
            return v.e != 0
    if isinstance(v, bool):
        return z3.BoolVal(v)
    if isinstance(v, (int, float)):
        return z3.BoolVal(bool(v))
    raise Unsupported(f'zbool {type(v).__name__}')


def simp(e):
    return z3.simplify(e)


def mk(e, kind, np=False):
    """wrap, folding to a concrete Python value when z3 simplifies to a literal"""
    s = z3.simplify(e)
    if kind == 'bool':
        if z3.is_true(s):
            return True
        if z3.is_false(s):
            return False
    elif kind == 'int':
        if z3.is_int_value(s):
            return s.as_long()
    elif kind == 'real':
        if z3.is_rational_value(s):
            f = Fraction(s.numerator_as_long(), s.denominator_as_long())
            if f.denominator == 1 and False:
                return float(f)
            return float(f) if Fraction(float(f)) == f else f
    return Sym(s, kind, np)


class VObj:
    """instance of an interpreted class"""

    def __init__(self, cls, old=False):
        self.cls = cls
        self.fields = VDict(old=old)
        self.fields.owner = self
        self.dictdata = None      # for subclasses of dict
        self.listdata = None      # for subclasses of list
        self.old = old
        self.static = False
        self.id = next(_ids)
        self.label = None

    def __repr__(self):
        return f'<{self.cls.name}#{self.id}>'


class VDict:
    def __init__(self, items=None, old=False):
        self.d = dict(items or {})   # concrete hashable key -> value (insertion ordered)
        self.old = old
        self.static = False
        self.id = next(_ids)
        self.label = None
        self.maybe = {}             # key -> (present Sym bool, value): lazily forked on first access
        self.owner = None           # the VObj whose attribute dict this is

    def __repr__(self):
        return f'VDict({self.d})'


class VList:
    def __init__(self, items=None, old=False):
        self.l = list(items or [])
        self.old = old
        self.static = False
        self.id = next(_ids)
        self.label = None

    def __repr__(self):
        return f'VList({self.l})'


class VSet:
    def __init__(self, items=None):
        self.s = list(dict.fromkeys(items or []))
        self.old = False
        self.static = False
        self.id = next(_ids)

    def __repr__(self):
        return f'VSet({self.s})'


class VClass:
    def __init__(self, name, bases, ns, module=None, builtin=False):
        self.name = name
        self.bases = bases
        self.ns = ns              # plain dict name -> value
        self.module = module
        self.builtin = builtin
        self.mro = self._c3()
        self.id = next(_ids)
        self.static = True
        self.old = True

    def _c3(self):
        seqs = [list(b.mro) for b in self.bases] + [list(self.bases)]
        res = [self]
        while True:
            seqs = [s for s in seqs if s]
            if not seqs:
                return res
            for s in seqs:
                cand = s[0]
                if not any(cand in t[1:] for t in seqs):
                    break
            else:
                raise Unsupported('inconsistent MRO')
            res.append(cand)
            for s in seqs:
                if s[0] is cand:
                    del s[0]

    def lookup(self, name):
        for c in self.mro:
            if name in c.ns:
                return c.ns[name], c
        return MISSING, None

    def issub(self, other):
        return other in self.mro

    def __repr__(self):
        return f'<class {self.name}>'


class _Missing:
    def __repr__(self):
        return 'MISSING'


MISSING = _Missing()


class VFunc:
    def __init__(self, node, globs, closure=None, defcls=None, name=None, module=None):
        self.node = node          # ast.FunctionDef or ast.Lambda
        self.globs = globs        # module namespace dict
        self.closure = closure    # enclosing Frame or None
        self.defcls = defcls
        self.name = name or getattr(node, 'name', '<lambda>')
        self.module = module
        self.defaults = None      # filled by interpreter at definition time
        self.kwdefaults = None
        self.qualname = self.name
        self.static = True
        self.old = True
        self.attrs = {}

    def __repr__(self):
        return f'<function {self.qualname}>'


class BoundMethod:
    def __init__(self, self_, func):
        self.self_ = self_
        self.func = func

    def __repr__(self):
        return f'<bound {self.func} of {self.self_}>'


class Builtin:
    """host-implemented callable: fn(interp, *args, **kwargs)"""

    def __init__(self, name, fn, pure=True):
        self.name = name
        self.fn = fn
        self.pure = pure

    def __repr__(self):
        return f'<builtin {self.name}>'


class VProperty:
    def __init__(self, fget, fset=None, fdel=None):
        self.fget, self.fset, self.fdel = fget, fset, fdel


class VClassMethod:
    def __init__(self, func):
        self.func = func


class VStaticMethod:
    def __init__(self, func):
        self.func = func


class ModuleNS:
    def __init__(self, name, ns=None):
        self.name = name
        self.ns = ns if ns is not None else {}

    def __repr__(self):
        return f'<module {self.name}>'


class VSlice:
    def __init__(self, start, stop, step=None):
        self.start, self.stop, self.step = start, stop, step

    def __repr__(self):
        return f'slice({self.start},{self.stop},{self.step})'


class Arr:
    """numpy array abstraction: shape + point-wise element function.

    shape: tuple of dims (int | Sym int)  or a ShapeTag (opaque shape of unknown rank, indexed by one abstract index)
    fn(idx) -> element value, idx a tuple of ints/Sym ints (len = rank) or (k,) for opaque shapes
    """

    def __init__(self, shape, fn, dtype='float', old=False, label=None):
        self.shape = shape
        self.fn = fn
        self.dtype = dtype
        self.old = old
        self.static = False
        self.id = next(_ids)
        self.label = label
        self.base = None          # view of another Arr (writes through a view reach the base)
        self.cid = self.id        # content identity: preserved by copies, refreshed by writes
        self.unit = None

    def __repr__(self):
        return f'Arr(shape={self.shape}, dtype={self.dtype})'


class ShapeTag:
    """opaque array shape; rank>=0 unknown unless stated"""

    def __init__(self, name, rank=None, scalar_like=False):
        self.name = name
        self.rank = rank

    def __repr__(self):
        return f'Shape<{self.name}>'

    def __eq__(self, other):
        return isinstance(other, ShapeTag) and other.name == self.name

    def __hash__(self):
        return hash(self.name)


class Rope:
    """symbolic text: a concatenation of concrete strings and Fmt pieces"""

    def __init__(self, parts):
        out = []
        for p in parts:
            if isinstance(p, Rope):
                ps = p.parts
            else:
                ps = [p]
            for q in ps:
                if isinstance(q, str):
                    if not q:
                        continue
                    if out and isinstance(out[-1], str):
                        out[-1] += q
                        continue
                out.append(q)
        self.parts = out

    def __repr__(self):
        return 'Rope(' + ' + '.join(repr(p) for p in self.parts) + ')'


class Fmt:
    """a number rendered in fixed-point: text of value with `prec` decimals (digits, '.', '-')"""

    def __init__(self, value, prec, kind='f'):
        self.value = value
        self.prec = prec
        self.kind = kind        # 'f' fixed, 'opaque' unknown text, 'str' str() of value
        self.id = next(_ids)
        self.dots = None        # 'exact' numerals: number of decimal points in the text when it is known (0 or 1)

    def ndots(self):
        """how many '.' the text of this piece contains, None if unknown"""
        if self.kind == 'f' and isinstance(self.prec, int):
            return 1 if self.prec > 0 else 0
        if self.kind == 'exact':
            return self.dots
        return None

    def __repr__(self):
        return f'Fmt({self.value}:{self.kind}{self.prec})'
