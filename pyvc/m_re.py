"""re model: concrete pattern + concrete text runs the real `re` (A-PY); anything symbolic is outside the subset"""
import re as _re

from .values import Builtin, ModuleNS, Rope, Sym, Unsupported, VList
from .builtins2 import HostObj


def _conc(*xs):
    for x in xs:
        if isinstance(x, (Rope, Sym)):
            raise Unsupported('regular expression on symbolic text')


class Match(HostObj):
    def __init__(self, m):
        self.m = m

    def a_group(self, I, *a):
        return self.m.group(*a)

    def a_groups(self, I, *a):
        return tuple(self.m.groups(*a))

    def a_start(self, I, *a):
        return self.m.start(*a)

    def a_end(self, I, *a):
        return self.m.end(*a)

    def a_span(self, I, *a):
        return tuple(self.m.span(*a))

    def a_groupdict(self, I):
        from .values import VDict
        return VDict(self.m.groupdict())


def wrapm(m):
    return None if m is None else Match(m)


class Pattern(HostObj):
    def __init__(self, p):
        self.p = p

    def a_search(self, I, s, *a):
        if isinstance(s, Rope) and not a:
            return prefix_class_search(I, self.p.pattern, s)
        _conc(s)
        return wrapm(self.p.search(s, *a))

    def a_match(self, I, s, *a):
        _conc(s)
        return wrapm(self.p.match(s, *a))

    def a_fullmatch(self, I, s, *a):
        _conc(s)
        return wrapm(self.p.fullmatch(s, *a))

    def a_findall(self, I, s):
        _conc(s)
        return VList([tuple(x) if isinstance(x, tuple) else x for x in self.p.findall(s)])

    def a_finditer(self, I, s):
        _conc(s)
        return VList([Match(m) for m in self.p.finditer(s)])

    def a_split(self, I, s, *a):
        if isinstance(s, Rope):
            return rope_split(I, self.p.pattern, s)
        _conc(s)
        return VList(self.p.split(s, *a))

    def a_sub(self, I, repl, s, *a):
        _conc(s, repl)
        return self.p.sub(repl, s, *a)


class RopeMatch(HostObj):
    def __init__(self, groups):
        self.groups = groups

    def a_group(self, I, k=0):
        return self.groups[k]

    def a_groups(self, I):
        return tuple(self.groups[1:])


def _rope_or_str(parts):
    parts = [p for p in parts if p != '']
    if all(isinstance(p, str) for p in parts):
        return ''.join(parts)
    return Rope(parts)


def prefix_class_search(I, pattern, rope):
    """search() of a pattern of the shape `(<character class>*)(.*)` in a symbolic text: the pattern matches at position 0 (both
    groups may be empty); group 1 is the longest prefix made of characters of the class, group 2 the rest of the line.  A numeral
    piece belongs to the prefix iff every character a numeral can contain (digits, '.', '-') is in the class."""
    import sre_parse
    from .builtins_ import FMT_ALPHABET
    try:
        parsed = list(sre_parse.parse(pattern))
    except Exception:
        raise Unsupported('regular expression on symbolic text')
    ok = len(parsed) == 2 and all(str(op) == 'SUBPATTERN' for op, av in parsed)
    if ok:
        g1, g2 = list(parsed[0][1][3]), list(parsed[1][1][3])
        ok = len(g1) == 1 and str(g1[0][0]) == 'MAX_REPEAT' and g1[0][1][0] == 0 and str(g1[0][1][1]) == 'MAXREPEAT' \
            and len(g1[0][1][2]) == 1 and str(g1[0][1][2][0][0]) == 'IN'
        ok = ok and len(g2) == 1 and str(g2[0][0]) == 'MAX_REPEAT' and g2[0][1][0] == 0 and len(g2[0][1][2]) == 1 \
            and str(g2[0][1][2][0][0]) == 'ANY'
    if not ok:
        raise Unsupported('regular expression on symbolic text')
    cls = set()
    for op, av in g1[0][1][2][0][1]:
        if str(op) == 'LITERAL':
            cls.add(chr(av))
        elif str(op) == 'RANGE':
            cls.update(chr(c) for c in range(av[0], av[1] + 1))
        else:
            raise Unsupported('regular expression on symbolic text')
    if any(not isinstance(p, str) and p.kind not in ('f', 'exact') for p in rope.parts):
        raise Unsupported('regular expression on opaque text')
    if not FMT_ALPHABET <= cls and FMT_ALPHABET & cls:
        raise Unsupported('character class cuts through the numeral alphabet')
    head, rest = [], None
    parts = list(rope.parts)
    for k, p in enumerate(parts):
        if isinstance(p, str):
            n = 0
            while n < len(p) and p[n] in cls:
                n += 1
            head.append(p[:n])
            if n < len(p):
                rest = [p[n:]] + parts[k + 1:]
                break
        elif FMT_ALPHABET <= cls:
            head.append(p)
        else:
            rest = parts[k:]
            break
    rest = rest or []
    if any(isinstance(p, str) and '\n' in p for p in rest):
        raise Unsupported('regular expression over several lines of symbolic text')
    return RopeMatch([rope, _rope_or_str(head), _rope_or_str(rest)])


def rope_split(I, pattern, rope):
    """re.split of a symbolic text on a pattern that is a set of single separator characters, none of which can occur in a
    fixed-point rendering (digits, '.', '-'): the split happens inside the concrete pieces only"""
    import sre_parse
    from .builtins_ import FMT_ALPHABET
    seps = set()
    try:
        parsed = sre_parse.parse(pattern)
    except Exception:
        raise Unsupported('regular expression on symbolic text')

    def chars(items):
        for op, av in items:
            name = str(op)
            if name == 'LITERAL':
                seps.add(chr(av))
            elif name == 'BRANCH':
                for alt in av[1]:
                    chars(alt)
            elif name == 'IN':
                for op2, av2 in av:
                    if str(op2) == 'LITERAL':
                        seps.add(chr(av2))
                    elif str(op2) == 'CATEGORY' and str(av2) == 'CATEGORY_SPACE':
                        seps.update(' \t\n\r\f\v')
                    else:
                        raise Unsupported('regular expression on symbolic text')
            else:
                raise Unsupported('regular expression on symbolic text')
    chars(parsed)
    if any(c in FMT_ALPHABET for c in seps) or any(not isinstance(p, str) and p.kind not in ('f', 'exact') for p in rope.parts):
        raise Unsupported('regular expression on symbolic text')
    out = [[]]
    for p in rope.parts:
        if isinstance(p, str):
            cur = ''
            for ch in p:
                if ch in seps:
                    if cur:
                        out[-1].append(cur)
                    cur = ''
                    out.append([])
                else:
                    cur += ch
            if cur:
                out[-1].append(cur)
        else:
            out[-1].append(p)
    res = []
    for o in out:
        r = Rope(o)
        if not r.parts:
            res.append('')
        elif all(isinstance(x, str) for x in r.parts):
            res.append(''.join(r.parts))
        else:
            res.append(r)
    return VList(res)


def make(I):
    def comp(I, pat, flags=0):
        _conc(pat)
        return Pattern(_re.compile(pat, flags))

    def via(name):
        def f(I, pat, *a, **k):
            p = comp(I, pat)
            return getattr(p, 'a_' + name)(I, *a, **k)
        return Builtin('re.' + name, f)
    ns = dict(compile=Builtin('re.compile', comp), IGNORECASE=_re.IGNORECASE, I=_re.I, escape=Builtin('re.escape', lambda I, s: _re.escape(s)))
    for n in ('search', 'match', 'fullmatch', 'findall', 'finditer', 'split', 'sub'):
        ns[n] = via(n)
    return ModuleNS('re', ns)
