"""re model: concrete pattern + concrete text runs the real `re` (A-PY); anything symbolic is outside the subset"""
import re as _re

from .values import Builtin, ModuleNS, Rope, Sym, Unsupported, VList
from .builtins2 import HostObj


def _conc(*xs):
    for x in xs:
        if isinstance(x, (Rope, Sym)):
            raise Unsupported('regular expression on symbolic text')


class Match(HostObj):
    def __init__(self, m):
        self.m = m

    def a_group(self, I, *a):
        return self.m.group(*a)

    def a_groups(self, I, *a):
        return tuple(self.m.groups(*a))

    def a_start(self, I, *a):
        return self.m.start(*a)

    def a_end(self, I, *a):
        return self.m.end(*a)

    def a_span(self, I, *a):
        return tuple(self.m.span(*a))

    def a_groupdict(self, I):
        from .values import VDict
        return VDict(self.m.groupdict())


def wrapm(m):
    return None if m is None else Match(m)


class Pattern(HostObj):
    def __init__(self, p):
        self.p = p

    def a_search(self, I, s, *a):
        _conc(s)
        return wrapm(self.p.search(s, *a))

    def a_match(self, I, s, *a):
        _conc(s)
        return wrapm(self.p.match(s, *a))

    def a_fullmatch(self, I, s, *a):
        _conc(s)
        return wrapm(self.p.fullmatch(s, *a))

    def a_findall(self, I, s):
        _conc(s)
        return VList([tuple(x) if isinstance(x, tuple) else x for x in self.p.findall(s)])

    def a_finditer(self, I, s):
        _conc(s)
        return VList([Match(m) for m in self.p.finditer(s)])

    def a_split(self, I, s, *a):
        if isinstance(s, Rope):
            return rope_split(I, self.p.pattern, s)
        _conc(s)
        return VList(self.p.split(s, *a))

    def a_sub(self, I, repl, s, *a):
        _conc(s, repl)
        return self.p.sub(repl, s, *a)


def rope_split(I, pattern, rope):
    """re.split of a symbolic text on a pattern that is a set of single separator characters, none of which can occur in a
    fixed-point rendering (digits, '.', '-'): the split happens inside the concrete pieces only"""
    import sre_parse
    from .builtins_ import FMT_ALPHABET
    seps = set()
    try:
        parsed = sre_parse.parse(pattern)
    except Exception:
        raise Unsupported('regular expression on symbolic text')

    def chars(items):
        for op, av in items:
            name = str(op)
            if name == 'LITERAL':
                seps.add(chr(av))
            elif name == 'BRANCH':
                for alt in av[1]:
                    chars(alt)
            elif name == 'IN':
                for op2, av2 in av:
                    if str(op2) == 'LITERAL':
                        seps.add(chr(av2))
                    elif str(op2) == 'CATEGORY' and str(av2) == 'CATEGORY_SPACE':
                        seps.update(' \t\n\r\f\v')
                    else:
                        raise Unsupported('regular expression on symbolic text')
            else:
                raise Unsupported('regular expression on symbolic text')
    chars(parsed)
    if any(c in FMT_ALPHABET for c in seps) or any(not isinstance(p, str) and p.kind not in ('f', 'exact') for p in rope.parts):
        raise Unsupported('regular expression on symbolic text')
    out = [[]]
    for p in rope.parts:
        if isinstance(p, str):
            cur = ''
            for ch in p:
                if ch in seps:
                    if cur:
                        out[-1].append(cur)
                    cur = ''
                    out.append([])
                else:
                    cur += ch
            if cur:
                out[-1].append(cur)
        else:
            out[-1].append(p)
    res = []
    for o in out:
        r = Rope(o)
        if not r.parts:
            res.append('')
        elif all(isinstance(x, str) for x in r.parts):
            res.append(''.join(r.parts))
        else:
            res.append(r)
    return VList(res)


def make(I):
    def comp(I, pat, flags=0):
        _conc(pat)
        return Pattern(_re.compile(pat, flags))

    def via(name):
        def f(I, pat, *a, **k):
            p = comp(I, pat)
            return getattr(p, 'a_' + name)(I, *a, **k)
        return Builtin('re.' + name, f)
    ns = dict(compile=Builtin('re.compile', comp), IGNORECASE=_re.IGNORECASE, I=_re.I, escape=Builtin('re.escape', lambda I, s: _re.escape(s)))
    for n in ('search', 'match', 'fullmatch', 'findall', 'finditer', 'split', 'sub'):
        ns[n] = via(n)
    return ModuleNS('re', ns)
