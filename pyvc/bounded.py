"""bounded stand-ins: run-time contract checks of the real code over an enumerated input space with a stated bound.
They run under /venv/bin/python (real numpy/astropy), are labelled `bounded` in the evidence and are never counted as proved."""
import json
import os
import subprocess
import sys
import tempfile

HERE = os.path.dirname(os.path.abspath(__file__))
VERIF = os.path.dirname(HERE)


def run(name, prop, tier, seed, repo):
    script = os.path.join(VERIF, 'bounded', name + '.py')
    OUT = os.environ.get('VERIF_OUT', VERIF)
    os.makedirs(os.path.join(OUT, 'replays'), exist_ok=True)
    out = os.path.join(OUT, 'replays', f'{prop}-bounded-{name}.json')
    env = dict(os.environ, VERIF_REPO=repo, MPLBACKEND='Agg', VERIF_SEED=str(seed), VERIF_TIER=tier)
    env.pop('PYTHONPATH', None)
    try:
        p = subprocess.run(['/venv/bin/python', script, prop, tier, str(seed), out], capture_output=True, text=True,
                           timeout=900 if tier == 'quick' else 7200, env=env)
    except subprocess.TimeoutExpired:
        return {'summary': {'name': name, 'error': 'timeout'}, 'violations': [], 'error': 'bounded runner timed out'}
    try:
        res = json.load(open(out))
    except Exception:
        return {'summary': {'name': name, 'error': (p.stdout + p.stderr)[-1500:]}, 'violations': [],
                'error': 'bounded runner failed: ' + (p.stdout + p.stderr)[-800:]}
    viol = []
    for i, v in enumerate(res.get('violations', [])[:5]):
        rp = os.path.join(OUT, 'replays', f'{prop}-bounded-{name}-{i}.json')
        json.dump(dict(v, runner=name, property=prop, tier=tier, seed=seed, replay_cmd=f'/venv/bin/python bounded/{name}.py --replay {os.path.relpath(rp, OUT)}'),
                  open(rp, 'w'), indent=1, default=repr)
        viol.append({'replay': os.path.relpath(rp, OUT), 'what': v.get('what')})
    summary = {k: res.get(k) for k in ('name', 'bound', 'rule', 'evaluations', 'distinct_nontrivial', 'samples', 'known', 'wall_s')}
    return {'summary': summary, 'violations': viol, 'known': res.get('known', [])}
