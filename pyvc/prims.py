"""`vprim`: primitives available to interpreted model code (externals/) and to contracts/specs in symbolic mode"""
import z3

from .values import Arr, Builtin, ModuleNS, ShapeTag, Sym, Unsupported, VDict, VList, VObj, mk, zbool, zint, zreal, Rope, Fmt


def make(I):
    from . import builtins_ as B
    from . import m_numpy as N

    def F(name, fn):
        return Builtin('vprim.' + name, fn)

    def fresh_real(I, name='r'):
        return I.ctx.fresh(name, 'real')

    def fresh_int(I, name='i'):
        return I.ctx.fresh(name, 'int')

    def fresh_bool(I, name='b'):
        return I.ctx.fresh(name, 'bool')

    def fact(I, c):
        if c is True:
            return
        I.ctx.fact(zbool(c))

    def assume(I, c):
        if c is True:
            return
        if c is False:
            from .interp import Infeasible
            raise Infeasible()
        I.ctx.assume(zbool(c))

    def implies(I, a, b):
        if a is False or b is True:
            return True
        if isinstance(a, Sym) or isinstance(b, Sym):
            return mk(z3.Implies(zbool(a), zbool(b)), 'bool')
        return (not a) or b

    def ite(I, c, a, b):
        return B.ite(I, c, a, b)

    def oblige(I, name, c):
        I.ctx.oblige(name, zbool(c))

    def event(I, kind, **kw):
        I.ctx.event(kind, **kw)

    def is_symbolic(I, v):
        return isinstance(v, Sym)

    def unsupported(I, msg='unsupported'):
        raise Unsupported(msg)

    def uf_real(I, name, *args):
        """application of an uninterpreted real-valued function (assumed external behaviour)"""
        zs = [zreal(a) for a in args]
        f = z3.Function(name, *([z3.RealSort()] * len(zs)), z3.RealSort())
        return mk(f(*zs), 'real')

    def uf_bool(I, name, *args):
        zs = [zreal(a) for a in args]
        f = z3.Function(name, *([z3.RealSort()] * len(zs)), z3.BoolSort())
        return mk(f(*zs), 'bool')

    def arr_from_fn(I, shape, fn, dtype='float'):
        shape = tuple(shape) if not isinstance(shape, ShapeTag) else shape
        return Arr(shape, lambda idx: I.call(fn, list(idx), {}), dtype)

    def arr_at(I, a, *idx):
        if isinstance(a, Arr):
            if a.shape == ():
                return a.fn(())
            return a.fn(tuple(idx))
        return a

    def is_array(I, v):
        return isinstance(v, Arr)

    def rope_fmt(I, value, prec):
        return Rope([Fmt(value, prec)])

    def ghost(I):
        g = I.ctx.ghost.get('$dict')
        if g is None:
            g = I.ctx.ghost['$dict'] = VDict()
        return g

    def shape_of(I, v):
        if isinstance(v, Arr):
            return v.shape if isinstance(v.shape, ShapeTag) else tuple(v.shape)
        return ()

    def fmt_pieces(I, text):
        """the pieces of a symbolic text: list of str | ('num', value, prec)"""
        parts = [text] if isinstance(text, str) else text.parts
        return VList([p if isinstance(p, str) else ('num', p.value, p.prec, p.kind) for p in parts])

    ns = dict(fresh_real=F('fresh_real', fresh_real), fresh_int=F('fresh_int', fresh_int), fresh_bool=F('fresh_bool', fresh_bool),
              fact=F('fact', fact), assume=F('assume', assume), implies=F('implies', implies), ite=F('ite', ite),
              oblige=F('oblige', oblige), event=F('event', event), is_symbolic=F('is_symbolic', is_symbolic),
              unsupported=F('unsupported', unsupported), uf_real=F('uf_real', uf_real), uf_bool=F('uf_bool', uf_bool),
              arr_from_fn=F('arr_from_fn', arr_from_fn), arr_at=F('arr_at', arr_at), is_array=F('is_array', is_array),
              cos=F('cos', N.np_cos), sin=F('sin', N.np_sin), sqrt=F('sqrt', lambda I, x: B.sqrt_(I, x)), PI=N.PI,
              deepcopy=F('deepcopy', lambda I, v: I.ext_modules and __import__('pyvc.stdlib_models', fromlist=['x']).deepcopy(I, v)),
              rope_fmt=F('rope_fmt', rope_fmt), ghost=F('ghost', ghost), shape_of=F('shape_of', shape_of),
              fmt_pieces=F('fmt_pieces', fmt_pieces), SYMBOLIC=True)
    return ModuleNS('vprim', ns)
