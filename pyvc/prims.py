"""`vprim`: primitives available to interpreted model code (externals/) and to contracts/specs in symbolic mode"""
import z3

from .values import Arr, Builtin, ModuleNS, ShapeTag, Sym, Unsupported, VDict, VList, VObj, mk, zbool, zint, zreal, Rope, Fmt


def make(I):
    from . import builtins_ as B
    from . import m_numpy as N

    def F(name, fn):
        return Builtin('vprim.' + name, fn)

    def fresh_real(I, name='r'):
        return I.ctx.fresh(name, 'real')

    def fresh_int(I, name='i'):
        return I.ctx.fresh(name, 'int')

    def fresh_bool(I, name='b'):
        return I.ctx.fresh(name, 'bool')

    def fact(I, c):
        if c is True:
            return
        I.ctx.fact(zbool(c))

    def assume(I, c):
        if c is True:
            return
        if c is False:
            from .interp import Infeasible
            raise Infeasible()
        I.ctx.assume(zbool(c))

    def implies(I, a, b):
        if a is False or b is True:
            return True
        if isinstance(a, Sym) or isinstance(b, Sym):
            return mk(z3.Implies(zbool(a), zbool(b)), 'bool')
        return (not a) or b

    def ite(I, c, a, b):
        return B.ite(I, c, a, b)

    def oblige(I, name, c):
        I.ctx.oblige(name, zbool(c))

    def model_limit(I, name, c):
        """the model describes the external function only where `c` holds: elsewhere the path is undecided (never proved, never a violation)"""
        if isinstance(c, bool):
            if not c:
                raise Unsupported('outside the modelled range: ' + name)
            return True
        I.ctx.oblige('model-limit: ' + name, zbool(c), soft=True)
        return True

    def event(I, kind, **kw):
        I.ctx.event(kind, **kw)

    def is_symbolic(I, v):
        return isinstance(v, Sym)

    def unsupported(I, msg='unsupported'):
        raise Unsupported(msg)

    def uf_real(I, name, *args):
        """application of an uninterpreted real-valued function (assumed external behaviour)"""
        zs = [zreal(a) for a in args]
        f = z3.Function(name, *([z3.RealSort()] * len(zs)), z3.RealSort())
        return mk(f(*zs), 'real')

    def uf_bool(I, name, *args):
        zs = [zreal(a) for a in args]
        f = z3.Function(name, *([z3.RealSort()] * len(zs)), z3.BoolSort())
        return mk(f(*zs), 'bool')


    def uf(I, name, sort, *args):
        """application of an uninterpreted function; array arguments are passed by content identity"""
        zs = []
        for a in args:
            if isinstance(a, Arr):
                zs.append(z3.IntVal(getattr(a, 'cid', a.id)))
                I.ctx.ghost.setdefault('arrays_by_cid', {})[getattr(a, 'cid', a.id)] = a
            elif isinstance(a, bool):
                zs.append(z3.BoolVal(a))
            elif isinstance(a, Sym) and a.kind == 'bool':
                zs.append(a.e)
            else:
                zs.append(zreal(a))          # all numbers are passed as reals so that signatures do not depend on int/float
        rs = {'real': z3.RealSort(), 'bool': z3.BoolSort(), 'int': z3.IntSort()}[sort]
        sig = '_'.join(str(z.sort()) for z in zs)
        f = z3.Function(f'{name}__{sig}', *[z.sort() for z in zs], rs)
        return mk(f(*zs), sort)

    def dtype_of(I, v):
        if isinstance(v, Arr):
            return v.dtype
        if isinstance(v, bool) or (isinstance(v, Sym) and v.kind == 'bool'):
            return 'bool'
        if isinstance(v, int) or (isinstance(v, Sym) and v.kind == 'int'):
            return 'int'
        if isinstance(v, float) or (isinstance(v, Sym) and v.kind == 'real'):
            return 'float'
        return 'object'


    def is_bool_scalar(I, v):
        return isinstance(v, bool) or (isinstance(v, Sym) and v.kind == 'bool')

    def is_bool_array(I, v):
        return isinstance(v, Arr) and v.dtype == 'bool'


    def arr_like(I, like, fn, dtype='float'):
        return Arr(like.shape, lambda idx: I.call(fn, list(idx), {}), dtype)


    def lemma(I, name, cond):
        """a proof step inside a clause: `cond` becomes its own obligation (under everything known here) and is then available"""
        c = z3.BoolVal(bool(cond)) if not isinstance(cond, Sym) else zbool(cond)
        ctx = I.ctx
        if not hasattr(ctx, 'lemmas'):
            ctx.lemmas = []
        ctx.lemmas.append((name, c, list(ctx.pc), list(ctx.facts)))
        base = getattr(ctx, 'base_pc_len', 0)
        extra = ctx.pc[base:]
        ctx.fact(z3.Implies(z3.And(*extra), c) if extra else c)
        return True


    def general(I, name, fn, *args):
        """a general lemma: `fn(v1..vn)` is proved for ALL reals v (its own obligation, no other hypotheses) and then
        instantiated at `args`"""
        ctx = I.ctx
        if not hasattr(ctx, 'lemmas'):
            ctx.lemmas = []
        fresh = [ctx.fresh('g_' + name, 'real') for _ in args]
        g = I.call(fn, fresh, {})
        gc = z3.BoolVal(bool(g)) if not isinstance(g, Sym) else zbool(g)
        ctx.lemmas.append(('general.' + name, gc, [], []))
        inst = I.call(fn, list(args), {})
        if inst is not True:
            ctx.fact(zbool(inst))
        return True


    def is_nonfinite(I, v):
        import math
        return isinstance(v, float) and (math.isnan(v) or math.isinf(v))


    def is_selection(I, v):
        return isinstance(v, B.Selected)

    def selection_parts(I, v):
        """(values array, boolean mask array) of a boolean-mask selection (row-major sequence of values where mask holds)"""
        if not isinstance(v, B.Selected):
            raise Unsupported('not a selection')
        return (v.vals, v.mask)


    def _patch_arr(I, patch, what, rank2):
        """abstract outline arrays of a patch (A-MPL): functions of the patch class and its geometric constructor arguments,
        so two patches built with equal arguments have the same outline; the number of vertices depends on the class only"""
        cname = patch.cls.name
        params = []
        for k in sorted(patch.fields.d):
            v = patch.fields.d[k]
            if k == 'kwargs':
                continue
            for x in (v if isinstance(v, tuple) else (v,)):
                if isinstance(x, (int, float, Sym)) and not isinstance(x, bool):
                    params.append(zreal(x))
        n = Sym(z3.Int(f'path_len_{cname}'), 'int')
        I.ctx.fact(n.e >= 2)
        sorts = [z3.RealSort()] * len(params)
        if rank2:
            f = z3.Function(f'{what}_{cname}', z3.IntSort(), z3.IntSort(), *sorts, z3.RealSort())
            a = Arr((n, 2), lambda idx: mk(f(zint(idx[0]), zint(idx[1]), *params), 'real'), 'float')
        else:
            f = z3.Function(f'{what}_{cname}', z3.IntSort(), *sorts, z3.IntSort())
            a = Arr((n,), lambda idx: mk(f(zint(idx[0]), *params), 'int'), 'int')
        return a

    def abstract_path_vertices(I, patch):
        return _patch_arr(I, patch, 'pathv', True)

    def abstract_path_codes(I, patch):
        return _patch_arr(I, patch, 'pathc', False)

    def abstract_outline_vertices(I, patch):
        return _patch_arr(I, patch, 'outv', True)

    def abstract_outline_codes(I, patch):
        return _patch_arr(I, patch, 'outc', False)


    def text_equal(I, a, b):
        """two (possibly symbolic) texts are equal: same concrete pieces, and formatted numbers with equal precision and equal value"""
        pa = [a] if isinstance(a, str) else Rope([a]).parts
        pb = [b] if isinstance(b, str) else Rope([b]).parts
        if len(pa) != len(pb):
            return False
        acc = []
        for x, y in zip(pa, pb):
            if isinstance(x, str) or isinstance(y, str):
                if x != y:
                    return False
                continue
            if x.kind != y.kind or x.prec != y.prec:
                return False
            if x.kind == 'f' or x.kind == 'str':
                r = B.equal(I, x.value, y.value)
                if r is False:
                    return False
                if r is not True:
                    acc.append(zbool(r))
            elif x.value is not y.value:
                return False
        return mk(z3.And(*acc), 'bool') if acc else True


    def uf_application_args(I, v, name):
        """the numeric arguments of the application `name(...)` that the symbolic value v is (None if it is not one): lets a clause
        talk about exactly the pixel a kernel value was computed for"""
        if not isinstance(v, Sym) or not z3.is_app(v.e) or not v.e.decl().name().startswith(name + '__'):
            return None
        out = []
        for a in v.e.children():
            if a.sort().kind() == z3.Z3_INT_SORT and z3.is_int_value(a) and a.as_long() in I.ctx.ghost.get('arrays_by_cid', {}):
                out.append(I.ctx.ghost['arrays_by_cid'][a.as_long()])      # an array argument (passed by content identity): the array itself
                continue
            out.append(mk(a, 'int' if a.sort().kind() == z3.Z3_INT_SORT else 'bool' if a.sort().kind() == z3.Z3_BOOL_SORT else 'real'))
        return tuple(out)

    def use_lemma(I, name):
        """record that the facts stated next are the conclusion of the lemma contract `name` (the checker then requires that this
        contract is proved in the same run)"""
        I.ctx.ghost.setdefault('lemmas_used', set()).add(name)
        return True

    def is_text(I, v):
        return isinstance(v, (str, Rope))

    def text_isascii(I, v):
        """is every character of a (possibly symbolic) text ASCII?  rendered numbers are digits, signs, '.', 'e', 'inf', 'nan'"""
        if isinstance(v, str):
            return v.isascii()
        if isinstance(v, Rope):
            return all(p.isascii() for p in v.parts if isinstance(p, str))
        raise Unsupported('text_isascii of a non-text value')

    def exact_number_text(I, value, dots=None):
        """text of a number in positional decimal notation that float() parses back to exactly `value` (A-PY)"""
        f = Fmt(value, None, 'exact')
        if dots is not None:
            if dots not in (0, 1):
                raise Unsupported('a numeral has at most one decimal point')
            f.dots = dots          # the writer of the token says whether the numeral has a decimal point (an integer field has none)
        return Rope([f])

    def piece_value(I, piece):
        """numeric value denoted by one numeric text piece"""
        return B.b_float(I, Rope([Fmt(piece[1], piece[2], piece[3])]))


    def uf_text(I, name, text):
        """an opaque text derived from `text` (e.g. its gzip-compressed bytes): equal only to itself"""
        return Rope([Fmt((name, id(text)), None, 'opaque')])

    def stub(I, dotted, replacement):
        """replace a function of the code under verification by a stub for the rest of this path (used to observe what a
        caller passes on, e.g. that read() hands the file content to parse())"""
        fn = I.get(dotted)
        I.call_hooks[fn.qualname] = (lambda I2, f, args, kwargs: I2.call(replacement, list(args), kwargs))
        if not hasattr(I.ctx, 'stubs'):
            I.ctx.stubs = []
        I.ctx.stubs.append(fn.qualname)
        return True


    def split_first_line(I, text):
        """(first line including its newline, rest) of a possibly symbolic text (numbers never contain a newline)"""
        if isinstance(text, str):
            i = text.find('\n')
            return (text, '') if i == -1 else (text[:i + 1], text[i + 1:])
        head = []
        parts = list(text.parts)
        for k, p in enumerate(parts):
            if isinstance(p, str) and '\n' in p:
                i = p.find('\n')
                first = Rope(head + [p[:i + 1]])
                rest = Rope([p[i + 1:]] + parts[k + 1:])
                f = ''.join(first.parts) if all(isinstance(x, str) for x in first.parts) else first
                r = ''.join(rest.parts) if all(isinstance(x, str) for x in rest.parts) else rest
                return (f, r)
            if not isinstance(p, str) and p.kind not in ('f', 'exact', 'fmt-g'):
                raise Unsupported('line split of opaque text')
            head.append(p)
        return (text, '')

    def arr_from_fn(I, shape, fn, dtype='float'):
        shape = tuple(shape) if not isinstance(shape, ShapeTag) else shape
        return Arr(shape, lambda idx: I.call(fn, list(idx), {}), dtype)

    def witness(I, n, k):
        """instantiate every universally quantified fact over indices 0 <= j < n known so far (e.g. those of an array minimum)
        at the index k"""
        N.add_witness(I, n, k)
        return True

    def arr_at(I, a, *idx):
        if isinstance(a, Arr):
            if a.shape == ():
                return a.fn(())
            return a.fn(tuple(idx))
        return a

    def is_array(I, v):
        return isinstance(v, Arr)

    def shares_memory(I, a, b):
        """do the two arrays share their buffer: one is the other, or a basic-slicing view of it (what np.shares_memory reports for views)"""
        if not isinstance(a, Arr) or not isinstance(b, Arr):
            return False
        ra, rb = (a.base or a), (b.base or b)
        return ra is rb

    def rope_fmt(I, value, prec, kind='f'):
        if prec is not None and (isinstance(prec, bool) or not isinstance(prec, int)):
            I.throw('TypeError', 'precision must be an integer')
        return Rope([Fmt(value, prec, kind)])

    def fs_initially(I, what, path):
        """the ghost file system's initial answer to lexists / exists for a path (not affected by files the run has created)"""
        from .stdlib_models import fs_query
        return fs_query(I, what, path, initial=True)

    def ghost(I):
        g = I.ctx.ghost.get('$dict')
        if g is None:
            g = I.ctx.ghost['$dict'] = VDict()
        return g

    def shape_of(I, v):
        if isinstance(v, Arr):
            return v.shape if isinstance(v.shape, ShapeTag) else tuple(v.shape)
        return ()

    def fmt_pieces(I, text):
        """the pieces of a symbolic text: list of str | ('num', value, prec)"""
        parts = [text] if isinstance(text, str) else text.parts
        return VList([p if isinstance(p, str) else ('num', p.value, p.prec, p.kind, p.ndots()) for p in parts])

    ns = dict(fresh_real=F('fresh_real', fresh_real), fresh_int=F('fresh_int', fresh_int), fresh_bool=F('fresh_bool', fresh_bool),
              fact=F('fact', fact), assume=F('assume', assume), implies=F('implies', implies), ite=F('ite', ite),
              oblige=F('oblige', oblige), model_limit=F('model_limit', model_limit), event=F('event', event), is_symbolic=F('is_symbolic', is_symbolic),
              unsupported=F('unsupported', unsupported), uf_real=F('uf_real', uf_real), uf=F('uf', uf), split_first_line=F('split_first_line', split_first_line), uf_text=F('uf_text', uf_text), stub=F('stub', stub), is_text=F('is_text', is_text), use_lemma=F('use_lemma', use_lemma), uf_application_args=F('uf_application_args', uf_application_args), text_isascii=F('text_isascii', text_isascii), exact_number_text=F('exact_number_text', exact_number_text), piece_value=F('piece_value', piece_value), text_equal=F('text_equal', text_equal), abstract_path_vertices=F('abstract_path_vertices', abstract_path_vertices), abstract_path_codes=F('abstract_path_codes', abstract_path_codes), abstract_outline_vertices=F('abstract_outline_vertices', abstract_outline_vertices), abstract_outline_codes=F('abstract_outline_codes', abstract_outline_codes), is_selection=F('is_selection', is_selection), selection_parts=F('selection_parts', selection_parts), is_nonfinite=F('is_nonfinite', is_nonfinite), lemma=F('lemma', lemma), general=F('general', general), arr_like=F('arr_like', arr_like), is_bool_scalar=F('is_bool_scalar', is_bool_scalar), is_bool_array=F('is_bool_array', is_bool_array), dtype_of=F('dtype_of', dtype_of), uf_bool=F('uf_bool', uf_bool),
              arr_from_fn=F('arr_from_fn', arr_from_fn), arr_at=F('arr_at', arr_at), witness=F('witness', witness), is_array=F('is_array', is_array), shares_memory=F('shares_memory', shares_memory),
              cos=F('cos', N.np_cos), sin=F('sin', N.np_sin), sqrt=F('sqrt', lambda I, x: B.sqrt_(I, x)), PI=N.PI,
              deepcopy=F('deepcopy', lambda I, v: I.ext_modules and __import__('pyvc.stdlib_models', fromlist=['x']).deepcopy(I, v)),
              rope_fmt=F('rope_fmt', rope_fmt), ghost=F('ghost', ghost), fs_initially=F('fs_initially', fs_initially), shape_of=F('shape_of', shape_of),
              fmt_pieces=F('fmt_pieces', fmt_pieces), SYMBOLIC=True)
    return ModuleNS('vprim', ns)
