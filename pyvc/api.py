"""native (CPython) side of the contract API: contract files import `contract` from here when they are run
natively for replay / bounded run-time checking.  Under the symbolic engine the same import resolves to the engine's own registry."""
REGISTRY = []
SYMBOLIC = False


def contract(target, props=(), **kw):
    def deco(cls):
        REGISTRY.append({'target': target, 'props': list(props), 'cls': cls, 'opts': kw})
        return cls
    return deco
