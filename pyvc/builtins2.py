"""object model, builtin classes/functions and modelled standard-library modules"""
import math
import os
import string as _string
from fractions import Fraction

import z3

from .values import (MISSING, Arr, BoundMethod, Builtin, Fmt, ModuleNS, Rope, ShapeTag, Sym, Unsupported, VClass,
                     VClassMethod, VDict, VFunc, VList, VObj, VProperty, VSet, VSlice, VStaticMethod, is_num, is_sym,
                     kind_of, mk, zbool, zint, zreal)

HERE = os.path.dirname(os.path.abspath(__file__))
EXT = os.path.join(os.path.dirname(HERE), 'externals')


def _B():
    from . import builtins_ as B
    return B


def meth(name, fn):
    b = Builtin(name, fn)
    b.is_method = True
    return b


def new_object(I, cls):
    obj = VObj(cls)
    names = [c.name for c in cls.mro if c.builtin]
    if 'dict' in names:
        obj.dictdata = VDict()
    if 'list' in names:
        obj.listdata = VList()
    return obj


class SuperProxy:
    def __init__(self, cls, obj):
        self.cls, self.obj = cls, obj


def make_super(I, cls, obj):
    return SuperProxy(cls, obj)


# ---------------------------------------------------------------------------- dict / list / str methods
def _dictdata(I, s):
    d = _B().dd(I, s)
    if d is None:
        raise Unsupported('dict method on non-dict')
    return d


def d_get(I, s, k, default=None):
    d = _dictdata(I, s)
    k = I.hashable(k)
    I.resolve_maybe(d, k)
    return d.d.get(k, default)


def d_pop(I, s, k, *default):
    d = _dictdata(I, s)
    k = I.hashable(k)
    I.resolve_maybe(d, k)
    if k in d.d:
        I.write(d, f'dict.pop({k!r})', key=k)
        return d.d.pop(k)
    if default:
        return default[0]
    I.throw('KeyError', k)


def d_setitem(I, s, k, v):
    d = _dictdata(I, s)
    k = I.hashable(k)
    I.write(d, f'item {k!r}', key=k)
    d.maybe.pop(k, None)
    d.d[k] = v


def d_getitem(I, s, k):
    return _B().dict_getitem(I, _dictdata(I, s), k)


def d_delitem(I, s, k):
    _B().delitem(I, _dictdata(I, s), k)


def d_contains(I, s, k):
    d = _dictdata(I, s)
    k = I.hashable(k)
    I.resolve_maybe(d, k)
    return k in d.d


def d_items(I, s):
    d = _dictdata(I, s)
    I.resolve_all(d)
    return VList([(k, v) for k, v in d.d.items()])


def d_keys(I, s):
    d = _dictdata(I, s)
    I.resolve_all(d)
    return VList(list(d.d.keys()))


def d_values(I, s):
    d = _dictdata(I, s)
    I.resolve_all(d)
    return VList(list(d.d.values()))


def d_update(I, _s, *args, **kw):
    d = _dictdata(I, _s)
    for a in args:
        src = _B().dd(I, a)
        if src is not None:
            I.resolve_all(src)
            items = list(src.d.items())
        else:
            items = [tuple(I.iterate(p)) for p in I.iterate(a)]
        for k, v in items:
            d_setitem(I, d, k, v)
    for k, v in kw.items():
        d_setitem(I, d, k, v)


def d_setdefault(I, s, k, default=None):
    d = _dictdata(I, s)
    k = I.hashable(k)
    I.resolve_maybe(d, k)
    if k not in d.d:
        d_setitem(I, d, k, default)
    return d.d[k]


def d_copy(I, s):
    d = _dictdata(I, s)
    I.resolve_all(d)
    return VDict(d.d)


def d_clear(I, s):
    d = _dictdata(I, s)
    I.resolve_all(d)
    I.write(d, 'dict.clear')
    d.d.clear()


def d_popitem(I, s):
    d = _dictdata(I, s)
    I.resolve_all(d)
    if not d.d:
        I.throw('KeyError', 'popitem(): dictionary is empty')
    I.write(d, 'dict.popitem')
    return d.d.popitem()


def d_len(I, s):
    d = _dictdata(I, s)
    I.resolve_all(d)
    return len(d.d)


def d_iter(I, s):
    return d_keys(I, s)


def d_init(I, _s, *args, **kw):
    d_update(I, _s, *args, **kw)


def d_ior(I, s, other):
    d = _dictdata(I, s)
    src = _B().dd(I, other)
    if src is None:
        I.throw('TypeError', 'unsupported operand for |=')
    I.resolve_all(src)
    I.write(d, 'dict |=')
    for k, v in src.d.items():
        d.maybe.pop(k, None)
        d.d[k] = v
    return s


def d_or(I, s, other):
    d = _dictdata(I, s)
    src = _B().dd(I, other)
    if src is None:
        return _im().NOTIMPL
    I.resolve_all(d)
    I.resolve_all(src)
    return VDict({**d.d, **src.d})


def d_eq(I, s, other):
    a, b = _B().dd(I, s), _B().dd(I, other)
    if b is None:
        return False
    return _B().equal(I, a, b)


def d_fromkeys(I, keys, value=None):
    return VDict({I.hashable(k): value for k in I.iterate(keys)})


DICT_METHODS = {'get': d_get, 'pop': d_pop, '__setitem__': d_setitem, '__getitem__': d_getitem,
                '__delitem__': d_delitem, '__contains__': d_contains, 'items': d_items, 'keys': d_keys,
                'values': d_values, 'update': d_update, 'setdefault': d_setdefault, 'copy': d_copy,
                'clear': d_clear, 'popitem': d_popitem, '__len__': d_len, '__iter__': d_iter, '__init__': d_init,
                '__ior__': d_ior, '__or__': d_or, '__eq__': d_eq}


def _listdata(I, s):
    l = _B().ll(s)
    if l is None:
        raise Unsupported('list method on non-list')
    return l


def l_append(I, s, v):
    l = _listdata(I, s)
    I.write(l, 'list.append')
    l.l.append(v)


def l_extend(I, s, it):
    l = _listdata(I, s)
    items = I.iterate(it)
    I.write(l, 'list.extend')
    l.l.extend(items)


def l_insert(I, s, i, v):
    l = _listdata(I, s)
    if isinstance(i, Sym):
        raise Unsupported('symbolic insert index')
    I.write(l, 'list.insert')
    l.l.insert(i, v)


def l_pop(I, s, i=-1):
    l = _listdata(I, s)
    if not l.l:
        I.throw('IndexError', 'pop from empty list')
    i = _B().norm_index(I, i, len(l.l))
    I.write(l, 'list.pop')
    return l.l.pop(i)


def l_reverse(I, s):
    l = _listdata(I, s)
    I.write(l, 'list.reverse')
    l.l.reverse()


def l_copy(I, s):
    return VList(_listdata(I, s).l)


def l_index(I, s, v):
    l = _listdata(I, s)
    for i, x in enumerate(l.l):
        if I.truth(_B().equal(I, x, v)):
            return i
    I.throw('ValueError', 'not in list')


def l_count(I, s, v):
    return sum(1 for x in _listdata(I, s).l if I.truth(_B().equal(I, x, v)))


def l_remove(I, s, v):
    l = _listdata(I, s)
    i = l_index(I, s, v)
    I.write(l, 'list.remove')
    del l.l[i]


def l_clear(I, s):
    l = _listdata(I, s)
    I.write(l, 'list.clear')
    l.l.clear()


def l_sort(I, s, key=None, reverse=False):
    l = _listdata(I, s)
    I.write(l, 'list.sort')
    l.l[:] = b_sorted(I, l, key=key, reverse=reverse).l


def l_len(I, s):
    return len(_listdata(I, s).l)


def l_getitem(I, s, k):
    return _B().getitem(I, _listdata(I, s), k)


def l_setitem(I, s, k, v):
    return _B().setitem(I, _listdata(I, s), k, v)


def l_iter(I, s):
    return VList(_listdata(I, s).l)


def l_init(I, s, it=()):
    l = _listdata(I, s)
    l.l[:] = I.iterate(it)


def l_contains(I, s, v):
    return _B().contains(I, _listdata(I, s), v)


def l_eq(I, s, other):
    b = _B().ll(other)
    if b is None:
        return False
    return _B().equal(I, _listdata(I, s), b)


LIST_METHODS = {'append': l_append, 'extend': l_extend, 'insert': l_insert, 'pop': l_pop, 'reverse': l_reverse,
                'copy': l_copy, 'index': l_index, 'count': l_count, 'remove': l_remove, 'clear': l_clear,
                'sort': l_sort, '__len__': l_len, '__getitem__': l_getitem, '__setitem__': l_setitem,
                '__iter__': l_iter, '__init__': l_init, '__contains__': l_contains, '__eq__': l_eq}

STR_METHODS = ['lower', 'upper', 'strip', 'lstrip', 'rstrip', 'split', 'rsplit', 'startswith', 'endswith', 'replace',
               'find', 'rfind', 'join', 'format', 'count', 'isdigit', 'splitlines', 'index', 'title', 'capitalize',
               'isalpha', 'isnumeric', 'partition', 'rpartition', 'encode', 'zfill', 'isspace', 'ljust', 'rjust']


def str_method(I, s, name):
    def call(I, *args, **kw):
        if name == 'format':
            return str_format(I, s, args, kw)
        cargs = []
        for a in args:
            if isinstance(a, VList):
                a = list(a.l)
            elif isinstance(a, (Rope, Sym)):
                return rope_method(I, Rope([s]), name, args, kw)
            cargs.append(a)
        if name == 'join':
            items = cargs[0] if isinstance(cargs[0], (list, tuple)) else I.iterate(cargs[0])
            if any(isinstance(x, Rope) for x in items):
                out = []
                for i, x in enumerate(items):
                    if i:
                        out.append(s)
                    out.append(x)
                return Rope(out)
            if not all(isinstance(x, str) for x in items):
                I.throw('TypeError', 'sequence item: expected str instance')
            return s.join(items)
        if name == 'format':
            return str_format(I, s, args, kw)
        try:
            r = getattr(s, name)(*cargs, **kw)
        except (ValueError, TypeError, IndexError) as e:
            I.throw(type(e).__name__, str(e))
        if isinstance(r, list):
            return VList(r)
        return r
    return Builtin('str.' + name, call)


def str_format(I, s, args, kw):
    """str.format with a concrete template; values may be symbolic (-> Rope)"""
    parts = []
    auto = 0
    for lit, field, spec, conv in _string.Formatter().parse(s):
        if lit:
            parts.append(lit)
        if field is None:
            continue
        if '{' in (spec or ''):
            raise Unsupported('nested format spec')
        name = field
        # attribute / index access in the field name
        head, rest = name, ''
        for i, ch in enumerate(name):
            if ch in '.[':
                head, rest = name[:i], name[i:]
                break
        if head == '':
            v = args[auto]
            auto += 1
        elif head.isdigit():
            if int(head) >= len(args):
                I.throw('IndexError', 'Replacement index out of range for positional args tuple')
            v = args[int(head)]
        else:
            if head not in kw:
                I.throw('KeyError', head)
            v = kw[head]
        if rest:
            raise Unsupported('attribute access inside format field')
        parts.append(_B().format_value(I, v, spec or '', ord(conv) if conv else -1))
    if all(isinstance(p, str) for p in parts):
        return ''.join(parts)
    return Rope(parts)


def rope_method(I, r, name, args, kw):
    parts = r.parts
    B = _B()
    if name == 'count' and len(args) == 1 and isinstance(args[0], str) and len(args[0]) == 1:
        ch = args[0]
        n = 0
        for p in parts:
            if isinstance(p, str):
                n += p.count(ch)
            elif p.kind not in ('f', 'exact'):
                raise Unsupported('count on opaque text')
            elif ch == '.':
                if p.ndots() is None:
                    raise Unsupported("count of '.' in a numeral whose form is unknown")
                n += p.ndots()
            elif ch in B.FMT_ALPHABET:
                raise Unsupported(f'count of {ch!r} in symbolic text')
        return n
    if name == 'replace' and args and args[0] == '.' and isinstance(args[1], str) and \
            all(isinstance(p, str) or (p.kind in ('f', 'exact') and p.ndots() is not None) for p in parts):
        # decimal points are replaced left to right; one inside a numeral would cut the numeral in two: outside the subset
        limit = args[2] if len(args) > 2 else -1
        out, done = [], 0
        for p in parts:
            if isinstance(p, str):
                k = p.count('.') if limit < 0 else min(p.count('.'), limit - done)
                out.append(p.replace('.', args[1], k))
                done += k
            else:
                if p.ndots() and (limit < 0 or done < limit):
                    raise Unsupported("replace of the decimal point inside a symbolic numeral")
                out.append(p)
        return Rope(out)
    if name == 'split' and args and args[0] == '.' and len(args) == 1 and \
            all(isinstance(p, str) or (p.kind in ('f', 'exact') and p.ndots() is not None) for p in parts):
        # a numeral with a decimal point contributes two pieces: its integer and its fraction digits (opaque texts)
        out = [[]]
        for p in parts:
            if isinstance(p, str):
                segs = p.split('.')
                out[-1].append(segs[0])
                for sg in segs[1:]:
                    out.append([sg])
            elif p.ndots() == 0:
                out[-1].append(p)
            else:
                out[-1].append(Fmt(('integer digits of', p.id), None, 'opaque'))
                out.append([Fmt(('fraction digits of', p.id), None, 'opaque')])
        res = []
        for o in out:
            o = [x for x in o if x != '']
            res.append(''.join(o) if all(isinstance(x, str) for x in o) else Rope(o))
        return VList(res)
    if name == 'replace':
        old, new = args[0], args[1]
        if isinstance(old, str) and isinstance(new, str):
            if any(ch in B.FMT_ALPHABET for ch in old):
                raise Unsupported('replace of a numeric char in symbolic text')
            if any(not isinstance(p, str) and p.kind not in ('f', 'exact') for p in parts):
                raise Unsupported('replace on opaque text')
            return Rope([p.replace(old, new) if isinstance(p, str) else p for p in parts])
    if name in ('strip', 'lstrip', 'rstrip'):
        chars = args[0] if args else None
        new = list(parts)
        if name in ('strip', 'lstrip'):
            if isinstance(new[0], str):
                new[0] = new[0].lstrip(chars)
                if new[0] == '' and len(new) > 1 and not _fmt_safe_strip(new[1], chars):
                    raise Unsupported('strip into symbolic piece')
            elif not _fmt_safe_strip(new[0], chars):
                raise Unsupported('strip of symbolic piece')
        if name in ('strip', 'rstrip'):
            if isinstance(new[-1], str):
                new[-1] = new[-1].rstrip(chars)
                if new[-1] == '' and len(new) > 1 and not _fmt_safe_strip(new[-2], chars):
                    raise Unsupported('strip into symbolic piece')
            elif not _fmt_safe_strip(new[-1], chars):
                raise Unsupported('strip of symbolic piece')
        return Rope(new)
    if name == 'lower' or name == 'upper':
        if all(isinstance(p, str) or p.kind in ('f', 'exact') for p in parts):
            return Rope([getattr(p, name)() if isinstance(p, str) else p for p in parts])
    if name in ('startswith', 'endswith'):
        pre = args[0]
        cands = pre if isinstance(pre, tuple) else (pre,)
        p = parts[0] if name == 'startswith' else parts[-1]
        if isinstance(p, str) and all(isinstance(c, str) for c in cands):
            res = []
            for c in cands:
                if len(c) <= len(p):
                    res.append(getattr(p, name)(c))
                elif (p.startswith(c[:len(p)]) if name == 'startswith' else p.endswith(c[-len(p):])):
                    raise Unsupported('prefix test reaches symbolic piece')
                else:
                    res.append(False)
            return any(res)
        if isinstance(p, Fmt) and p.kind in ('f', 'exact') and all(isinstance(c, str) and c and
                                                          (c[0] if name == 'startswith' else c[-1]) not in B.FMT_ALPHABET for c in cands):
            return False
    if name == 'join':
        items = I.iterate(args[0])
        out = []
        for i, x in enumerate(items):
            if i:
                out.append(r)
            out.append(x)
        return Rope(out)
    if name == 'split':
        sep = args[0] if args else None
        if isinstance(sep, str) and not any(ch in B.FMT_ALPHABET for ch in sep) and \
                all(isinstance(p, str) or p.kind in ('f', 'exact') for p in parts):
            # split only inside concrete parts
            out = [[]]
            for p in parts:
                if isinstance(p, str):
                    segs = p.split(sep)
                    out[-1].append(segs[0])
                    for sg in segs[1:]:
                        out.append([sg])
                else:
                    out[-1].append(p)
            res = []
            for o in out:
                rr = Rope(o)
                res.append(''.join(rr.parts) if all(isinstance(x, str) for x in rr.parts) else rr)
            return VList(res)
    if name == 'format':
        raise Unsupported('format with symbolic template')
    if name == 'encode':
        return r
    raise Unsupported(f'str.{name} on symbolic text')


def _fmt_safe_strip(piece, chars):
    """stripping `chars` cannot eat into a fixed-point rendering"""
    if isinstance(piece, str):
        return True
    if piece.kind not in ('f', 'exact'):
        return False
    if chars is None:
        return True       # whitespace never occurs in a rendering
    return not any(ch in _B().FMT_ALPHABET for ch in chars)


# ---------------------------------------------------------------------------- host getattr
def host_getattr(I, obj, name):
    B = _B()
    if isinstance(obj, SuperProxy):
        mro = obj.obj.cls.mro if isinstance(obj.obj, VObj) else obj.obj.mro
        i = mro.index(obj.cls) if obj.cls in mro else -1
        for c in mro[i + 1:]:
            if name in c.ns:
                return I.bind(c.ns[name], obj.obj, obj.obj.cls if isinstance(obj.obj, VObj) else obj.obj)
        return MISSING
    if isinstance(obj, VDict):
        if name in DICT_METHODS:
            return BoundMethod(obj, meth('dict.' + name, DICT_METHODS[name]))
        if hasattr(dict, name) and not name.startswith('__'):
            raise Unsupported(f'dict.{name} is not modelled')     # never an AttributeError the code under analysis could catch
        return MISSING
    if isinstance(obj, VList):
        if name in LIST_METHODS:
            return BoundMethod(obj, meth('list.' + name, LIST_METHODS[name]))
        if hasattr(list, name) and not name.startswith('__'):
            raise Unsupported(f'list.{name} is not modelled')
        return MISSING
    if isinstance(obj, str):
        if name in STR_METHODS or (hasattr(str, name) and not name.startswith('__')):
            return str_method(I, obj, name)       # concrete text: every pure str method is the real one
        return MISSING
    if isinstance(obj, Rope):
        if name in STR_METHODS:
            return Builtin('str.' + name, lambda I, *a, **k: rope_method(I, obj, name, a, k))
        if hasattr(str, name) and not name.startswith('__'):
            raise Unsupported(f'str.{name} on symbolic text is not modelled')
        return MISSING
    if isinstance(obj, tuple):
        if name == 'index':
            return Builtin('tuple.index', lambda I, v: l_index(I, VList(obj), v))
        if name == 'count':
            return Builtin('tuple.count', lambda I, v: l_count(I, VList(obj), v))
        return MISSING
    if isinstance(obj, VSet):
        return set_getattr(I, obj, name)
    if isinstance(obj, VSlice):
        if name in ('start', 'stop', 'step'):
            return getattr(obj, name)
        return MISSING
    if isinstance(obj, Arr):
        from . import m_numpy
        return m_numpy.arr_getattr(I, obj, name)
    if isinstance(obj, B.Selected):
        from . import m_numpy
        return m_numpy.selected_getattr(I, obj, name)
    if isinstance(obj, (Sym, int, float, Fraction, bool)):
        return num_getattr(I, obj, name)
    if isinstance(obj, Builtin):
        if name == '__name__':
            return obj.name.split('.')[-1]
        if name == '__func__':
            return MISSING
        return getattr(obj, 'attrs', {}).get(name, MISSING)
    if isinstance(obj, B.Lazy):
        return MISSING
    if isinstance(obj, HostObj):
        return obj.getattr(I, name)
    if obj is None:
        return MISSING
    if isinstance(obj, VProperty):
        if name == 'setter':
            return Builtin('property.setter', lambda I, f: VProperty(obj.fget, f, obj.fdel))
        if name == 'deleter':
            return Builtin('property.deleter', lambda I, f: VProperty(obj.fget, obj.fset, f))
        if name == 'getter':
            return Builtin('property.getter', lambda I, f: VProperty(f, obj.fset, obj.fdel))
        if name in ('fget', 'fset', 'fdel'):
            return getattr(obj, name)
        return MISSING
    raise Unsupported(f'attribute {name!r} of {type(obj).__name__}')


class HostObj:
    """base for small host-implemented objects (context managers, regex objects, file handles...)"""

    def getattr(self, I, name):
        m = getattr(self, 'a_' + name, None)
        if m is None:
            return MISSING
        if callable(m):
            return Builtin(type(self).__name__ + '.' + name, m)
        return m


def host_setattr(I, obj, name, v):
    if isinstance(obj, HostObj) and hasattr(obj, 'setattr'):
        return obj.setattr(I, name, v)
    if isinstance(obj, Builtin):
        if not hasattr(obj, 'attrs'):
            obj.attrs = {}
        obj.attrs[name] = v
        return
    I.throw('AttributeError', f'{_B().host_type_name(obj)!r} object has no attribute {name!r}')


def num_getattr(I, v, name):
    if name == 'is_integer':
        def is_integer(I):
            if isinstance(v, Sym):
                if v.kind == 'int':
                    return True
                return mk(z3.IsInt(zreal(v)), 'bool')
            return float(v).is_integer()
        return Builtin('float.is_integer', is_integer)
    if name == 'item':
        return Builtin('scalar.item', lambda I: v)
    if name == 'real':
        return v
    if name == 'shape':
        return ()
    if name == 'ndim':
        return 0
    if name == 'size':
        return 1
    if name == 'dtype':
        return kind_of(v)
    if name == 'value':
        return MISSING
    return MISSING


def set_getattr(I, s, name):
    if name == 'add':
        def add(I, v):
            if v not in s.s:
                s.s.append(v)
        return Builtin('set.add', add)
    if name == 'pop':
        return Builtin('set.pop', lambda I: s.s.pop() if s.s else I.throw('KeyError', 'pop from an empty set'))
    if name == 'intersection':
        return Builtin('set.intersection', lambda I, *o: set_intersection(I, s, *o))
    if name == 'union':
        return Builtin('set.union', lambda I, *o: VSet(s.s + [x for oo in o for x in I.iterate(oo)]))
    if name == 'discard':
        return Builtin('set.discard', lambda I, v: s.s.remove(v) if v in s.s else None)
    return MISSING


def set_intersection(I, first, *others):
    items = list(I.iterate(first))
    for o in others:
        oi = I.iterate(o)
        items = [x for x in items if any(_same_key(I, x, y) for y in oi)]
    return VSet(items)


def _same_key(I, x, y):
    r = _B().equal(I, x, y)
    if isinstance(r, Sym):
        raise Unsupported('symbolic set membership')
    return I.truth(r)


def _im():
    from . import interp
    return interp


# ---------------------------------------------------------------------------- builtin functions
def b_isinstance(I, v, spec):
    if isinstance(spec, tuple):
        return any(b_isinstance(I, v, s) for s in spec)
    if not isinstance(spec, VClass):
        raise Unsupported(f'isinstance spec {spec!r}')
    if isinstance(v, VObj):
        return v.cls.issub(spec)
    n = spec.name
    if not spec.builtin:
        return False
    if isinstance(v, Sym):
        return {'int': n in ('int', 'object', 'Number', 'Integral', 'Real'),
                'real': n in ('float', 'object', 'Number', 'Real', 'floating'),
                'bool': n in ('bool', 'int', 'object', 'Number')}[v.kind]
    if v is None:
        return n in ('NoneType', 'object')
    if isinstance(v, bool):
        return n in ('bool', 'int', 'object', 'Number', 'Integral', 'Real')
    if isinstance(v, int):
        return n in ('int', 'object', 'Number', 'Integral', 'Real')
    if isinstance(v, (float, Fraction)):
        return n in ('float', 'object', 'Number', 'Real')
    if isinstance(v, (str, Rope)):
        return n in ('str', 'object')
    if isinstance(v, tuple):
        return n in ('tuple', 'object')
    if isinstance(v, VList):
        return n in ('list', 'object')
    if isinstance(v, VDict):
        return n in ('dict', 'object')
    if isinstance(v, VSet):
        return n in ('set', 'object')
    if isinstance(v, Arr):
        return n in ('ndarray', 'object')
    if isinstance(v, VSlice):
        return n in ('slice', 'object')
    if isinstance(v, VClass):
        return n in ('type', 'object')
    if isinstance(v, (VFunc, Builtin, BoundMethod)):
        return n in ('object', 'function')
    return n == 'object'


def b_len(I, v):
    if isinstance(v, (str, tuple, range, frozenset)):
        return len(v)
    if isinstance(v, VList):
        return len(v.l)
    if isinstance(v, VDict):
        I.resolve_all(v)
        return len(v.d)
    if isinstance(v, VSet):
        return len(v.s)
    if isinstance(v, VObj):
        m = I.find_method(v, '__len__')
        if m is not None:
            return I.call(m, [], {})
        I.throw('TypeError', f"object of type {v.cls.name!r} has no len()")
    if isinstance(v, Arr):
        if isinstance(v.shape, tuple):
            if not v.shape:
                I.throw('TypeError', 'len() of unsized object')
            return v.shape[0]
        raise Unsupported('len of opaque-shape array')
    if isinstance(v, Rope):
        raise Unsupported('len of symbolic text')
    I.throw('TypeError', f"object of type {_B().host_type_name(v)!r} has no len()")


def b_abs(I, v):
    if isinstance(v, VObj):
        m = I.find_method(v, '__abs__')
        if m is not None:
            return I.call(m, [], {})
    if isinstance(v, Arr):
        return _B().arr_map(I, lambda x: b_abs(I, x), v)
    if isinstance(v, Sym):
        if v.kind == 'real':
            return mk(z3.If(v.e >= 0, v.e, -v.e), 'real')
        if v.kind == 'int':
            return mk(z3.If(v.e >= 0, v.e, -v.e), 'int')
        return mk(zint(v), 'int')
    if isinstance(v, (int, float, Fraction)):
        return abs(v)
    I.throw('TypeError', 'bad operand type for abs()')


def _minmax(I, args, kw, ismin):
    if len(args) == 1:
        items = I.iterate(args[0])
    else:
        items = list(args)
    if 'key' in kw:
        raise Unsupported('min/max key')
    if not items:
        if 'default' in kw:
            return kw['default']
        I.throw('ValueError', 'arg is an empty sequence')
    B = _B()
    cur = items[0]
    for x in items[1:]:
        if isinstance(cur, VObj) or isinstance(x, VObj):
            c = B.compare(I, '<', x, cur) if ismin else B.compare(I, '>', x, cur)
            if I.truth(c):
                cur = x
            continue
        if not (B.is_numlike(cur) and B.is_numlike(x)):
            c = B.compare(I, '<', x, cur) if ismin else B.compare(I, '>', x, cur)
            cur = x if I.truth(c) else cur
            continue
        if isinstance(cur, Sym) or isinstance(x, Sym):
            c = B.compare(I, '<', x, cur) if ismin else B.compare(I, '>', x, cur)
            cur = B.ite(I, c, x, cur)
        else:
            cur = min(cur, x) if ismin else max(cur, x)
    return cur


def b_int(I, v=0, base=None):
    if isinstance(v, VObj):
        m = I.find_method(v, '__int__')
        if m is not None:
            return I.call(m, [], {})
        I.throw('TypeError', 'int() argument')
    if isinstance(v, Sym):
        if v.kind == 'int':
            return v
        if v.kind == 'bool':
            return mk(zint(v), 'int')
        e = v.e
        return mk(z3.If(e >= 0, z3.ToInt(e), -z3.ToInt(-e)), 'int')
    if isinstance(v, str):
        try:
            return int(v) if base is None else int(v, base)
        except ValueError as e:
            I.throw('ValueError', str(e))
    if isinstance(v, Rope):
        raise Unsupported('int() of symbolic text')
    if isinstance(v, Arr) and v.shape == ():
        return b_int(I, v.fn(()))
    if isinstance(v, (int, float, Fraction)):
        try:
            return int(v)
        except (ValueError, OverflowError) as e:
            I.throw(type(e).__name__, str(e))
    I.throw('TypeError', f'int() argument must be a string or a number, not {_B().host_type_name(v)!r}')


def b_float(I, v=0.0):
    if isinstance(v, VObj):
        m = I.find_method(v, '__float__')
        if m is not None:
            return I.call(m, [], {})
        I.throw('TypeError', 'float() argument must be a string or a real number')
    if isinstance(v, Sym):
        if v.kind == 'real':
            return v
        return mk(zreal(v), 'real')
    if isinstance(v, str):
        try:
            return float(v)
        except ValueError as e:
            I.throw('ValueError', str(e))
    if isinstance(v, Rope):
        ps = v.parts
        if len(ps) == 1 and isinstance(ps[0], Fmt) and ps[0].kind == 'f':
            return parse_fmt(I, ps[0])
        if len(ps) == 1 and isinstance(ps[0], Fmt) and ps[0].kind == 'exact':
            return b_float(I, ps[0].value)
        I.throw_or_unsupported = None
        raise Unsupported('float() of symbolic text')
    if isinstance(v, Arr) and v.shape == ():
        return b_float(I, v.fn(()))
    if isinstance(v, (int, float, Fraction)):
        return float(v) if not isinstance(v, Fraction) else v
    I.throw('TypeError', f'float() argument must be a string or a real number, not {_B().host_type_name(v)!r}')


def parse_fmt(I, fm):
    """float(text of value rendered with prec decimals): A-PY |result - value| <= 0.5 * 10**-prec"""
    key = ('parsefmt', fm.id)
    c = I.ctx.trig_cache.get(key)
    if c is None:
        r = I.ctx.fresh('parsed', 'real')
        half = Fraction(1, 2 * 10 ** fm.prec)
        I.ctx.fact(z3.And(r.e - zreal(fm.value) <= z3.RealVal(str(half)), zreal(fm.value) - r.e <= z3.RealVal(str(half))))
        I.ctx.trig_cache[key] = r
        c = r
    return c


def b_bool(I, v=False):
    if isinstance(v, Sym):
        return mk(zbool(v), 'bool')
    return I.truth(v)


def b_str(I, v=''):
    return _B().to_str(I, v)


def b_repr(I, v):
    return _B().to_str(I, v, repr_=True)


def b_list(I, it=()):
    return VList(I.iterate(it))


def b_tuple(I, it=()):
    return tuple(I.iterate(it))


def b_dict(I, *args, **kw):
    d = VDict()
    d_update(I, d, *args, **kw)
    return d


def b_set(I, it=()):
    return VSet(I.iterate(it))


def b_zip(I, *its, strict=False):
    B = _B()
    fin = [I.iterate(x) for x in its if not (isinstance(x, B.Lazy) and x.infinite())]
    n = min((len(x) for x in fin), default=0)
    if strict and any(len(x) != n for x in fin):
        I.throw('ValueError', 'zip() argument lengths differ')
    cols = []
    for x in its:
        if isinstance(x, B.Lazy) and x.infinite():
            cols.append(x.take(I, n))
        else:
            cols.append(I.iterate(x)[:n])
    return VList([tuple(c[i] for c in cols) for i in range(n)])


def b_enumerate(I, it, start=0):
    return VList([(i + start, x) for i, x in enumerate(I.iterate(it))])


def b_range(I, *a):
    if any(isinstance(x, Sym) for x in a):
        raise Unsupported('range with symbolic bound (needs a loop invariant)')
    return range(*a)


def b_sorted(I, it, key=None, reverse=False):
    items = I.iterate(it)
    if key is not None:
        keyed = [(I.call(key, [x], {}), x) for x in items]
    else:
        keyed = [(x, x) for x in items]
    try:
        keyed.sort(key=lambda p: p[0], reverse=reverse)
    except TypeError:
        raise Unsupported('sort of symbolic values')
    return VList([p[1] for p in keyed])


def b_sum(I, it, start=0):
    acc = start
    for x in I.iterate(it):
        acc = I.binop('+', acc, x)
    return acc


def b_any(I, it):
    acc = []
    for x in I.iterate(it):
        if isinstance(x, Sym):
            acc.append(zbool(x))
        elif I.truth(x):
            return True
    return mk(z3.Or(*acc), 'bool') if acc else False


def b_all(I, it):
    acc = []
    for x in I.iterate(it):
        if isinstance(x, Sym):
            acc.append(zbool(x))
        elif not I.truth(x):
            return False
    return mk(z3.And(*acc), 'bool') if acc else True


def b_getattr(I, o, name, *default):
    if default:
        return I.getattr(o, name, default[0])
    return I.getattr(o, name)


def b_hasattr(I, o, name):
    if name in ('__len__', '__iter__', '__getitem__', '__contains__') and isinstance(o, (tuple, str, VList, VDict, VSet, Rope)):
        return True
    if name in ('__len__', '__iter__', '__getitem__') and isinstance(o, Arr):
        return o.shape != ()
    try:
        return I._getattr(o, name) is not MISSING
    except _im().VRaise:
        return False


def b_setattr(I, o, name, v):
    I.setattr(o, name, v)


def b_callable(I, v):
    if isinstance(v, (VFunc, Builtin, BoundMethod, VClass)):
        return True
    if isinstance(v, VObj):
        return I.find_method(v, '__call__') is not None
    return False


def b_type(I, v, *rest):
    if rest:
        raise Unsupported('3-arg type()')
    if isinstance(v, VObj):
        return v.cls
    n = _B().host_type_name(v)
    n = {'VSet': 'set', 'NoneType': 'NoneType', 'Fraction': 'float', 'VSlice': 'slice'}.get(n, n)
    if n in I.builtins and isinstance(I.builtins[n], VClass):
        return I.builtins[n]
    raise Unsupported(f'type() of {n}')


def b_issubclass(I, c, spec):
    if isinstance(spec, tuple):
        return any(b_issubclass(I, c, s) for s in spec)
    return isinstance(c, VClass) and c.issub(spec)


def b_round(I, v, nd=None):
    if isinstance(v, Sym):
        # a nearest multiple of 10^-nd (ties are not distinguished: both neighbours are allowed at a tie)
        if nd is not None and not isinstance(nd, int):
            raise Unsupported('round to a symbolic number of digits')
        import z3
        from .values import mk, zreal
        k = I.ctx.fresh('round_k', 'int')
        scale = 10 ** (nd or 0)
        x = zreal(v)
        I.ctx.fact(z3.And(z3.ToReal(k.e) - x * scale <= z3.RealVal('1/2'), x * scale - z3.ToReal(k.e) <= z3.RealVal('1/2')))
        if nd is None:
            return k
        return mk(z3.ToReal(k.e) / scale, 'real')
    return round(v, nd) if nd is not None else round(v)


def b_super(I, *a):
    if len(a) == 2:
        return SuperProxy(a[0], a[1])
    raise Unsupported('super() form')


def b_print(I, *a, **k):
    return None


def b_id(I, v):
    return id(v)


def b_hash(I, v):
    try:
        return hash(v)
    except TypeError:
        I.throw('TypeError', 'unhashable')


def b_iter(I, v):
    return VList(I.iterate(v))


def b_next(I, it, *default):
    B = _B()
    if isinstance(it, B.Lazy):
        r = it.take(I, 1)
        if r:
            return r[0]
    elif isinstance(it, VList):
        if it.l:
            return it.l.pop(0)
    if default:
        return default[0]
    I.throw('StopIteration')


def b_reversed(I, v):
    return VList(list(reversed(I.iterate(v))))


def b_map(I, f, *its):
    return VList([I.call(f, list(xs), {}) for xs in zip(*[I.iterate(x) for x in its])])


def b_filter(I, f, it):
    return VList([x for x in I.iterate(it) if I.truth(x if f is None else I.call(f, [x], {}))])


def b_format(I, v, spec=''):
    return _B().format_value(I, v, spec, -1)


def b_divmod(I, a, b):
    return (I.binop('//', a, b), I.binop('%', a, b))


def b_slice(I, *a):
    if len(a) == 1:
        return VSlice(None, a[0])
    return VSlice(*a)


def b_property(I, fget=None, fset=None, fdel=None, doc=None):
    return VProperty(fget, fset, fdel)


def obj_new(I, _cls, *a, **k):
    return new_object(I, _cls)


def obj_init(I, self, *a, **k):
    return None


def obj_eq(I, self, other):
    return self is other


def obj_ne(I, self, other):
    r = _B().equal(I, self, other)
    return _B().logical_not(I, r)


def obj_setattr(I, self, name, v):
    self.fields.d[name] = v


def obj_repr(I, self):
    return Rope([Fmt(self, None, 'opaque')])


def exc_init(I, self, *args, **kw):
    self.fields.d['args'] = tuple(args)


def exc_str(I, self):
    a = self.fields.d.get('args', ())
    if len(a) == 1:
        return _B().to_str(I, a[0])
    if not a:
        return ''
    return _B().to_str(I, a)


EXC_TREE = {
    'BaseException': 'object', 'Exception': 'BaseException', 'ArithmeticError': 'Exception',
    'ZeroDivisionError': 'ArithmeticError', 'OverflowError': 'ArithmeticError', 'AssertionError': 'Exception',
    'AttributeError': 'Exception', 'LookupError': 'Exception', 'IndexError': 'LookupError', 'KeyError': 'LookupError',
    'NameError': 'Exception', 'OSError': 'Exception', 'FileExistsError': 'OSError', 'FileNotFoundError': 'OSError',
    'IsADirectoryError': 'OSError', 'PermissionError': 'OSError',
    'RuntimeError': 'Exception', 'NotImplementedError': 'RuntimeError', 'RecursionError': 'RuntimeError',
    'StopIteration': 'Exception', 'TypeError': 'Exception', 'ValueError': 'Exception', 'UnicodeError': 'ValueError', 'UnicodeEncodeError': 'UnicodeError', 'UnicodeDecodeError': 'UnicodeError',
    'Warning': 'Exception', 'UserWarning': 'Warning', 'DeprecationWarning': 'Warning', 'RuntimeWarning': 'Warning',
    'FutureWarning': 'Warning',
}
IOError_alias = 'OSError'


def make_builtins(I):
    b = {}
    obj = VClass('object', [], {}, builtin=True)
    obj.mro = [obj]
    onew = Builtin('object.__new__', obj_new)
    obj.ns.update({'__new__': VStaticMethod(onew), '__init__': meth('object.__init__', obj_init),
                   '__eq__': meth('object.__eq__', obj_eq), '__ne__': meth('object.__ne__', obj_ne),
                   '__setattr__': meth('object.__setattr__', obj_setattr),
                   '__init_subclass__': VClassMethod(Builtin('object.__init_subclass__', lambda I, cls, **k: None))})
    b['object'] = obj

    def bc(name, ns=None, bases=None):
        c = VClass(name, bases or [obj], ns or {}, builtin=True)
        b[name] = c
        return c
    dict_ns = {k: meth('dict.' + k, v) for k, v in DICT_METHODS.items()}
    dict_ns['fromkeys'] = VStaticMethod(Builtin('dict.fromkeys', d_fromkeys))
    dcls = bc('dict', dict_ns)
    lcls = bc('list', {k: meth('list.' + k, v) for k, v in LIST_METHODS.items()})
    for n in ('int', 'float', 'bool', 'str', 'tuple', 'set', 'frozenset', 'type', 'NoneType', 'slice', 'function', 'bytes', 'complex'):
        bc(n)
    b['bool'].bases = [b['int']]
    b['bool'].mro = [b['bool'], b['int'], obj]
    for name, parent in EXC_TREE.items():
        if name in b:
            continue
    order = list(EXC_TREE)
    for name in order:
        parent = b[EXC_TREE[name]]
        ns = {}
        if name == 'BaseException':
            ns = {'__init__': meth('BaseException.__init__', exc_init), '__str__': meth('BaseException.__str__', exc_str)}
        bc(name, ns, [parent])
    b['IOError'] = b['OSError']
    b['EnvironmentError'] = b['OSError']

    # class-call behaviour for builtin types: handled through __new__
    def tnew(fn):
        return VStaticMethod(Builtin('new', lambda I, _cls, *a, **k: fn(I, *a, **k)))

    def dict_new(I, _cls, *a, **k):
        if _cls is dcls:
            return b_dict(I, *a, **k)
        return new_object(I, _cls)

    def list_new(I, _cls, *a, **k):
        if _cls is lcls:
            return b_list(I, *a)
        return new_object(I, _cls)
    dcls.ns['__new__'] = VStaticMethod(Builtin('dict.__new__', dict_new))
    lcls.ns['__new__'] = VStaticMethod(Builtin('list.__new__', list_new))
    b['int'].ns['__new__'] = tnew(b_int)
    b['float'].ns['__new__'] = tnew(b_float)
    b['bool'].ns['__new__'] = tnew(b_bool)
    b['str'].ns['__new__'] = tnew(b_str)
    b['tuple'].ns['__new__'] = tnew(b_tuple)
    b['set'].ns['__new__'] = tnew(b_set)
    b['frozenset'].ns['__new__'] = tnew(b_set)
    b['type'].ns['__new__'] = tnew(b_type)
    b['slice'].ns['__new__'] = tnew(b_slice)
    b['set'].ns['intersection'] = Builtin('set.intersection', set_intersection)
    b['str'].ns['join'] = Builtin('str.join', lambda I, s, it: I.call(I.getattr(s, 'join'), [it], {}))
    b['float'].ns['is_integer'] = Builtin('float.is_integer', lambda I, v: I.call(num_getattr(I, v, 'is_integer'), [], {}))

    fns = dict(isinstance=b_isinstance, len=b_len, abs=b_abs, min=lambda I, *a, **k: _minmax(I, a, k, True),
               max=lambda I, *a, **k: _minmax(I, a, k, False), zip=b_zip, enumerate=b_enumerate, range=b_range,
               sorted=b_sorted, sum=b_sum, any=b_any, all=b_all, getattr=b_getattr, hasattr=b_hasattr,
               setattr=b_setattr, delattr=lambda I, o, n: I.delattr(o, n), callable=b_callable, issubclass=b_issubclass, round=b_round, super=b_super,
               print=b_print, id=b_id, hash=b_hash, iter=b_iter, next=b_next, reversed=b_reversed, map=b_map,
               filter=b_filter, format=b_format, divmod=b_divmod, repr=b_repr, property=b_property)
    for k, v in fns.items():
        b[k] = Builtin(k, v)
    b['open'] = Builtin('open', lambda I, *a, **k: I.call(I.import_module('externals.os_model').ns['open_'], list(a), k))
    b['classmethod'] = Builtin('classmethod', lambda I, f: VClassMethod(f))
    b['staticmethod'] = Builtin('staticmethod', lambda I, f: VStaticMethod(f))
    b['NotImplemented'] = _im().NOTIMPL
    b['Ellipsis'] = Ellipsis
    b['__debug__'] = True
    b['True'], b['False'], b['None'] = True, False, None
    return b


from .stdlib_models import make_ext_modules  # noqa: E402,F401
