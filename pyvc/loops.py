"""loop contracts: `for i in range(n)` with a symbolic bound is verified against an inductive invariant from the sidecar
(Hoare rule, no unrolling, no bound):

   establish   the invariant holds for i = 0 in the state at loop entry                      (obligation)
   preserve    from an arbitrary state satisfying the invariant with 0 <= i < n, one execution of the real loop body
               re-establishes it for i + 1                                                   (obligation; this path then ends)
   use         after the loop the modified variables are arbitrary except that the invariant holds for i = max(n, 0)

"arbitrary state" = every variable assigned in the body (and the contents of every array subscript-assigned in it) is replaced by
a fresh symbol.  The invariant is a function of the loop variable and of local variables, bound by name."""
import ast
import os

import z3

from .values import Arr, Sym, Unsupported, VFunc, mk, zbool, zint


class LoopPathEnd(Exception):
    """the 'preserve' path of a loop contract stops after its obligation (it does not reach the function's postcondition)"""


def modified_names(body):
    names, arrays = set(), set()

    def target(t):
        if isinstance(t, ast.Name):
            names.add(t.id)
        elif isinstance(t, (ast.Tuple, ast.List)):
            for e in t.elts:
                target(e)
        elif isinstance(t, ast.Subscript) and isinstance(t.value, ast.Name):
            arrays.add(t.value.id)
        elif isinstance(t, ast.Attribute):
            raise Unsupported('loop body assigns an attribute (not covered by loop contracts)')
    for st in body:
        for n in ast.walk(st):
            if isinstance(n, ast.Assign):
                for t in n.targets:
                    target(t)
            elif isinstance(n, (ast.AugAssign, ast.AnnAssign)):
                target(n.target)
            elif isinstance(n, ast.For):
                target(n.target)
            elif isinstance(n, (ast.Break, ast.Continue, ast.Return, ast.While)):
                if isinstance(n, (ast.Break, ast.Return, ast.While)):
                    raise Unsupported(f'{type(n).__name__.lower()} inside a loop under contract')
    return names, arrays


def formula(I, fn, kwargs):
    """evaluate a pure boolean function symbolically in sub-explorations of the current path; -> z3 Bool (new facts are kept)"""
    from .interp import explore
    ctx = I.ctx
    depth = I.depth
    base_pc, base_facts = list(ctx.pc), list(ctx.facts)

    def run(c2):
        c2.pc = list(base_pc)
        c2.facts = list(base_facts)
        c2.n_fresh = ctx.n_fresh + 5000
        c2.trig_cache = ctx.trig_cache
        c2.ghost = ctx.ghost
        c2.base_pc_len = len(base_pc)
        c2.lemmas = []
        I.ctx = c2
        I.depth = 0
        v = I.call(fn, [], kwargs)
        if isinstance(v, Sym):
            v = zbool(v)
        else:
            v = z3.BoolVal(I.truth(v))
        return ('return', v)
    try:
        results = explore(run, max_paths=200)
    finally:
        I.ctx = ctx
        I.depth = depth
    goals = []
    for c2, out in results:
        if out[0] == 'infeasible':
            # definitional facts (e.g. the identity of a cos/sin pair first met on this sub-path) hold regardless
            for fct in c2.facts[len(base_facts):]:
                ctx.fact(fct)
            continue
        if out[0] != 'return':
            raise Unsupported('in loop invariant: ' + str(out[1]))
        extra = c2.pc[len(base_pc):]
        for ent in c2.side:
            # obligations raised while evaluating the invariant (e.g. the precondition of a lemma applied there)
            ctx.side.append((ent[0], ent[1], list(ent[2]), list(c2.facts)))
        for (ln, lc, lpc, lfacts) in getattr(c2, 'lemmas', []):
            # a proof step written inside the invariant: its own obligation under what is known here, then available
            ctx.side.append((f'loop-lemma {ln}', lc, list(lpc), list(lfacts)))
        for fct in c2.facts[len(base_facts):]:
            ctx.fact(fct)      # definitional facts only (see vc.eval_clause)
        goals.append(z3.Implies(z3.And(*extra), out[1]) if extra else out[1])
    ctx.n_fresh += 1
    if not goals:
        # every sub-path infeasible: the current state itself is contradictory (nothing to assume or to prove here)
        if os.environ.get('VERIF_DEBUG'):
            print('loop formula: no feasible sub-path', [o[0] for _, o in results])
        return z3.BoolVal(True)
    return z3.And(*goals) if len(goals) != 1 else goals[0]


def inv_args(I, fn, f, loopvar, ival):
    kw = {}
    a = fn.node.args
    for p in a.args + a.kwonlyargs:
        nm = p.arg
        if nm == loopvar:
            kw[nm] = ival
        elif nm in f.locals:
            kw[nm] = f.locals[nm]
        elif nm in getattr(I.ctx, 'skolems', {}):
            kw[nm] = I.ctx.skolems[nm]
        elif nm in getattr(I.ctx, 'args', {}):
            kw[nm] = I.ctx.args[nm]          # a ghost parameter of the contract
        else:
            raise Unsupported(f'loop invariant refers to {nm!r}, which is not a local variable at the loop')
    return kw


def havoc(I, f, names, arrays, key):
    ctx = I.ctx
    for nm in sorted(names):
        if nm not in f.locals:
            continue            # first assigned inside the loop
        v = f.locals[nm]
        if isinstance(v, bool) or (isinstance(v, Sym) and v.kind == 'bool'):
            f.locals[nm] = ctx.fresh(f'{nm}@{key}', 'bool')
        elif isinstance(v, int) or (isinstance(v, Sym) and v.kind == 'int'):
            f.locals[nm] = ctx.fresh(f'{nm}@{key}', 'int')
        elif isinstance(v, float) or (isinstance(v, Sym) and v.kind == 'real') or type(v).__name__ == 'Fraction':
            f.locals[nm] = ctx.fresh(f'{nm}@{key}', 'real')
        else:
            raise Unsupported(f'loop modifies {nm!r} of a type loop contracts do not cover ({type(v).__name__})')
    for nm in sorted(arrays):
        a = f.locals.get(nm)
        if not isinstance(a, Arr):
            raise Unsupported(f'loop writes items of {nm!r}, which is not an array')
        ctx.n_fresh += 1
        sort = {'float': z3.RealSort(), 'int': z3.IntSort(), 'bool': z3.BoolSort()}.get(a.dtype or 'float')
        if sort is None:
            raise Unsupported('array dtype in loop')
        F = z3.Function(f'{nm}@{key}!{ctx.n_fresh}', *([z3.IntSort()] * len(a.shape)), sort)
        kind = {'float': 'real', 'int': 'int', 'bool': 'bool'}[a.dtype or 'float']
        a.fn = (lambda F, kind: lambda idx: mk(F(*[zint(i) for i in idx]), kind))(F, kind)
        from .values import _ids
        a.cid = next(_ids)


def for_with_invariant(I, s, f, key, spec, n):
    ctx = I.ctx
    loopvar = s.target.id
    names, arrays = modified_names(s.body)
    names.discard(loopvar)
    # establish
    g0 = formula(I, spec, inv_args(I, spec, f, loopvar, 0))
    ctx.oblige(f'loop {key}: invariant holds on entry', g0)
    ctx.n_fresh += 1
    mode = ctx.fresh(f'loopmode@{key}', 'bool')
    preserve = ctx.branch(mode.e)
    havoc(I, f, names, arrays, key)
    if preserve:
        i = ctx.fresh(f'{loopvar}@{key}', 'int')
        ctx.assume(z3.And(i.e >= 0, i.e < zint(n)))
        ctx.assume(formula(I, spec, inv_args(I, spec, f, loopvar, i)))
        if not ctx.feasible(z3.BoolVal(True)):
            from .interp import Infeasible
            raise Infeasible()
        f.locals[loopvar] = i
        from .interp import _Continue
        try:
            I.exec_block(s.body, f)
        except _Continue:
            pass
        g1 = formula(I, spec, inv_args(I, spec, f, loopvar, mk(i.e + 1, 'int')))
        ctx.oblige(f'loop {key}: invariant preserved by the body', g1)
        raise LoopPathEnd(key)
    # use: state after the loop
    ne = zint(n)
    iexit = mk(z3.If(ne > 0, ne, z3.IntVal(0)), 'int')
    ctx.assume(formula(I, spec, inv_args(I, spec, f, loopvar, iexit)))
    if loopvar in f.locals:
        f.locals[loopvar] = ctx.fresh(f'{loopvar}@{key}.after', 'int')
