"""host-side builtins and generic protocols of the pyvc interpreter (A-PY: assumed CPython semantics)"""
import math
from fractions import Fraction

import z3

from .values import (MISSING, Arr, BoundMethod, Builtin, Fmt, ModuleNS, Rope, ShapeTag, Sym, Unsupported, VClass,
                     VClassMethod, VDict, VFunc, VList, VObj, VProperty, VSet, VSlice, VStaticMethod, is_num, is_sym,
                     kind_of, mk, zbool, zint, zreal)

NUM = (int, float, Fraction)


def _interp_mod():
    from . import interp
    return interp


# ---------------------------------------------------------------------------- helpers
def host_type_name(v):
    if isinstance(v, Sym):
        return {'int': 'int', 'real': 'float', 'bool': 'bool'}[v.kind]
    if isinstance(v, VDict):
        return 'dict'
    if isinstance(v, VList):
        return 'list'
    if isinstance(v, Rope):
        return 'str'
    if isinstance(v, Arr):
        return 'ndarray'
    return type(v).__name__


def truth(I, v):
    if isinstance(v, VDict):
        I.resolve_all(v)
        return len(v.d) > 0
    if isinstance(v, VList):
        return len(v.l) > 0
    if isinstance(v, VSet):
        return len(v.s) > 0
    if isinstance(v, VObj):
        m = I.find_method(v, '__bool__')
        if m is not None:
            return I.truth(I.call(m, [], {}))
        if v.dictdata is not None:
            return truth(I, v.dictdata)
        if v.listdata is not None:
            return truth(I, v.listdata)
        m = I.find_method(v, '__len__')
        if m is not None:
            return I.truth(I.compare('!=', I.call(m, [], {}), 0))
        return True
    if isinstance(v, Arr):
        if v.shape == ():
            return I.truth(v.fn(()))
        I.throw('ValueError', 'The truth value of an array with more than one element is ambiguous')
    if isinstance(v, Rope):
        return True
    if isinstance(v, (VClass, VFunc, Builtin, BoundMethod, ModuleNS, VSlice)):
        return True
    if isinstance(v, frozenset):
        return bool(v)
    if type(v).__name__ in ('Match', 'Pattern'):
        return True
    raise Unsupported(f'truth of {type(v).__name__}')


def iterate(I, v, lazy_ok=False):
    if isinstance(v, (tuple, list)):
        return list(v)
    if isinstance(v, VList):
        return list(v.l)
    if isinstance(v, VDict):
        I.resolve_all(v)
        return list(v.d.keys())
    if isinstance(v, VSet):
        return list(v.s)
    if isinstance(v, str):
        return list(v)
    if isinstance(v, range):
        return list(v)
    if isinstance(v, frozenset):
        return list(v)
    if isinstance(v, Lazy):
        return v.take(I)
    if isinstance(v, VObj):
        if v.listdata is not None:
            return list(v.listdata.l)
        if v.dictdata is not None:
            return iterate(I, v.dictdata)
        m = I.find_method(v, '__iter__')
        if m is not None:
            return iterate(I, I.call(m, [], {}))
    if isinstance(v, Arr):
        if isinstance(v.shape, tuple) and len(v.shape) >= 1 and isinstance(v.shape[0], int):
            return [arr_index(I, v, i) for i in range(v.shape[0])]
        raise Unsupported('iteration over array of symbolic length')
    I.throw('TypeError', f'{host_type_name(v)!r} object is not iterable')


class Lazy:
    """itertools.cycle / chain: possibly infinite; zip() truncates"""

    def __init__(self, kind, parts):
        self.kind, self.parts = kind, parts
        self.pos = 0
        self.static = False

    def nth(self, I, n):
        if self.kind == 'cycle':
            items = self.parts
            if not items:
                return MISSING
            return items[n % len(items)]
        if self.kind == 'chain':
            for p in self.parts:
                if isinstance(p, Lazy):
                    r = p.nth(I, n)
                    if r is not MISSING:
                        return r
                    raise Unsupported('chain after infinite')
                if n < len(p):
                    return p[n]
                n -= len(p)
            return MISSING
        raise Unsupported(self.kind)

    def infinite(self):
        return self.kind == 'cycle' or any(isinstance(p, Lazy) and p.infinite() for p in self.parts)

    def take(self, I, n=None):
        if n is None:
            if self.infinite():
                raise Unsupported('unbounded iteration over infinite iterator')
            n = 10 ** 9
        out = []
        for i in range(n):
            r = self.nth(I, self.pos)
            if r is MISSING:
                break
            if self.static:
                I.ctx.event('iterator_advance', target='module-level iterator', period=len(self.parts) if self.kind == 'cycle' else None)
            self.pos += 1
            out.append(r)
        return out


def dict_items(I, v):
    if isinstance(v, VDict):
        I.resolve_all(v)
        return list(v.d.items())
    if isinstance(v, VObj) and v.dictdata is not None:
        I.resolve_all(v.dictdata)
        return list(v.dictdata.d.items())
    I.throw('TypeError', 'argument after ** must be a mapping')


def dd(I, v):
    """underlying VDict of a dict-like value"""
    if isinstance(v, VDict):
        return v
    if isinstance(v, VObj) and v.dictdata is not None:
        return v.dictdata
    return None


def ll(v):
    if isinstance(v, VList):
        return v
    if isinstance(v, VObj) and v.listdata is not None:
        return v.listdata
    return None


def norm_index(I, i, n):
    if isinstance(i, Sym):
        raise Unsupported('symbolic sequence index')
    if isinstance(i, bool) or not isinstance(i, int):
        I.throw('TypeError', 'indices must be integers')
    if i < 0:
        i += n
    if not 0 <= i < n:
        I.throw('IndexError', 'index out of range')
    return i


def pyslice(I, s):
    for x in (s.start, s.stop, s.step):
        if isinstance(x, Sym):
            raise Unsupported('symbolic slice of python sequence')
    return slice(s.start, s.stop, s.step)


def getitem(I, o, k):
    if isinstance(o, VObj):
        m = I.find_method(o, '__getitem__')
        if m is not None:
            return I.call(m, [k], {})
        cg, _ = o.cls.lookup('__class_getitem__')
        I.throw('TypeError', f'{o.cls.name!r} object is not subscriptable')
    if isinstance(o, VDict):
        return dict_getitem(I, o, k)
    if isinstance(o, (tuple, str)):
        if isinstance(k, VSlice):
            return o[pyslice(I, k)]
        return o[norm_index(I, k, len(o))]
    if isinstance(o, VList):
        if isinstance(k, VSlice):
            return VList(o.l[pyslice(I, k)])
        return o.l[norm_index(I, k, len(o.l))]
    if isinstance(o, Arr):
        return arr_index(I, o, k)
    if isinstance(o, Rope):
        return rope_getitem(I, o, k)
    if isinstance(o, range):
        return o[k]
    if isinstance(o, Sym) or isinstance(o, NUM):
        I.throw('TypeError', f'{host_type_name(o)!r} object is not subscriptable')
    if o is None:
        I.throw('TypeError', "'NoneType' object is not subscriptable")
    if isinstance(o, VClass):
        return o          # typing generics
    if hasattr(o, 'host_getitem'):
        return o.host_getitem(I, k)
    raise Unsupported(f'getitem on {type(o).__name__}')


def dict_getitem(I, d, k):
    k = I.hashable(k)
    I.resolve_maybe(d, k)
    if k in d.d:
        return d.d[k]
    I.throw('KeyError', k)


def setitem(I, o, k, v):
    if isinstance(o, VObj):
        m = I.find_method(o, '__setitem__')
        if m is not None:
            return I.call(m, [k, v], {})
        I.throw('TypeError', 'object does not support item assignment')
    if isinstance(o, VDict):
        k = I.hashable(k)
        I.write(o, f'item {k!r}', key=k)
        o.maybe.pop(k, None)
        o.d[k] = v
        return
    if isinstance(o, VList):
        I.write(o, 'list item')
        if isinstance(k, VSlice):
            o.l[pyslice(I, k)] = I.iterate(v)
        else:
            o.l[norm_index(I, k, len(o.l))] = v
        return
    if isinstance(o, Arr):
        return arr_setitem(I, o, k, v)
    if isinstance(o, tuple):
        I.throw('TypeError', "'tuple' object does not support item assignment")
    raise Unsupported(f'setitem on {type(o).__name__}')


def delitem(I, o, k):
    d = dd(I, o)
    if d is not None:
        k = I.hashable(k)
        I.resolve_maybe(d, k)
        if k not in d.d:
            I.throw('KeyError', k)
        I.write(d, f'del item {k!r}', key=k)
        del d.d[k]
        return
    l = ll(o)
    if l is not None:
        I.write(l, 'del list item')
        if isinstance(k, VSlice):
            del l.l[pyslice(I, k)]
        else:
            del l.l[norm_index(I, k, len(l.l))]
        return
    raise Unsupported('delitem')


def contains(I, c, item):
    if isinstance(c, VObj):
        m = I.find_method(c, '__contains__')
        if m is not None:
            r = I.call(m, [item], {})
            return r if isinstance(r, Sym) else I.truth(r)
        if c.dictdata is not None:
            return contains(I, c.dictdata, item)
        if c.listdata is not None:
            return contains(I, c.listdata, item)
        m = I.find_method(c, '__iter__')
        if m is not None:
            return contains(I, VList(I.iterate(c)), item)
        I.throw('TypeError', 'argument is not iterable')
    if isinstance(c, VDict):
        item = I.hashable(item)
        I.resolve_maybe(c, item)
        return item in c.d
    if isinstance(c, (tuple, list, VList, VSet, frozenset, range)):
        items = c.l if isinstance(c, VList) else c.s if isinstance(c, VSet) else list(c)
        acc = []
        for x in items:
            r = equal(I, item, x)
            if r is True:
                return True
            if r is False:
                continue
            acc.append(zbool(r))
        if acc:
            return mk(z3.Or(*acc), 'bool')
        return False
    if isinstance(c, str):
        if isinstance(item, DigitChar):
            if all(d in c for d in '0123456789'):
                return True
            if not any(d in c for d in '0123456789'):
                return False
            raise Unsupported('membership of an unknown digit character')
        if isinstance(item, str):
            return item in c
        if isinstance(item, Rope):
            raise Unsupported('rope in str')
        I.throw('TypeError', "'in <string>' requires string as left operand")
    if isinstance(c, Rope):
        return rope_contains(I, c, item)
    if c is None:
        I.throw('TypeError', "argument of type 'NoneType' is not iterable")
    raise Unsupported(f'in on {type(c).__name__}')


# ---------------------------------------------------------------------------- equality / comparison
def equal(I, a, b):
    """== : returns bool or Sym bool"""
    if isinstance(a, DigitChar) or isinstance(b, DigitChar):
        o = b if isinstance(a, DigitChar) else a
        if isinstance(o, str) and len(o) == 1 and not o.isdigit():
            return False
        if isinstance(o, str) and len(o) != 1:
            return False
        raise Unsupported('comparison of an unknown digit character')
    if isinstance(a, VObj) or isinstance(b, VObj):
        for x, y in ((a, b), (b, a)):
            if isinstance(x, VObj):
                m = I.find_method(x, '__eq__')
                if m is not None and not (isinstance(m, BoundMethod) and isinstance(m.func, Builtin) and m.func.name == 'object.__eq__'):
                    r = I.call(m, [y], {})
                    if r is not _interp_mod().NOTIMPL:
                        return r
        da, db = dd(I, a), dd(I, b)
        if da is not None and db is not None:
            return equal(I, da, db)
        la, lb = ll(a), ll(b)
        if la is not None and lb is not None:
            return equal(I, la, lb)
        return a is b
    if a is None or b is None:
        return a is b
    if isinstance(a, Arr) or isinstance(b, Arr):
        return arr_binary(I, lambda x, y: equal(I, x, y), a, b, 'bool')
    na, nb = is_numlike(a), is_numlike(b)
    if na and nb:
        if isinstance(a, Sym) or isinstance(b, Sym):
            ka, kb = kind_of(a), kind_of(b)
            if ka == 'bool' and kb == 'bool':
                return mk(zbool(a) == zbool(b), 'bool')
            if 'real' in (ka, kb):
                return mk(zreal(a) == zreal(b), 'bool')
            return mk(zint(a) == zint(b), 'bool')
        return a == b
    if na != nb:
        return False
    if isinstance(a, str) and isinstance(b, str):
        return a == b
    if isinstance(a, (str, Rope)) and isinstance(b, (str, Rope)):
        return rope_equal(I, a, b)
    if isinstance(a, tuple) and isinstance(b, tuple):
        return seq_equal(I, a, b)
    if isinstance(a, VList) and isinstance(b, VList):
        return seq_equal(I, a.l, b.l)
    if isinstance(a, VDict) and isinstance(b, VDict):
        I.resolve_all(a)
        I.resolve_all(b)
        if set(a.d.keys()) != set(b.d.keys()):
            return False
        return seq_equal(I, [a.d[k] for k in a.d], [b.d[k] for k in a.d])
    if isinstance(a, VSet) and isinstance(b, VSet):
        return set(a.s) == set(b.s)
    if isinstance(a, VSlice) and isinstance(b, VSlice):
        return seq_equal(I, (a.start, a.stop, a.step), (b.start, b.stop, b.step))
    if type(a) is not type(b) and not (isinstance(a, (tuple, VList)) and isinstance(b, (tuple, VList))):
        if isinstance(a, (VClass, VFunc, Builtin, ModuleNS)) or isinstance(b, (VClass, VFunc, Builtin, ModuleNS)):
            return a is b
        return False
    if isinstance(a, (VClass, VFunc, Builtin, ModuleNS)):
        return a is b
    if isinstance(a, BoundMethod):
        return a.self_ is b.self_ and a.func is b.func
    if isinstance(a, (tuple, VList)):
        return False
    return a == b


def is_numlike(v):
    return isinstance(v, (int, float, Fraction, bool)) or isinstance(v, Sym)


def seq_equal(I, a, b):
    if len(a) != len(b):
        return False
    acc = []
    for x, y in zip(a, b):
        r = equal(I, x, y)
        if isinstance(r, Arr):
            raise Unsupported('array inside sequence equality')
        if r is False:
            return False
        if r is True:
            continue
        if not isinstance(r, Sym):
            r = I.truth(r)
            if not r:
                return False
            continue
        acc.append(zbool(r))
    if acc:
        return mk(z3.And(*acc), 'bool')
    return True


def compare(I, op, a, b):
    if op == '==':
        return equal(I, a, b)
    if op == '!=':
        if isinstance(a, VObj):
            m = I.find_method(a, '__ne__')
            if m is not None and not isinstance(getattr(m, 'func', None), Builtin):
                return I.call(m, [b], {})
        r = equal(I, a, b)
        return logical_not(I, r)
    IM = _interp_mod()
    if isinstance(a, VObj) or isinstance(b, VObj):
        if isinstance(a, VObj):
            m = I.find_method(a, '__' + IM.CMPDUNDER[op] + '__')
            if m is not None:
                r = I.call(m, [b], {})
                if r is not IM.NOTIMPL:
                    return r
        if isinstance(b, VObj):
            m = I.find_method(b, '__' + IM.CMPDUNDER[IM.CMPSWAP[op]] + '__')
            if m is not None:
                r = I.call(m, [a], {})
                if r is not IM.NOTIMPL:
                    return r
        I.throw('TypeError', f"'{op}' not supported between instances of {I.type_name(a)!r} and {I.type_name(b)!r}")
    if isinstance(a, Arr) or isinstance(b, Arr):
        return arr_binary(I, lambda x, y: compare(I, op, x, y), a, b, 'bool')
    if is_numlike(a) and is_numlike(b):
        if isinstance(a, Sym) or isinstance(b, Sym):
            if 'real' in (kind_of(a), kind_of(b)):
                x, y = zreal(a), zreal(b)
            else:
                x, y = zint(a), zint(b)
            e = {'<': x < y, '<=': x <= y, '>': x > y, '>=': x >= y}[op]
            return mk(e, 'bool')
        return {'<': a < b, '<=': a <= b, '>': a > b, '>=': a >= b}[op]
    if isinstance(a, str) and isinstance(b, str):
        return {'<': a < b, '<=': a <= b, '>': a > b, '>=': a >= b}[op]
    if isinstance(a, tuple) and isinstance(b, tuple):
        try:
            return {'<': a < b, '<=': a <= b, '>': a > b, '>=': a >= b}[op]
        except TypeError:
            # lexicographic order with symbolic numbers: a < b  iff  some position k has a[k] < b[k] with all earlier ones equal
            if not all(is_numlike(x) and not isinstance(x, bool) for x in a + b):
                raise Unsupported('tuple ordering with non-numeric symbolic parts')
            strict = op in ('<', '>')
            lt = '<' if op in ('<', '<=') else '>'
            disj = []
            eqs = []
            for x, y in zip(a, b):
                c = compare(I, lt, x, y)
                disj.append(z3.And(*(eqs + [zbool(c) if isinstance(c, Sym) else z3.BoolVal(bool(c))])))
                e = equal(I, x, y)
                eqs.append(zbool(e) if isinstance(e, Sym) else z3.BoolVal(bool(e)))
            if len(a) != len(b):
                shorter_first = (len(a) < len(b)) == (lt == '<')
                disj.append(z3.And(*eqs) if shorter_first else z3.BoolVal(False))
            elif not strict:
                disj.append(z3.And(*eqs))
            return mk(z3.Or(*disj), 'bool')
    I.throw('TypeError', f"'{op}' not supported between instances of {host_type_name(a)!r} and {host_type_name(b)!r}")


def logical_not(I, r):
    if isinstance(r, Sym):
        return mk(z3.Not(zbool(r)), 'bool')
    if isinstance(r, Arr):
        return arr_map(I, lambda x: logical_not(I, x), r, dtype='bool')
    return not I.truth(r)


# ---------------------------------------------------------------------------- arithmetic
def num_binop(I, op, a, b):
    sym = isinstance(a, Sym) or isinstance(b, Sym)
    if not sym:
        try:
            if op == '+':
                return a + b
            if op == '-':
                return a - b
            if op == '*':
                return a * b
            if op == '/':
                if isinstance(a, (int, Fraction)) and isinstance(b, (int, Fraction)) and not isinstance(a, bool) and b != 0:
                    r = Fraction(a) / Fraction(b)
                    fl = float(r)
                    return fl if Fraction(fl) == r else r
                return a / b
            if op == '//':
                return a // b
            if op == '%':
                return a % b
            if op == '**':
                return a ** b
            if op == '<<':
                return a << b
            if op == '>>':
                return a >> b
            if op == '|':
                return a | b
            if op == '&':
                return a & b
            if op == '^':
                return a ^ b
        except ZeroDivisionError:
            I.throw('ZeroDivisionError', 'division by zero')
        except TypeError as e:
            I.throw('TypeError', str(e))
        raise Unsupported(f'numeric op {op}')
    ka, kb = kind_of(a), kind_of(b)
    if op in ('|', '&', '^'):
        if ka == 'bool' and kb == 'bool':
            x, y = zbool(a), zbool(b)
            return mk({'|': z3.Or(x, y), '&': z3.And(x, y), '^': z3.Xor(x, y)}[op], 'bool')
        if ka in ('int', 'bool') and kb in ('int', 'bool'):
            # bitwise ops on symbolic ints are modelled on {0, 1} only (soft side condition: outside it the path is undecided)
            x, y = zint(a), zint(b)
            I.ctx.oblige('model-limit: bitwise operands are 0/1', z3.And(z3.Or(x == 0, x == 1), z3.Or(y == 0, y == 1)), soft=True)
            e = {'&': x * y, '|': x + y - x * y, '^': x + y - 2 * x * y}[op]
            return mk(e, 'int')
        raise Unsupported(f'bitwise op on symbolic non-integers ({ka}, {kb}: {a!r} {op} {b!r})'[:300])
    real = 'real' in (ka, kb) or op == '/'
    if op == '**':
        if isinstance(b, Sym):
            raise Unsupported('symbolic exponent')
        if isinstance(b, int) and not isinstance(b, bool):
            if b >= 0:
                base = zreal(a) if real or ka == 'real' else zint(a)
                r = z3.RealVal(1) if (real or ka == 'real') else z3.IntVal(1)
                for _ in range(b):
                    r = r * base
                return mk(r, 'real' if (real or ka == 'real') else 'int')
            r = z3.RealVal(1)
            for _ in range(-b):
                r = r * zreal(a)
            return mk(1 / r, 'real')
        if b == 0.5:
            return sqrt_(I, a)
        if float(b).is_integer():
            return num_binop(I, op, a, int(b)) if isinstance(a, Sym) and False else mk_pow_real(I, a, int(b))
        raise Unsupported('non-integer exponent')
    if real:
        x, y = zreal(a), zreal(b)
        if op == '+':
            return mk(x + y, 'real')
        if op == '-':
            return mk(x - y, 'real')
        if op == '*':
            return mk(x * y, 'real')
        if op == '/':
            if not isinstance(b, Sym) and b == 0:
                I.throw('ZeroDivisionError', 'division by zero')
            return mk(x / y, 'real')
        if op in ('%', '//'):
            # Python: x // y = floor(x / y), x % y = x - y * floor(x / y) (sign of the divisor); floor is z3's ToInt on reals
            if isinstance(b, Sym):
                if not I.ctx.branch(y != 0):
                    I.throw('ZeroDivisionError', 'float modulo' if op == '%' else 'float floor division by zero')
            elif b == 0:
                I.throw('ZeroDivisionError', 'float modulo' if op == '%' else 'float floor division by zero')
            fl = z3.ToReal(z3.ToInt(x / y))
            return mk(fl if op == '//' else x - y * fl, 'real')
        raise Unsupported(f'real op {op}')
    x, y = zint(a), zint(b)
    if op == '+':
        return mk(x + y, 'int')
    if op == '-':
        return mk(x - y, 'int')
    if op == '*':
        return mk(x * y, 'int')
    if op in ('//', '%'):
        if isinstance(b, Sym):
            # symbolic divisor: Python's floor semantics coincide with z3's for a positive divisor
            if not I.ctx.branch(y != 0):
                I.throw('ZeroDivisionError', 'integer division or modulo by zero')
            if not I.ctx.branch(y > 0):
                raise Unsupported('floor division / modulo by a negative symbolic divisor')
            q, r = x / y, x % y
            # instances of the defining property (z3 treats division by a variable as nonlinear)
            I.ctx.fact(z3.And(r >= 0, r < y, x == q * y + r))
            I.ctx.fact(z3.Implies(z3.And(x >= 0, x < y), z3.And(r == x, q == 0)))
            I.ctx.fact(z3.Implies(z3.And(x >= y, x < 2 * y), z3.And(r == x - y, q == 1)))
            I.ctx.fact(z3.Implies(z3.And(x >= -y, x < 0), z3.And(r == x + y, q == -1)))
            return mk(q if op == '//' else r, 'int')
        if b <= 0:
            raise Unsupported('floor division by a non-positive divisor')
        return mk(x / y if op == '//' else x % y, 'int')
    raise Unsupported(f'int op {op}')


def mk_pow_real(I, a, n):
    r = z3.RealVal(1)
    for _ in range(abs(n)):
        r = r * zreal(a)
    return mk(r if n >= 0 else 1 / r, 'real')


SQRTF = z3.Function('sqrtf', z3.RealSort(), z3.RealSort())


def sqrt_(I, a):
    """real square root: fresh s >= 0 with s*s == a (requires a >= 0: side obligation otherwise nan)"""
    if not isinstance(a, Sym):
        if a < 0:
            return float('nan')
        return math.sqrt(a)
    key = ('sqrt', a.e.get_id())
    c = I.ctx.trig_cache.get(key)
    if c is None:
        s = Sym(SQRTF(zreal(a)), 'real')
        I.ctx.fact(z3.Implies(zreal(a) >= 0, z3.And(s.e >= 0, s.e * s.e == zreal(a))))
        I.ctx.trig_cache[key] = (s, a)
        c = (s, a)
    return c[0]


def binop(I, op, a, b, inplace=False):
    IM = _interp_mod()
    if isinstance(a, VObj) or isinstance(b, VObj):
        name = IM.DUNDER[op]
        if isinstance(a, VObj):
            if inplace:
                m = I.find_method(a, f'__i{name}__')
                if m is not None:
                    r = I.call(m, [b], {})
                    if r is not IM.NOTIMPL:
                        return r
            m = I.find_method(a, f'__{name}__')
            if m is not None:
                r = I.call(m, [b], {})
                if r is not IM.NOTIMPL:
                    return r
        if isinstance(b, VObj):
            m = I.find_method(b, f'__r{name}__')
            if m is not None:
                r = I.call(m, [a], {})
                if r is not IM.NOTIMPL:
                    return r
        # dict / list subclasses fall through to the container behaviour
        if dd(I, a) is None and ll(a) is None and dd(I, b) is None and ll(b) is None:
            I.throw('TypeError', f"unsupported operand type(s) for {op}: {I.type_name(a)!r} and {I.type_name(b)!r}")
    if isinstance(a, Arr) or isinstance(b, Arr):
        if inplace and isinstance(a, Arr):
            return arr_inplace(I, op, a, b)
        if op == '@':
            return I.ext_modules['numpy'].ns['matmul'].fn(I, a, b)
        return arr_binary(I, lambda x, y: binop(I, op, x, y), a, b, None)
    if is_numlike(a) and is_numlike(b):
        return num_binop(I, op, a, b)
    if op == '+':
        if isinstance(a, (str, Rope)) and isinstance(b, (str, Rope)):
            if isinstance(a, str) and isinstance(b, str):
                return a + b
            return Rope([a, b])
        if isinstance(a, tuple) and isinstance(b, tuple):
            return a + b
        la, lb = ll(a), ll(b)
        if la is not None and lb is not None:
            if inplace:
                I.write(la, 'list +=')
                la.l.extend(lb.l)
                return a
            return VList(la.l + lb.l)
        if la is not None and inplace:
            I.write(la, 'list +=')
            la.l.extend(I.iterate(b))
            return a
    if op == '*':
        for x, y in ((a, b), (b, a)):
            if isinstance(y, int) and not isinstance(y, bool):
                if isinstance(x, (str, tuple)):
                    return x * y
                if isinstance(x, VList):
                    return VList(x.l * y)
    if op == '%' and isinstance(a, str):
        vals = tuple(b) if isinstance(b, tuple) else (b,)
        if all(isinstance(v, (str, int, float)) for v in vals):
            return a % (vals if isinstance(b, tuple) else b)
        raise Unsupported('% formatting with symbolic values')
    if op in ('|', '&', '^', '-'):
        if isinstance(a, VSet) and isinstance(b, VSet):
            if op == '|':
                return VSet(a.s + b.s)
            if op == '&':
                return VSet([x for x in a.s if x in b.s])
            if op == '-':
                return VSet([x for x in a.s if x not in b.s])
            return VSet([x for x in a.s if x not in b.s] + [x for x in b.s if x not in a.s])
        da, db = dd(I, a), dd(I, b)
        if op == '|' and da is not None and db is not None:
            I.resolve_all(da)
            I.resolve_all(db)
            if inplace:
                # dict.__ior__ (inherited by dict subclasses): in-place update bypassing __setitem__
                I.write(da, 'dict |=')
                da.d.update(db.d)
                return a
            return VDict({**da.d, **db.d})
    I.throw('TypeError', f"unsupported operand type(s) for {op}: {host_type_name(a)!r} and {host_type_name(b)!r}")


# ---------------------------------------------------------------------------- arrays (A-NUMPY)
def arr_shape_of(v):
    return v.shape if isinstance(v, Arr) else ()


def shapes_equal(I, s1, s2):
    """True/False/Sym"""
    if isinstance(s1, ShapeTag) or isinstance(s2, ShapeTag):
        return s1 == s2
    if len(s1) != len(s2):
        return False
    acc = []
    for x, y in zip(s1, s2):
        r = equal(I, x, y)
        if r is False:
            return False
        if r is not True:
            acc.append(zbool(r))
    return mk(z3.And(*acc), 'bool') if acc else True


def broadcast_shape(I, s1, s2):
    if s1 == ():
        return s2
    if s2 == ():
        return s1
    if isinstance(s1, ShapeTag) or isinstance(s2, ShapeTag):
        if s1 == s2:
            return s1
        raise Unsupported(f'broadcast of opaque shapes {s1} {s2}')
    if len(s1) != len(s2):
        # numpy aligns shapes at the trailing dimension: the shorter one behaves as if it had leading dimensions of size 1
        k = abs(len(s1) - len(s2))
        if len(s1) < len(s2):
            s1 = (1,) * k + tuple(s1)
        else:
            s2 = (1,) * k + tuple(s2)
    out = []
    for x, y in zip(s1, s2):
        if isinstance(x, int) and x == 1:
            out.append(y)
            continue
        if isinstance(y, int) and y == 1:
            out.append(x)
            continue
        r = equal(I, x, y)
        if r is True:
            out.append(x)
        elif r is False:
            if x == 1:
                out.append(y)
            elif y == 1:
                out.append(x)
            else:
                I.throw('ValueError', 'operands could not be broadcast together')
        else:
            # symbolic dims: numpy requires equality (or 1); record as side obligation and continue with x
            I.ctx.oblige('numpy.broadcast: shapes agree', zbool(r))
            out.append(x)
    return tuple(out)


def arr_elem(v, idx, shape):
    if isinstance(v, (Arr, _Frozen)):
        if v.shape == ():
            return v.fn(())
        if isinstance(v.shape, tuple) and isinstance(shape, tuple) and len(v.shape) == len(shape):
            # size-1 broadcasting
            idx2 = tuple(0 if (isinstance(d, int) and d == 1 and not (isinstance(sd, int) and sd == 1)) else i
                         for i, d, sd in zip(idx, v.shape, shape))
            return v.fn(idx2)
        if isinstance(v.shape, tuple) and isinstance(shape, tuple) and len(v.shape) < len(shape):
            # lower rank: aligned at the trailing dimensions (the leading indices do not matter)
            k = len(shape) - len(v.shape)
            idx2 = tuple(0 if (isinstance(d, int) and d == 1 and not (isinstance(sd, int) and sd == 1)) else i
                         for i, d, sd in zip(idx[k:], v.shape, shape[k:]))
            return v.fn(idx2)
        return v.fn(idx)
    return v


class _Frozen:
    """the contents of an array at this moment (arrays are mutable; lazily evaluated results must not see later writes)"""

    def __init__(self, a):
        self.shape, self.fn, self.dtype, self.unit = a.shape, a.fn, a.dtype, a.unit


def _freeze(v):
    return _Frozen(v) if isinstance(v, Arr) else v


def arr_binary(I, f, a, b, dtype):
    shape = broadcast_shape(I, arr_shape_of(a), arr_shape_of(b))
    cache = {}
    res_dtype = dtype or result_dtype(a, b)
    ua, ub = getattr(a, 'unit', None), getattr(b, 'unit', None)
    a, b = _freeze(a), _freeze(b)

    def fn(idx):
        key = tuple(x.e.get_id() if isinstance(x, Sym) else x for x in idx)
        if key not in cache:
            cache[key] = f(arr_elem(a, idx, shape), arr_elem(b, idx, shape))
        return cache[key]
    r = Arr(shape, fn, res_dtype)
    r.unit = ua or ub
    return r


def result_dtype(a, b):
    def dt(v):
        if isinstance(v, Arr):
            return v.dtype
        if isinstance(v, bool) or (isinstance(v, Sym) and v.kind == 'bool'):
            return 'bool'
        if isinstance(v, int) or (isinstance(v, Sym) and v.kind == 'int'):
            return 'int'
        return 'float'
    order = ['bool', 'int', 'float']
    da, db = dt(a), dt(b)
    if da in order and db in order:
        return order[max(order.index(da), order.index(db))]
    return 'float'


def arr_map(I, f, a, dtype=None):
    cache = {}
    afn = a.fn

    def fn(idx):
        key = tuple(x.e.get_id() if isinstance(x, Sym) else x for x in idx)
        if key not in cache:
            cache[key] = f(afn(idx))
        return cache[key]
    r = Arr(a.shape, fn, dtype or a.dtype)
    r.unit = a.unit
    return r


def index_in_range(I, i, n, what):
    """numpy integer index i into a dimension of size n: negative indices wrap once, anything else out of range raises"""
    if type(i).__name__ == 'FlatIdx':
        return i
    if isinstance(i, Sym) or isinstance(n, Sym):
        neg = I.compare('<', i, 0)
        i2 = ite(I, neg, num_binop(I, '+', i, n), i)
        ok = mk(z3.And(zint(i2) >= 0, zint(i2) < zint(n)), 'bool')
        if not I.truth(ok):
            I.throw('IndexError', f'index out of bounds ({what})')
        return i2
    if i < 0:
        i += n
    if not 0 <= i < n:
        I.throw('IndexError', 'index out of bounds')
    return i


def slice_bounds(I, s, n, what):
    """(start, length) of a basic slice with unit step, with numpy's semantics: negative bounds wrap once, then both are
    clipped to [0, n]; an empty or inverted window has length 0"""
    if s.step not in (None, 1):
        raise Unsupported('slice step')
    start = 0 if s.start is None else s.start
    stop = n if s.stop is None else s.stop
    if any(isinstance(x, Sym) for x in (start, stop, n)):
        def norm(v):
            v = ite(I, I.compare('<', v, 0), num_binop(I, '+', v, n), v)
            v = ite(I, I.compare('<', v, 0), 0, v)
            return ite(I, I.compare('>', v, n), n, v)
        st, sp = norm(start), norm(stop)
        ln = num_binop(I, '-', sp, st)
        ln = ite(I, I.compare('<', ln, 0), 0, ln)
        return st, ln
    sl = slice(start, stop).indices(n)
    return sl[0], max(0, sl[1] - sl[0])


def arr_index(I, a, k):
    if isinstance(a.shape, ShapeTag):
        if isinstance(k, Arr) and k.dtype == 'bool':
            return bool_select(I, a, k)
        raise Unsupported('indexing an array of opaque shape')
    if not isinstance(k, tuple):
        k = (k,)
    if len(k) == 1 and isinstance(k[0], Arr) and k[0].dtype == 'bool':
        return bool_select(I, a, k[0])
    if Ellipsis in k:
        raise Unsupported('ellipsis index')
    if len(k) > len(a.shape):
        I.throw('IndexError', 'too many indices for array')
    k = tuple(k) + tuple(VSlice(None, None) for _ in range(len(a.shape) - len(k)))
    plan = []   # per source dim: ('int', i) | ('slice', start)
    shape = []
    for d, (kk, n) in enumerate(zip(k, a.shape)):
        if isinstance(kk, VSlice) and kk.step == -1 and kk.start is None and kk.stop is None:
            plan.append(('rev', n))
            shape.append(n)
        elif isinstance(kk, VSlice):
            st, ln = slice_bounds(I, kk, n, f'dim {d}')
            plan.append(('slice', st))
            shape.append(ln)
        elif isinstance(kk, (int, Sym)) and not isinstance(kk, bool):
            plan.append(('int', index_in_range(I, kk, n, f'dim {d}')))
        elif type(kk).__name__ == 'FlatIdx':
            plan.append(('int', kk))
        else:
            raise Unsupported(f'array index of type {type(kk).__name__}')
    if not shape:
        return a.fn(tuple(p[1] for p in plan))

    afn = a.fn      # contents at the time the view is taken (later writes to the base through other paths are not tracked)

    def fn(idx):
        src = []
        it = iter(idx)
        for kind, v in plan:
            if kind == 'int':
                src.append(v)
            elif kind == 'rev':
                src.append(num_binop(I, '-', num_binop(I, '-', v, 1), next(it)))
            else:
                src.append(num_binop(I, '+', next(it), v))
        return afn(tuple(src))
    r = Arr(tuple(shape), fn, a.dtype)
    r.base = a.base or a
    r.view_plan = plan
    r.unit = a.unit
    r.old = False
    return r


class Selected:
    """result of boolean-mask selection: the row-major sequence of values of `vals` where `mask` holds"""

    def __init__(self, vals, mask):
        self.vals, self.mask = vals, mask


def bool_select(I, a, m):
    se = shapes_equal(I, a.shape, m.shape)
    if se is False:
        I.throw('IndexError', 'boolean index did not match indexed array')
    if se is not True:
        I.ctx.oblige('numpy.boolean index shape matches', zbool(se))
    return Selected(a, m)


def arr_write_target(I, a, what):
    base = a.base or a
    from .values import _ids
    a.cid = next(_ids)
    base.cid = next(_ids)
    if base.old:
        I.ctx.event('frame', target=I.describe(base), where=what, static=False, pc=list(I.ctx.pc))


def arr_setitem(I, a, k, v):
    arr_write_target(I, a, 'array item assignment')
    if isinstance(k, Arr) and k.dtype == 'bool':
        se = shapes_equal(I, a.shape, k.shape)
        if se is False:
            I.throw('IndexError', 'boolean index did not match')
        if se is not True:
            I.ctx.oblige('numpy.boolean index shape matches', zbool(se))
        old = a.fn
        shape = a.shape

        def fn(idx):
            c = k.fn(idx)
            nv = arr_elem(v, idx, shape)
            ov = old(idx)
            return ite(I, c, nv, ov)
        a.fn = fn
        propagate_view_write(I, a)
        return
    if isinstance(k, (VList, list)) and len(a.shape) == 1:
        # integer-array ("fancy") assignment with concrete indices: element-wise
        idxs = list(k.l if isinstance(k, VList) else k)
        if not all(isinstance(i, int) and not isinstance(i, bool) for i in idxs):
            raise Unsupported('fancy index assignment with symbolic indices')
        old = a.fn
        vals = [(v.fn((j,)) if isinstance(v, Arr) and v.shape != () else (v.fn(()) if isinstance(v, Arr) else v)) for j in range(len(idxs))]
        table = dict(zip(idxs, vals))

        def fnf(idx):
            i = idx[0]
            if isinstance(i, Sym):
                r = old(idx)
                for j, val in table.items():
                    r = ite(I, mk(zint(i) == j, 'bool'), val, r)
                return r
            return table.get(i, None) if i in table else old(idx)
        a.fn = fnf
        return
    if not isinstance(k, tuple):
        k = (k,)
    k = tuple(k) + tuple(VSlice(None, None) for _ in range(len(a.shape) - len(k)))
    win = []
    tshape = []
    for d, (kk, n) in enumerate(zip(k, a.shape)):
        if isinstance(kk, VSlice):
            st, ln = slice_bounds(I, kk, n, f'dim {d} (assignment)')
            win.append(('slice', st, ln))
            tshape.append(ln)
        elif isinstance(kk, (int, Sym)):
            win.append(('int', index_in_range(I, kk, n, f'dim {d}'), 1))
        else:
            raise Unsupported('array assignment index')
    if isinstance(v, Arr) and v.shape != ():
        se = shapes_equal(I, tuple(tshape), v.shape)
        if se is False:
            # allow numpy broadcasting of size-1 dims only when concrete; otherwise error
            I.throw('ValueError', 'could not broadcast input array')
        if se is not True:
            I.ctx.oblige('numpy.assignment shapes match', zbool(se))
    old = a.fn

    def fn(idx):
        conds = []
        rel = []
        for i, (kind, st, ln) in zip(idx, win):
            if kind == 'int':
                conds.append(zbool(equal(I, i, st)))
            else:
                conds.append(z3.And(zint(i) >= zint(st), zint(i) < zint(st) + zint(ln)))
                rel.append(num_binop(I, '-', i, st))
        c = mk(z3.And(*conds), 'bool')
        nv = v.fn(tuple(rel)) if isinstance(v, Arr) and v.shape != () else (v.fn(()) if isinstance(v, Arr) else v)
        return ite(I, c, nv, old(idx))
    a.fn = fn
    propagate_view_write(I, a)
    if all(kind == 'int' for kind, st, ln in win) and any(isinstance(st, Sym) for kind, st, ln in win):
        # a single element stored at a symbolic index: later universally quantified facts about arrays of this rank (any / all /
        # min / max) are instantiated at that index as well, like at witness indices - otherwise `a[p] = 1; a.any()` stays open
        from . import m_numpy
        idx = tuple(st if isinstance(st, Sym) else mk(z3.IntVal(st), 'int') for kind, st, ln in win)
        m_numpy.add_witness(I, tuple(a.shape) if len(idx) > 1 else a.shape[0], idx if len(idx) > 1 else idx[0])


def propagate_view_write(I, a):
    """a write through a view reaches its base buffer"""
    base = a.base
    if base is None:
        return
    plan = a.view_plan
    vfn = a.fn
    old = base.fn
    shape = a.shape

    def fn(idx):
        conds = []
        rel = []
        j = 0
        for i, (kind, st) in zip(idx, plan):
            if kind == 'int':
                conds.append(zbool(equal(I, i, st)))
            else:
                ln = shape[j]
                j += 1
                conds.append(z3.And(zint(i) >= zint(st), zint(i) < zint(st) + zint(ln)))
                rel.append(num_binop(I, '-', i, st))
        c = mk(z3.And(*conds), 'bool')
        return ite(I, c, vfn(tuple(rel)), old(idx))
    base.fn = fn


def arr_inplace(I, op, a, b):
    arr_write_target(I, a, f'in-place array {op}=')
    old = a.fn
    shape = a.shape
    if op == '<<':
        # quantity unit attach: handled by the units model
        um = I.import_module('astropy.units')
        return I.call(um.ns['_attach_unit'], [a, b], {})
    a.fn = lambda idx: binop(I, op, old(idx), arr_elem(b, idx, shape))
    propagate_view_write(I, a)
    return a


def ite(I, c, x, y):
    if c is True:
        return x
    if c is False:
        return y
    if isinstance(c, Sym):
        if x is y:
            return x
        kx, ky = kind_of(x), kind_of(y)
        if kx == 'bool' and ky == 'bool':
            return mk(z3.If(c.e, zbool(x), zbool(y)), 'bool')
        if 'real' in (kx, ky):
            return mk(z3.If(c.e, zreal(x), zreal(y)), 'real')
        return mk(z3.If(c.e, zint(x), zint(y)), 'int')
    return x if I.truth(c) else y


# ---------------------------------------------------------------------------- ropes (symbolic text)
FMT_ALPHABET = set('0123456789.-')


def rope_parts(v):
    return [v] if isinstance(v, str) else v.parts


def rope_contains(I, rope, item):
    if not isinstance(item, str):
        raise Unsupported('rope contains rope')
    if len(item) != 1:
        # multi-char needle: decidable only inside concrete parts when no Fmt char can be part of it
        for p in rope.parts:
            if isinstance(p, str) and item in p:
                return True
        if any(ch not in FMT_ALPHABET for ch in item) and all(isinstance(p, str) or p.kind in ('f', 'exact') for p in rope.parts):
            # needle contains a char no Fmt piece can produce, but could straddle pieces: check boundaries conservatively
            for idx, p in enumerate(rope.parts):
                if not isinstance(p, str):
                    continue
            return False if not _straddle_possible(rope, item) else _unsup('needle may straddle pieces')
        raise Unsupported('substring test on symbolic text')
    for p in rope.parts:
        if isinstance(p, str):
            if item in p:
                return True
        elif p.kind in ('f', 'exact'):
            if item in FMT_ALPHABET:
                if item == '.' and p.ndots() == 1:
                    return True
                if item == '.' and p.ndots() == 0:
                    continue
                raise Unsupported(f'char {item!r} membership in formatted number')
        else:
            raise Unsupported('substring test on opaque text')
    return False


def _unsup(msg):
    raise Unsupported(msg)


def _straddle_possible(rope, item):
    # a needle containing both Fmt-alphabet chars and others could straddle; be conservative
    return any(ch in FMT_ALPHABET for ch in item)


def rope_equal(I, a, b):
    pa, pb = rope_parts(a), rope_parts(b)
    for x, y in ((pa, pb), (pb, pa)):
        if len(x) == 1 and isinstance(x[0], Fmt) and x[0].kind == 'opaque' and isinstance(x[0].value, tuple) \
                and x[0].value[0] in ('binary', 'gzip', 'slice-of-binary') and all(isinstance(q, str) for q in y):
            return False        # raw binary / compressed bytes are not region text (A-OS)
    if len(pa) == len(pb) and all((isinstance(x, str) and isinstance(y, str) and x == y) or (x is y) for x, y in zip(pa, pb)):
        return True
    if isinstance(a, str) or isinstance(b, str):
        s = a if isinstance(a, str) else b
        r = b if isinstance(a, str) else a
        # a rope with any Fmt piece is never equal to a string containing chars outside what it can produce
        fixed = ''.join(p for p in r.parts if isinstance(p, str))
        for ch in set(fixed):
            if fixed.count(ch) > s.count(ch) and ch not in FMT_ALPHABET:
                return False
        for ch in set(s):
            if ch not in FMT_ALPHABET and s.count(ch) != fixed.count(ch) and all(isinstance(p, str) or p.kind in ('f', 'exact') for p in r.parts):
                return False
    raise Unsupported('equality of symbolic texts')


def rope_getitem(I, r, k):
    parts = r.parts
    if len(parts) == 1 and isinstance(parts[0], Fmt) and parts[0].kind == 'opaque' and isinstance(parts[0].value, tuple) \
            and parts[0].value[0] in ('binary', 'gzip', 'slice-of-binary') and isinstance(k, VSlice):
        return Rope([Fmt(('slice-of-binary', parts[0].id), None, 'opaque')])
    if isinstance(k, VSlice):
        s = pyslice(I, k)
        if s.step not in (None, 1):
            raise Unsupported('rope slice step')
        # only slices that cut inside the concrete head/tail are supported
        start, stop = s.start, s.stop
        new = list(parts)
        if stop is not None:
            if stop < 0 and isinstance(new[-1], str) and len(new[-1]) >= -stop:
                new[-1] = new[-1][:stop]
            elif stop >= 0 and isinstance(new[0], str) and len(new[0]) >= stop:
                new = [new[0][:stop]]
            else:
                raise Unsupported('rope slice stop inside symbolic piece')
        if start is not None and start != 0:
            if start > 0 and isinstance(new[0], str) and len(new[0]) >= start:
                new[0] = new[0][start:]
            elif start < 0 and isinstance(new[-1], str) and len(new[-1]) >= -start:
                new = [new[-1][start:]]
            else:
                raise Unsupported('rope slice start inside symbolic piece')
        out = Rope(new)
        if all(isinstance(p, str) for p in out.parts):
            return ''.join(out.parts)
        return out
    if isinstance(k, int):
        if k < 0 and isinstance(parts[-1], str) and len(parts[-1]) >= -k:
            return parts[-1][k]
        if k >= 0 and isinstance(parts[0], str) and len(parts[0]) > k:
            return parts[0][k]
        if k == -1 and isinstance(parts[-1], Fmt) and parts[-1].kind in ('f', 'exact'):
            return DigitChar()
        raise Unsupported('rope index inside symbolic piece')
    raise Unsupported('rope index')


class DigitChar:
    """an unknown decimal digit character (last char of a fixed-point rendering)"""


def format_value(I, v, spec, conv):
    """f-string / format() of one value"""
    if isinstance(spec, Rope):
        raise Unsupported('symbolic format spec')
    if conv == ord('r'):
        if isinstance(v, str):
            return repr(v)
        return to_str(I, v, repr_=True)
    if conv == ord('s'):
        v = to_str(I, v)
    if spec == '':
        return to_str(I, v)
    if isinstance(v, VObj):
        m = I.find_method(v, '__format__')
        if m is not None:
            return I.call(m, [spec], {})
        raise Unsupported(f'format of {v.cls.name} with spec')
    if isinstance(v, (int, float, str)) and not isinstance(v, bool):
        try:
            return format(v, spec)
        except (ValueError, TypeError) as e:
            I.throw('ValueError', str(e))
    if isinstance(v, Fraction):
        return format(float(v), spec)
    if isinstance(v, Sym) and v.kind in ('real', 'int'):
        import re
        m = re.fullmatch(r'0?\.(\d+)([fFgGeE])', spec)
        if m:
            # 'f' is the fixed-point rendering the conventions require; other presentation types are kept apart (different text)
            return Rope([Fmt(v, int(m.group(1)), 'f' if m.group(2) == 'f' else 'fmt-' + m.group(2))])
        raise Unsupported(f'format spec {spec!r} on symbolic number')
    if isinstance(v, Rope):
        raise Unsupported('format spec on symbolic text')
    if v is None or isinstance(v, (bool, tuple, VList, VDict)):
        I.throw('TypeError', f'unsupported format string passed to {host_type_name(v)}.__format__')
    raise Unsupported(f'format of {type(v).__name__}')


def to_str(I, v, repr_=False):
    if isinstance(v, str):
        return repr(v) if repr_ else v
    if isinstance(v, Rope):
        return v
    if v is None or isinstance(v, (bool, int, float)):
        return repr(v) if repr_ else str(v)
    if isinstance(v, Fraction):
        return str(float(v))
    if isinstance(v, Sym):
        return Rope([Fmt(v, None, 'str')])
    if isinstance(v, VObj):
        for name in (('__repr__',) if repr_ else ('__str__', '__repr__')):
            m = I.find_method(v, name)
            if m is not None and not isinstance(getattr(m, 'func', None), Builtin):
                return I.call(m, [], {})
        return Rope([Fmt(v, None, 'opaque')])
    if isinstance(v, tuple):
        return Rope(['('] + _join_reprs(I, v) + ([',)'] if len(v) == 1 else [')']))
    if isinstance(v, VList):
        return Rope(['['] + _join_reprs(I, v.l) + [']'])
    if isinstance(v, VClass):
        return f"<class '{v.name}'>"
    return Rope([Fmt(v, None, 'opaque')])


def _join_reprs(I, items):
    out = []
    for i, x in enumerate(items):
        if i:
            out.append(', ')
        out.append(to_str(I, x, repr_=True))
    return out


from .builtins2 import *  # noqa: E402,F401,F403  (object model, builtin classes/functions, external modules)
